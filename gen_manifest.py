#!/usr/bin/env python3
"""Regenerates MANIFEST.json from the table below (kept in one place so that the
manifest stays valid while checks are added)."""
import json, os
ROOT = os.path.dirname(os.path.abspath(__file__))
CHECKS = {
 "C19": dict(level="exploration", technique="reference validity model on a controlled pair of clocks (sender clock stamped in EXT_TIME, receiver clock of every push) + metamorphic skew-independence oracle at the monitoring writer",
     text="About 900 hand-built scenarios (FDT durations, object emitted -10 s..+1 h around Expires, SCT on/off, check on/off, FDT-before-object and object-before-FDT, renewal by a valid or an already expired second instance, transit 0/0.2 s, in-band/FDT-only FTI) are each run under 11 (quick) / 31 (thorough) receiver clock skews from 3 s to 30 years; delivery must match the reference (valid instance at the estimated sender instant of the delivery start), objects announced only by expired instances must get no writer, and with SCT the writer log must be identical for every skew. Complete over the scenario grid.",
     note="trusted: reference validity computation, independent encoder; +-2 s around Expires never generated", ref="DESIGN.md §5 C19"),
 "C18": dict(level="exploration", technique="metamorphic non-interference oracle over all interleavings of small session streams, counter-map reference model of the TSI filter over all operation sequences to a depth, per-(listener, session) trace automaton with call attribution, expiry-race stress",
     text="All interleavings (or seeded merges) of 2-4 sessions laid out over eight endpoint/TSI geometries must deliver per session exactly what the session delivers alone, with its own endpoint and TSI on every callback; all 24^d sequences of listen operations (d=3 quick, 4 thorough) are probed with 8 packets against a reference filter; thousands of listener scripts (data, close-session, cleanups after real sleeps, drop) and a 300-session expiry stress are judged by an open/close automaton that records the call in progress for every event. Complete for the enumerated interleavings and filter sequences, sampled beyond.",
     note="trusted: monitoring writer, reference filter, listener automaton; expiry is never assumed absent", ref="DESIGN.md §5 C18"),
 "C17": dict(level="exploration", technique="counting allocator (live heap, slope test, release to baseline) + structural invariant hook verif_stats() at quiescent points, one scenario per single-threaded child process, real sleeps for timeouts",
     text="About 200 (quick) / 1500 (thorough) scenarios of undecodable traffic - cached packets without FDT, many cached objects, decoded blocks waiting behind block 0 for four schemes, FDT ids that never complete, hundreds of idle sessions, failing objects, many FDT instances - over cache sizes 1 KiB..default, error-list lengths, timeouts and traffic scales; after every batch the hook exposes per-object cached bytes, waiting block bytes, list lengths, and the allocator the live heap; 10x more traffic must not cost more heap, and after 12x the timeouts one cleanup must leave no session, object or unfinished FDT and the heap at baseline. Held on the scenarios run.",
     note="trusted: counting allocator, verif_stats hook (MANIFEST.hooks), wall-clock sleeps with 12x margin", ref="DESIGN.md §5 C17"),
 "C16": dict(level="fault_enumeration", technique="exhaustive join-offset enumeration over one carousel cycle per configuration; bounded-progress oracle (two further full object transfers and FDT emissions computed from Start/Stop events and the independent decoder) at the monitoring writer",
     text="For 240 (quick) / 720 (thorough) carousel configurations - 5 FEC schemes x in-band/FDT-only FTI and CENC x cenc x 1-5 objects x delay/interval x both publish modes x single/multi-packet and scheme-protected FDT x interleave x multiplexing - a fresh receiver is started at every packet offset of a full cycle and must deliver every object byte-exact by the end of the window the property names. Complete over the join offsets of each built configuration.",
     note="trusted: Start/Stop events + independent decoder for the window; receiver without object timeout; 1 h FDT duration", ref="DESIGN.md §5 C16"),
 "C15": dict(level="exploration", technique="reference set model of live TOIs checked after every operation over all operation sequences to a depth, wrap-around stress, real-thread stress with call/return event log; wire/FDT comparison through the independent decoder; compile-time Send/Sync assertions (thorough adds TSan and Miri many-seeds)",
     text="All sequences of six operations up to depth 6 (quick) / 8 (thorough) for each of the six TOI widths and eight initial values (incl. 0, max, 2^w, u128::MAX and the random default) run against the real sender with the Live-set model checked after every step and wire/FDT TOIs compared; 70 000-allocation wrap runs with up to 65 530 live handles; 2-8 real threads allocating under a mutex and dropping moved handles without it, judged on a merged call/return log. Complete for the enumerated sequences, sampled schedules for threads.",
     note="trusted: set model, independent decoder, global sequence counter; thread schedules are whatever the OS (and Miri seeds) produce", ref="DESIGN.md §5 C15"),
 "C14": dict(level="exploration", technique="timing monitor over (virtual instant, packet) pairs and Start/Stop instants under generated polling schedules (microsecond virtual clock); degenerate-input robustness with step budget and overflow instrumentation",
     text="Thousands of runs under fixed, jittered, bursty and standing-still polling schedules from 1 us to 10 s periods: packets and StartTransfer are never before the transfer start time or trigger timestamp, carousel cycles never start before the configured delay/interval, paced packet i is never before start + i*target/ceil(L/E), and a lone paced object under drain polling emits each due packet at the first poll after its due time; 14 degenerate inputs x 8 variants and extreme clocks must not panic, hang or starve a plain object. Held on the runs executed.",
     note="trusted: harness virtual clock; carousel gap judged between cycles of max_transfer_count transfers (flute resets the counter per cycle); lateness under coarse polling is not a violation", ref="DESIGN.md §5 C14"),
 "C13": dict(level="exploration", technique="stream invariants (strict priority, FIFO admission, multiplex bound + round-robin consequence, interleave window + block order) on the independently decoded stream over a complete small grid, late high-priority injection at every packet index and random workloads",
     text="All workloads of a small grid (1-3 queues x 1-3 objects x size patterns x multiplex 0-3 x interleave 1-4 x publish mode), a high-priority object injected at every packet index of a low-priority transmission, and thousands of random workloads (<= 6 queues, <= 20 objects) run on the real sender; four invariants are evaluated on the decoded stream with readiness taken from the operation log. Complete for the grid, sampled beyond.",
     note="trusted: independent decoder, operation log; no start time / pacing / carousel in these workloads", ref="DESIGN.md §5 C13"),
 "C12": dict(level="exploration", technique="per-object lifecycle reference model over Start/StopTransfer events, independently decoded stream and API state samples; removal at every packet index; termination cap per instant",
     text="A controlled grid (transfer counts 1..5 x five carousel modes x immediate-stop x FEC x publish mode) with the object removed at EVERY packet index of its first two transfers, and thousands of random multi-object scripts, run on the real sender; the model decides exact complete-transfer counts, disappearance after the last transfer, carousel persistence, the three removal outcomes (finish first transfer / at most one close-object packet / nothing), nb_transfers at quiescent points, nb_objects, FDT-only tail and termination of reads at a fixed instant. Held on the scripts run.",
     note="trusted: Subscriber events as transfer boundaries cross-checked by the decoded stream; liveness verdicts only on the ample-horizon grid", ref="DESIGN.md §5 C12"),
 "C11": dict(level="exploration", technique="online trace automaton over the emitted stream (Announced set fed by independently decoded, completely emitted FDT instances; pending-instance and publish-count rules) on random operation interleavings",
     text="Twelve thousand (quick) random add/publish/remove/read interleavings with objects added at arbitrary packet indices, multi-packet FDTs, double/forgotten publishes, carousel, start times, 1-4 queues, multiplexing, both publish modes and both polling disciplines run on the real sender; every object packet must belong to a TOI listed by an FDT instance already completely on the wire, never interrupt a partly emitted instance, and never overtake an instance that an explicit publish made pending. Held on the scripts run.",
     note="trusted: independent decoder and reassembly; publish() errors skip the script (precondition)", ref="DESIGN.md §5 C11"),
 "C10": dict(level="exploration", technique="reference-model monitor over emitted FDT instances: independent reassembly, model set timeline from the operation log and Start/Stop events, expat + xmllint/XSD offline checker, id/Expires/supersession trace checks",
     text="Thousands of random add/publish/remove/set_complete scripts with hostile metadata, all schemes, both publish modes, FDT cenc, start ids around the 2^20 wrap and durations from 2 s to 3 d run on the real sender over several expiry periods; every FDT instance on the wire is reassembled by the independent decoder, parsed with expat and validated against the repository XSD with xmllint, and compared field by field and listing by listing with what the sender was given; ids, Expires, id reuse, fdt_received identity and bounded supersession (50 ms polling) are judged on the trace. Held on the scripts run.",
     note="trusted: expat, xmllint+XSD, independent decoder, model timeline; known findings KF-C10-attr-whitespace, KF-C10-supersession-*", ref="DESIGN.md §5 C10"),
 "C05": dict(level="exploration", technique="filesystem snapshot oracle (jail with canaries at every level, prefix-sibling, root litter scan) + strace syscall-trace oracle over a complete location grammar and random strings, three session endings",
     text="Every Content-Location of the grammar prefix{9} x up to d segments{10} (d=3 quick, 4 thorough; complete enumeration) and thousands of random strings is announced by a hand-built FDT and delivered through a real session to ObjectWriterFS with complete / MD5-error / interrupted endings; nothing outside the destination may be created, modified or deleted (snapshot of a jail three levels up + filesystem root scan), and in a strace-traced sample every mutating file syscall must target a path under the destination, successful or not. Held on the locations run.",
     note="trusted: snapshot code, strace; no symlinks planted; runs as root (absolute escapes are real, names are unique and removed)", ref="DESIGN.md §5 C05"),
 "C09": dict(level="exploration", technique="typestate trace automaton per writer instance (online in the monitoring writer + offline over its log) over every drop point x scripted writer failures x orders, hand-written FDTs, malformed histories",
     text="Every writer the builder hands out is an automaton New->Opened->(write)*->terminal; illegal edges are recorded at the call that makes them. Workloads: each small session x 9 writer scripts x 4 orders x EVERY drop point, hand-written FDTs without FEC-OTI (writer created inside push) with empty/non-empty objects and lying Content-Length, and 60k (quick) malformed histories with failing writers. Offline checks add prefix-of-content, complete-implies-content/length/MD5 and terminated-at-drop. Held on the histories run.",
     note="trusted: monitoring writer; per-instance automaton (several writers per TOI are legal)", ref="DESIGN.md §5 C09"),
 "C04": dict(level="exploration", technique="hostile-input execution in crash-isolated children under overflow/debug-assert instrumentation, step-budget hang detector and counting/capping allocator; exhaustive <=3-byte strings and single-byte header substitutions, field-aware edits through an independent encoder, FDT XML rewriting, mutation sequences; probe-session usability oracle",
     text="Seven classes of hostile packet sequences (about 18 M pushes quick) run against the real MultiReceiver in single-threaded child processes; the parent attributes panics, step-budget trips, allocation-cap hits and aborts to the sequence in flight and restarts. After every sequence two valid probe sessions must still be delivered. Thorough adds all 255 substitution values, 10x more XML/sequence cases, ASan/Miri/valgrind sub-runs. Held on the sequences executed.",
     note="trusted: counting allocator numbers, step hooks at the loops listed in MANIFEST.hooks commits; dependencies are exercised through flute only", ref="DESIGN.md §5 C04"),
 "C03": dict(level="fault_enumeration", technique="exhaustive permutation and sub-multiset enumeration of small sessions + sampled reorder/duplicate/stale/payload-fault histories; safety automaton at the writer boundary (Complete => exact bytes, single terminal call)",
     text="All orderings (n! for n<=8 quick / 10 thorough packets incl. the FDT) and all sub-multisets with multiplicity <=2 of a catalogue of small sessions, plus seeded shuffles, bounded-displacement reorderings, stale replays and cross-transfer/carousel mixes of larger sessions with receive-once on/off, and bit-flip/truncate/extend/swap payload faults on MD5-announced objects are pushed into the real receiver; the monitoring writer decides byte equality at every Complete. Complete for the enumerated shapes, sampled beyond.",
     note="trusted: monitoring writer, original object bytes; liveness not demanded", ref="DESIGN.md §5 C03"),
 "C02": dict(level="fault_enumeration", technique="exhaustive loss-subset enumeration of small sessions + threshold-biased sampled loss; decodability predicate from the delivered list (reference partition) vs monitoring-writer outcome",
     text="For every small-session shape of the catalogue every subset of the object packets (2^n, n<=13 quick / 16 thorough) is delivered in order, each also with a duplicated packet; larger random sessions get losses tuned to k-1/k/k+1 symbols per block, bursts and lost FDT copies. Whenever the delivered list satisfies the property's precondition (computed independently) the writer must complete with exact bytes. Complete for the enumerated shapes, sampled beyond.",
     note="trusted: independent decoder, reference partition, FDT-before-object precondition", ref="DESIGN.md §5 C02"),
 "C08": dict(level="exploration", technique="stream monitor: independent decoder + reference partition per transfer/block, RFC-only reassembly with independent inflate, A/B flag trace automaton; removal at every packet index",
     text="Sender-only runs on a virtual clock (systematic grid over 5 FEC x E x B x parity x interleave 1..5 x length lattice, random multi-object sessions with cenc/sources/transfer counts, removal at every packet index with carousel and immediate-stop variants): the emitted stream is cut into transfers with the public Start/StopTransfer events and each transfer is judged block by block against the u128 reference partition and a flag automaton. Held on the runs executed.",
     note="trusted: vh::wire decoder, reference partition, harness flate2; known finding KF-C08-raptor-semi-equal-symbols", ref="DESIGN.md §5 C08"),
 "C01": dict(level="exploration", technique="end-to-end reference-model monitor: monitoring object writer (typestate + byte/metadata equality) over boundary-lattice sessions, step-budget hang detector, overflow/debug-assert instrumentation",
     text="Tens of thousands of seeded sessions (systematic grid over 5 FEC schemes x E x B x parity x length lattice, cenc grid, random multi-object lattice, receive-once off, directed maximum-length cases, filesystem writer) are run sender -> stream -> receiver in process; an oracle at the writer boundary demands exactly the expected complete copies, byte equality and metadata equality, no failed writer and refusal of objects above the scheme maximum. Held on the sessions run.",
     note="trusted: harness MD5/flate2/url crates, independent wire decoder; clean order-preserving channel; known finding KF-C01-obt-retransfer-duplicates", ref="DESIGN.md §5 C01"),
 "C06": dict(level="exploration", technique="differential round-trip oracle against an independent RFC 5651/5775/6726/5445/5510/6330 codec; exhaustive field-width-class enumeration with boundary + seeded values",
     text="Every combination of CCI/TSI/TOI width class, flags, FEC id and extension subset is driven through flute encoder -> flute decoder, flute encoder -> independent decoder and independent encoder (with unknown/long extensions, all admissible S/O/H classes, PSI/reserved bits, extension order) -> flute decoder, comparing full field records; overflow checks on. Held on the tuples run.",
     note="trusted: vh::wire written from RFC field tables (appendix A), self-checked on every packet; Raptor FTI F/T position not judged against RFC 5053", ref="DESIGN.md §5 C06"),
 "C07": dict(level="exploration", technique="differential oracle: flute partition functions under overflow checks vs u128 RFC 5052 reference; complete small cube + boundary lattice + random; wire-structure + delivery monitor end to end",
     text="Every (B,E,L) of the stated cube is evaluated on the real functions (complete enumeration of that finite domain), plus boundary/random triples to 2^32/65535/2^48 with integer-overflow instrumentation on; end-to-end sessions check that the SBN/ESI structure on the wire and the receiver's reconstruction agree with the reference. Held-on-what-was-run, not a proof for other inputs.",
     note="trusted: u128 reference partition, independent wire decoder, rustc overflow-checks", ref="DESIGN.md §5 C07"),
}
PLANNED = {}
props = [json.loads(l) for l in open(os.path.join(ROOT, "properties.jsonl"))]
checks = []
na = []
for p in props:
    pid = p["id"]
    if pid in CHECKS and os.path.exists(os.path.join(ROOT, "harness/src/bin/%s.rs" % pid.lower())):
        c = CHECKS[pid]
        checks.append({
            "property_id": pid,
            "quick_cmd": "./check %s quick" % pid,
            "thorough_cmd": "./check %s thorough" % pid,
            "evidence_file": "/verif/evidence/%s.json" % pid,
            "replay_cmd_template": "./check %s --replay {path}" % pid,
            "engine": "vh",
            "level_claimed": {"category": c["level"], "text": c["text"], "design_ref": c["ref"]},
            "level_note": c["note"],
            "technique": c["technique"],
        })
    else:
        na.append({"property_id": pid, "reason": PLANNED.get(pid, "check not built yet in this round (runtime monitor planned, see DESIGN.md §5); not claimed until its monitor exists and is silent on the unchanged tree")})
m = {
 "version": 1,
 "setup_cmd": "./check --build-all",
 "hooks": {
   "guard": "cargo feature verif",
   "enable": "harness/Cargo.toml: flute = { path = \"/repo\", features = [\"verif\"] }",
   "baseline_off_cmd": "cd /repo && PATH=$PATH:/root/miniconda/bin cargo nextest run --workspace --no-fail-fast --test-threads 8 --offline",
   "source_commits": [l.strip() for l in open(os.path.join(ROOT, "hook_commits.txt")) if l.strip()],
   "add_only": True,
 },
 "engines": [{"name": "vh", "path": "/verif/harness", "serves_properties": [c["property_id"] for c in checks],
              "kind_free_text": "Rust harness crate (path dependency on /repo with feature verif): seeded workload generators, event recorders at the API boundary, reference-model oracles and trace automata; build profile with overflow-checks and debug-assertions on; thorough tiers add Miri / ASan / TSan / valgrind sub-runs"}],
 "checks": checks,
 "not_applicable": na,
 "notes": "Technique family: runtime monitoring and sanitizers. Exit codes: 0 held on what was explored, 1 VIOLATION, 2 harness/build problem (inconclusive). Known findings: /verif/known_findings.json.",
}
json.dump(m, open(os.path.join(ROOT, "MANIFEST.json"), "w"), indent=1)
print("checks:", [c["property_id"] for c in checks], "na:", len(na))
