//! Boundary-lattice generators for OTIs, object lengths and sessions.

use crate::session::*;
use crate::util::Rng;

#[derive(Clone, Debug)]
pub struct GenOpts {
    pub fecs: Vec<Fec>,
    pub cenc: bool,
    pub max_objects: usize,
    /// upper bound for object sizes in symbols (keeps cases fast)
    pub max_symbols: u64,
    pub multi_queue: bool,
    pub transfers_max: u32,
    pub sources: bool,
    pub realistic_every: u64,
    /// keep every Raptor block at >= 4 symbols (the scheme's minimum)
    pub raptor_min4: bool,
    pub per_object_oti: bool,
}

impl Default for GenOpts {
    fn default() -> Self {
        GenOpts {
            fecs: ALL_FEC.to_vec(),
            cenc: true,
            max_objects: 4,
            max_symbols: 60,
            multi_queue: true,
            transfers_max: 3,
            sources: true,
            realistic_every: 40,
            raptor_min4: false,
            per_object_oti: true,
        }
    }
}

pub fn gen_oti(rng: &mut Rng, fec: Fec) -> OtiSpec {
    let al = match fec {
        Fec::RaptorQ | Fec::Raptor => *rng.pick(&[1u8, 2, 4, 8]),
        _ => 1,
    };
    let e_choices: &[u16] = &[1, 2, 3, 4, 7, 8, 16, 31, 64, 100];
    let mut e = *rng.pick(e_choices);
    if al > 1 {
        e = ((e as u32).div_ceil(al as u32) * al as u32) as u16;
    }
    let b = match fec {
        Fec::Raptor | Fec::RaptorQ => *rng.pick(&[1u32, 2, 3, 4, 5, 8, 10, 16]),
        _ => *rng.pick(&[1u32, 2, 3, 4, 5, 8, 16, 64]),
    };
    let parity = match fec {
        Fec::NoCode => 0,
        Fec::Rs28 | Fec::Rs28Us => *rng.pick(&[0u32, 1, 1, 2, 3, b]),
        _ => *rng.pick(&[0u32, 1, 2, 3]),
    };
    let mut o = OtiSpec::new(fec, e, b, parity.min(255 - b.min(254)));
    o.al = al;
    o.inband_fti = rng.chance(1, 2);
    // RaptorQ sub-blocks: N > 1 for one OTI in three, bounded by T/Al (the sub-symbol sizes are partition(T/Al, N) * Al,
    // so values of N that do not divide T/Al are the interesting ones)
    if fec == Fec::RaptorQ && rng.chance(1, 3) {
        let units = (e as u32 / al as u32).max(1);
        o.n = (rng.range(2, 5) as u32).min(units) as u16;
    }
    o
}

/// lengths around every boundary of (E,B): symbol, block, a_large/a_small
pub fn len_lattice(e: u64, b: u64) -> Vec<u64> {
    let mut v = vec![0, 1];
    for k in [1u64, 2, 3] {
        for d in [-1i64, 0, 1] {
            v.push(((k * e) as i64 + d) as u64);
        }
    }
    for k in [1u64, 2, 3] {
        for d in [-1i64, 0, 1] {
            let x = (k * b * e) as i64 + d;
            if x >= 0 {
                v.push(x as u64);
            }
        }
        // one symbol more than k full blocks: unequal partition (a_large != a_small)
        v.push(k * b * e + e);
        v.push(k * b * e + e + 1);
        v.push(k * b * e + b * e / 2);
    }
    v.retain(|x| *x < (1 << 40));
    v.sort();
    v.dedup();
    v
}

pub fn gen_len(rng: &mut Rng, oti: &OtiSpec, max_symbols: u64) -> u64 {
    let e = oti.e as u64;
    let b = oti.b as u64;
    let cap = max_symbols * e;
    let lat: Vec<u64> = len_lattice(e, b).into_iter().filter(|l| *l <= cap).collect();
    if rng.chance(3, 4) && !lat.is_empty() {
        *rng.pick(&lat)
    } else {
        rng.below(cap + 1)
    }
}

pub fn hostile_strings() -> Vec<&'static str> {
    vec![
        "plain",
        "with space",
        "quote\"dq",
        "apos'sq",
        "amp&amp",
        "lt<gt>",
        "]]>cdata",
        "&amp;literal",
        "tab\there",
        "nl\nline",
        "unicode-\u{e9}\u{4e2d}\u{1F600}",
        "",
        "a=b;c=d",
        "<!-- c -->",
        "&#x41;",
        "%41%2F",
    ]
}

pub fn gen_object(rng: &mut Rng, idx: usize, default_oti: &OtiSpec, o: &GenOpts) -> ObjSpec {
    let oti = if o.per_object_oti && rng.chance(1, 3) {
        {
        let f = *rng.pick(&o.fecs);
        Some(gen_oti(rng, f))
    }
    } else {
        None
    };
    let eff = oti.as_ref().unwrap_or(default_oti).clone();
    let mut len = gen_len(rng, &eff, o.max_symbols);
    if o.raptor_min4 && eff.fec == Fec::Raptor {
        // every block >= 4 symbols: T >= 4 and floor(T/N) >= 4
        let e = eff.e as u64;
        loop {
            let p = ref_partition(eff.b as u128, len as u128, e as u128);
            if len == 0 || (p.a_small >= 4 && len % e == 0) {
                break;
            }
            len = (len / e + 1) * e;
        }
    }
    let data = gen_bytes(rng, len as usize);
    let mut ob = ObjSpec::new(data, &format!("file:///dir{}/obj{}.bin", idx % 3, idx));
    ob.oti = oti;
    if o.cenc && rng.chance(1, 3) {
        ob.cenc = *rng.pick(&[CencSpec::Zlib, CencSpec::Deflate, CencSpec::Gzip]);
    }
    ob.inband_cenc = rng.chance(1, 2);
    ob.md5 = rng.chance(3, 4);
    ob.max_transfer_count = 1 + rng.below(o.transfers_max as u64) as u32 * rng.below(2) as u32;
    let hs = hostile_strings();
    if rng.chance(1, 2) {
        ob.content_type = format!("text/{}", rng.pick(&hs));
    }
    if rng.chance(1, 2) {
        ob.e_tag = Some(format!("etag-{}", rng.pick(&hs)));
    }
    if rng.chance(1, 3) {
        ob.groups = Some(vec![format!("g{}", rng.below(3)), rng.pick(&hs).to_string()]);
    }
    ob.cache = match rng.below(6) {
        0 => Some(CacheSpec::NoCache),
        1 => Some(CacheSpec::MaxStale),
        2 => Some(CacheSpec::ExpiresSecs(rng.range(1, 100_000))),
        3 => Some(CacheSpec::ExpiresAtSecs(rng.range(1, 100_000_000))),
        _ => None,
    };
    if o.sources && ob.cenc == CencSpec::Null && rng.chance(1, 4) {
        ob.source = match rng.below(6) {
            0 => SourceSpec::Cursor,
            1 => SourceSpec::Chunked(vec![1 << 20]),
            3 => SourceSpec::PathRam,
            4 => SourceSpec::PathNoRam,
            // a stream handed over at a non-zero position, with and without MD5 (the MD5 computation rewinds it)
            2 if !ob.data.is_empty() => {
                ob.md5 = rng.chance(1, 2);
                SourceSpec::ChunkedAt(vec![4096, 100], rng.range(1, ob.data.len() as u64) as usize)
            }
            _ => SourceSpec::Cursor,
        };
    }
    ob
}

pub fn gen_session(rng: &mut Rng, o: &GenOpts) -> (SenderSpec, Vec<ObjSpec>) {
    let fec = *rng.pick(&o.fecs);
    let realistic = o.realistic_every > 0 && rng.below(o.realistic_every) == 0;
    let mut oti = gen_oti(rng, fec);
    if realistic {
        oti.e = 1400 - (1400 % oti.al as u16);
        oti.b = match fec {
            Fec::Rs28 => 60,
            _ => 64,
        };
        if fec != Fec::NoCode {
            oti.parity = 3;
        }
    }
    // precondition of every delivery property: the session's default OTI can
    // carry the FDT itself (a few KiB; Raptor needs >= 4 symbols per block)
    make_fdt_capable(&mut oti);
    let mut spec = SenderSpec::new(oti.clone());
    spec.tsi = *rng.pick(&[1u64, 2, 0xFFFF, 0x1_0000, 0xFFFF_FFFF_FFFF]);
    spec.full_fdt = rng.chance(1, 2);
    spec.interleave = rng.range(1, 5) as u8;
    spec.fdt_cenc = if rng.chance(1, 4) {
        *rng.pick(&[CencSpec::Zlib, CencSpec::Deflate, CencSpec::Gzip])
    } else {
        CencSpec::Null
    };
    spec.inband_sct = rng.chance(3, 4);
    // FLUTE version 1 profile (EXT_FDT version 1) in one session out of eight
    spec.rfc3926 = rng.chance(1, 8);
    spec.fdt_start_id = *rng.pick(&[0u32, 1, 7, 0xFFFFE, 0xFFFFF]);
    spec.toi_bits = *rng.pick(&[16u8, 32, 48, 64, 80, 112]);
    spec.toi_initial = Some(*rng.pick(&[1u128, 2, 100, 0xFFFE, 0xFFFF]));
    // one session in three starts its TOIs just below an inner 16-bit boundary of the width, at the top of the
    // width (wrap-around inside the session) or at the library's random default
    if rng.chance(1, 3) {
        let w = spec.toi_bits as u32;
        let ks: Vec<u32> = (16..=w).step_by(16).collect();
        let k = *rng.pick(&ks);
        let top = if k >= 128 { u128::MAX } else { (1u128 << k) - 1 };
        spec.toi_initial = match rng.below(4) {
            0 => None,
            1 => Some(top),
            2 => Some(top - 1),
            _ => Some((top >> 1) + 1 + rng.below(1000) as u128),
        };
    }
    if rng.chance(1, 3) {
        spec.groups = Some(vec!["sg".to_string(), rng.pick(&hostile_strings()).to_string()]);
    }
    if o.multi_queue && rng.chance(1, 3) {
        let nq = rng.range(2, 4);
        spec.queues = (0..nq).map(|q| (q as u32 * 2, rng.below(5) as u32)).collect();
    } else {
        spec.queues = vec![(0, rng.below(5) as u32)];
    }
    let nobj = 1 + rng.below(o.max_objects as u64) as usize;
    let mut objs = vec![];
    for i in 0..nobj {
        let mut ob = gen_object(rng, i, &oti, o);
        if realistic && i == 0 {
            let n = rng.range(90_000, 110_000) as usize;
            ob.data = gen_bytes(rng, n);
            ob.oti = None;
        }
        ob.priority = rng.pick(&spec.queues).0;
        objs.push(ob);
    }
    (spec, objs)
}

/// Adjust a default OTI so that an FDT instance of up to ~16 KiB fits flute's
/// own limits for the scheme and (Raptor) never produces a block below 4 symbols.
pub fn make_fdt_capable(oti: &mut OtiSpec) {
    // the FDT is reassembled by the harness from contiguous E-byte slices: no RaptorQ sub-blocking for the OTI that
    // carries the FDT (N > 1 is generated for object OTIs only)
    oti.n = 1;
    let flute_blocks: u64 = match oti.fec {
        Fec::NoCode | Fec::Raptor => 65535,
        Fec::Rs28 | Fec::RaptorQ => 255,
        Fec::Rs28Us => 1 << 20,
    };
    // keep the FDT at a few hundred packets at most
    while oti.e < 16 {
        oti.e = ((oti.e as u32 * 2).div_ceil(oti.al as u32) * oti.al as u32) as u16;
    }
    while (oti.e as u64) * (oti.b as u64) * flute_blocks < 16384 {
        if oti.e < 64 {
            oti.e = ((oti.e as u32 * 2).div_ceil(oti.al as u32) * oti.al as u32) as u16;
        } else {
            oti.b *= 2;
        }
    }
    if oti.fec == Fec::Raptor {
        oti.b = oti.b.max(8);
        // a compressed FDT may be as small as ~200 bytes: keep >= 7 symbols
        oti.e = oti.e.min(32);
        oti.e = ((oti.e as u32).div_ceil(oti.al as u32) * oti.al as u32) as u16;
    }
    if oti.fec.is_rs() {
        // an RS OTI without parity cannot carry anything (refused by add_object/publish)
        oti.parity = oti.parity.min(255 - oti.b.min(254)).max(1);
    }
}
