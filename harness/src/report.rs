//! Case driver, evidence writer, violation / known-finding reporting.
//!
//! Every property binary is a list of *generators*; a generator maps a case
//! index to one executed case (workload + monitor) and returns what the monitor
//! observed. The driver runs all cases over all cores, counts distinct
//! non-trivial shapes, matches violations against `known_findings.json`, writes
//! `evidence/<id>.json` and replay files and sets the exit code.

use crate::util::{self, Stopwatch};
use serde_json::{json, Map, Value};
use std::collections::{BTreeMap, HashSet};
use std::path::PathBuf;
use std::time::{Duration, Instant};

#[derive(Clone, Copy, Debug, PartialEq, Eq)]
pub enum Tier {
    Quick,
    Thorough,
}

impl Tier {
    pub fn name(self) -> &'static str {
        match self {
            Tier::Quick => "quick",
            Tier::Thorough => "thorough",
        }
    }
    pub fn pick<T>(self, q: T, t: T) -> T {
        match self {
            Tier::Quick => q,
            Tier::Thorough => t,
        }
    }
}

#[derive(Clone, Debug)]
pub struct Ctx {
    pub seed: u64,
    pub tier: Tier,
    pub replay: bool,
}

#[derive(Clone, Debug)]
pub struct Violation {
    /// which clause of the property (short token, part of the signature)
    pub clause: String,
    /// discriminating facts (matched against known_findings.json)
    pub sig: Map<String, Value>,
    /// human readable description
    pub detail: String,
    /// everything needed to understand / reproduce: config, packets, events
    pub witness: Value,
}

impl Violation {
    pub fn new(clause: &str, detail: impl Into<String>) -> Violation {
        let mut sig = Map::new();
        sig.insert("clause".into(), json!(clause));
        Violation {
            clause: clause.to_string(),
            sig,
            detail: detail.into(),
            witness: Value::Null,
        }
    }
    pub fn with(mut self, k: &str, v: impl Into<Value>) -> Violation {
        self.sig.insert(k.to_string(), v.into());
        self
    }
    pub fn witness(mut self, w: Value) -> Violation {
        self.witness = w;
        self
    }
}

#[derive(Default, Debug)]
pub struct CaseResult {
    /// Some(hash) when the case was non-trivial (the monitor saw the events it
    /// needs); the hash identifies the *shape* of the case for distinct counting
    pub shape: Option<u64>,
    pub violations: Vec<Violation>,
    /// written to evidence.coverage.samples for the first few cases
    pub sample: Option<Value>,
    /// named event counters, summed over all cases
    pub counters: Vec<(&'static str, u64)>,
    /// distinct monitor states / observations (hashed), unioned over cases
    pub states: Vec<u64>,
    /// harness-side problem (not a verdict): reported as INCONCLUSIVE
    pub inconclusive: Option<String>,
}

impl CaseResult {
    pub fn count(&mut self, k: &'static str, n: u64) {
        self.counters.push((k, n));
    }
}

pub struct Gen<'a> {
    pub name: &'static str,
    pub n: usize,
    pub run: Box<dyn Fn(&Ctx, usize) -> CaseResult + Sync + 'a>,
}

impl<'a> Gen<'a> {
    pub fn new(
        name: &'static str,
        n: usize,
        run: impl Fn(&Ctx, usize) -> CaseResult + Sync + 'a,
    ) -> Gen<'a> {
        Gen {
            name,
            n,
            run: Box::new(run),
        }
    }
}

pub struct Property {
    pub id: &'static str,
    pub level: &'static str,
    pub rule: &'static str,
    pub assumptions: Vec<String>,
    pub exhaustive: bool,
    /// wall-clock budget for running cases (watchdog, not a verdict)
    pub budget_quick_s: u64,
    pub budget_thorough_s: u64,
}

pub fn verif_root() -> PathBuf {
    std::env::var_os("VERIF_ROOT")
        .map(PathBuf::from)
        .unwrap_or_else(|| PathBuf::from("/verif"))
}

#[derive(Debug, Clone)]
pub struct Finding {
    pub id: String,
    pub property: String,
    pub status: String,
    pub signature: Map<String, Value>,
    pub what: String,
}

pub fn load_findings(property: &str) -> Vec<Finding> {
    let p = verif_root().join("known_findings.json");
    let txt = match std::fs::read_to_string(&p) {
        Ok(t) => t,
        Err(_) => return vec![],
    };
    let v: Value = match serde_json::from_str(&txt) {
        Ok(v) => v,
        Err(e) => {
            eprintln!("known_findings.json unreadable: {}", e);
            std::process::exit(2);
        }
    };
    let mut out = vec![];
    for f in v["findings"].as_array().cloned().unwrap_or_default() {
        if f["property"].as_str() != Some(property) {
            continue;
        }
        out.push(Finding {
            id: f["id"].as_str().unwrap_or("?").to_string(),
            property: property.to_string(),
            status: f["status"].as_str().unwrap_or("known").to_string(),
            signature: f["signature"].as_object().cloned().unwrap_or_default(),
            what: f["what"].as_str().unwrap_or("").to_string(),
        });
    }
    out
}

fn sig_value_matches(pat: &Value, v: &Value) -> bool {
    match pat {
        Value::Array(xs) => xs.iter().any(|x| sig_value_matches(x, v)),
        Value::Object(o) if o.contains_key("min") || o.contains_key("max") => {
            let x = match v.as_f64() {
                Some(x) => x,
                None => return false,
            };
            if let Some(m) = o.get("min").and_then(|m| m.as_f64()) {
                if x < m {
                    return false;
                }
            }
            if let Some(m) = o.get("max").and_then(|m| m.as_f64()) {
                if x > m {
                    return false;
                }
            }
            true
        }
        Value::Object(o) if o.contains_key("prefix") => match (o["prefix"].as_str(), v.as_str()) {
            (Some(p), Some(s)) => s.starts_with(p),
            _ => false,
        },
        Value::Object(o) if o.contains_key("contains") => {
            match (o["contains"].as_str(), v.as_str()) {
                (Some(p), Some(s)) => s.contains(p),
                _ => false,
            }
        }
        _ => pat == v,
    }
}

pub fn finding_matches(f: &Finding, v: &Violation) -> bool {
    if f.status != "known" {
        return false;
    }
    if f.signature.is_empty() {
        return false;
    }
    f.signature.iter().all(|(k, pat)| match v.sig.get(k) {
        Some(val) => sig_value_matches(pat, val),
        None => false,
    })
}

fn parse_args() -> (Tier, Option<String>) {
    let args: Vec<String> = std::env::args().collect();
    let mut tier = match std::env::var("VERIF_TIER").ok().as_deref() {
        Some("thorough") => Tier::Thorough,
        _ => Tier::Quick,
    };
    let mut replay = None;
    let mut i = 1;
    while i < args.len() {
        match args[i].as_str() {
            "quick" => tier = Tier::Quick,
            "thorough" => tier = Tier::Thorough,
            "--replay" => {
                replay = args.get(i + 1).cloned();
                i += 1;
            }
            _ => {}
        }
        i += 1;
    }
    (tier, replay)
}

pub fn seed_from_env() -> u64 {
    std::env::var("VERIF_SEED")
        .ok()
        .and_then(|s| s.trim().parse::<i64>().ok())
        .map(|v| v as u64)
        .unwrap_or(1)
}

/// Entry point of every property binary.
pub fn run_property(prop: Property, make_gens: impl FnOnce(&Ctx) -> Vec<Gen<'static>>) -> ! {
    util::install_quiet_panic_hook();
    let (tier, replay) = parse_args();
    let findings = load_findings(prop.id);

    if let Some(path) = replay {
        replay_one(&prop, &path, &findings, make_gens);
    }

    let ctx = Ctx {
        seed: seed_from_env(),
        tier,
        replay: false,
    };
    let sw = Stopwatch::start();
    let gens = make_gens(&ctx);
    // debugging aid: VERIF_ONLY=generator:case runs one case and dumps it
    if let Ok(only) = std::env::var("VERIF_ONLY") {
        let mut it = only.split(':');
        let gname = it.next().unwrap_or("");
        let idx: usize = it.next().and_then(|s| s.parse().ok()).unwrap_or(0);
        let g = gens.iter().find(|g| g.name == gname).expect("unknown generator");
        let r = util::guarded(|| (g.run)(&ctx, idx));
        match r {
            Ok(cr) => {
                println!("shape={:?} sample={}", cr.shape, serde_json::to_string_pretty(&cr.sample).unwrap());
                for v in &cr.violations {
                    println!("VIOL clause={} sig={}\n  {}\n  witness={}", v.clause, serde_json::to_string(&v.sig).unwrap(), v.detail,
                        serde_json::to_string(&v.witness).unwrap().chars().take(3000).collect::<String>());
                }
                println!("inconclusive={:?}", cr.inconclusive);
            }
            Err(p) => println!("harness panic {} @ {}", p.msg, p.loc),
        }
        std::process::exit(0);
    }
    // sanitizer sub-runs are 4-20x slower: the driver passes a larger watchdog
    let budget = Duration::from_secs(std::env::var("VERIF_BUDGET_S").ok().and_then(|s| s.parse().ok()).unwrap_or(match tier {
        Tier::Quick => prop.budget_quick_s,
        Tier::Thorough => prop.budget_thorough_s,
    }));
    let deadline = Instant::now() + budget;

    let mut evaluations: u64 = 0;
    let mut not_run: u64 = 0;
    let mut shapes: HashSet<u64> = HashSet::new();
    let mut states: HashSet<u64> = HashSet::new();
    let mut samples: Vec<Value> = vec![];
    let mut counters: BTreeMap<String, u64> = BTreeMap::new();
    let mut per_gen: Vec<Value> = vec![];
    let stride: u64 = std::env::var("VERIF_STRIDE").ok().and_then(|s| s.parse().ok()).unwrap_or(1);
    let instrumentation = std::env::var("VERIF_SANITIZER").unwrap_or_else(|_| "none (debug assertions + overflow checks)".into());
    // violations are classified as the results come in (memory: a thorough run can produce hundreds of
    // thousands of known-finding hits, each with a witness)
    let mut known_hits: BTreeMap<String, u64> = BTreeMap::new();
    let mut new_viol: Vec<(String, usize, Violation)> = vec![];
    let mut seen_sig: HashSet<String> = HashSet::new();
    let mut new_total = 0u64;
    let mut by_sig: BTreeMap<String, u64> = BTreeMap::new();
    // full dump for triage (scratch, not evidence)
    let mut triage = {
        let p = verif_root().join("harness").join("target").join(format!("violations-{}.jsonl", prop.id));
        std::fs::File::create(&p).ok().map(std::io::BufWriter::new)
    };
    let mut inconclusive: Vec<String> = vec![];
    let mut harness_panics: Vec<String> = vec![];

    // flute's filesystem writer prints to stdout; keep our protocol lines clean
    let saved_stdout = if cfg!(miri) { -1 } else { unsafe { libc::dup(1) } };
    if !cfg!(miri) { unsafe {
        let devnull = libc::open(b"/dev/null\0".as_ptr() as *const libc::c_char, libc::O_WRONLY);
        if devnull >= 0 && saved_stdout >= 0 {
            libc::dup2(devnull, 1);
            libc::close(devnull);
        }
    } }
    let only_gens: Option<Vec<String>> = std::env::var("VERIF_GENS").ok().map(|s| s.split(',').map(|x| x.trim().to_string()).collect());
    for g in &gens {
        if let Some(og) = &only_gens {
            if !og.iter().any(|n| n == g.name) {
                continue;
            }
        }
        let gsw = Stopwatch::start();
        // sanitizer / interpreter sub-runs execute a seeded 1-in-stride sample of every generator
        let sel: Vec<usize> = if stride <= 1 {
            (0..g.n).collect()
        } else {
            let mut v: Vec<usize> = (0..g.n).filter(|i| util::fnv(&format!("{}|{}|{}", ctx.seed, g.name, i)) % stride == 0).collect();
            if v.is_empty() && g.n > 0 {
                v.push((ctx.seed as usize) % g.n);
            }
            v
        };
        let mut g_eval = 0u64;
        let mut g_nontrivial = 0u64;
        let mut g_shapes: HashSet<u64> = HashSet::new();
        let mut g_viol = 0u64;
        let mut g_samples = 0;
        const CHUNK: usize = 16_384;
        for (ci, chunk) in sel.chunks(CHUNK).enumerate() {
        let results = util::par_cases(chunk.len(), Some(deadline), |k| {
            util::guarded(|| (g.run)(&ctx, chunk[k]))
        });
        for (k, r) in results.into_iter().enumerate() {
            let i = sel[ci * CHUNK + k];
            match r {
                None => not_run += 1,
                Some(Err(p)) => {
                    // a panic that escaped the case's own guards is a harness
                    // defect (oracle bug), never a verdict
                    harness_panics.push(format!("{}[{}]: {} @ {}", g.name, i, p.msg.chars().take(400).collect::<String>(), p.loc));
                }
                Some(Ok(cr)) => {
                    g_eval += 1;
                    if let Some(s) = cr.shape {
                        g_nontrivial += 1;
                        g_shapes.insert(s);
                        shapes.insert(util::fnv(g.name) ^ s);
                    }
                    for (k, n) in cr.counters {
                        *counters.entry(k.to_string()).or_insert(0) += n;
                    }
                    for s in cr.states {
                        states.insert(s);
                    }
                    if let Some(s) = cr.sample {
                        if g_samples < 2 && samples.len() < 12 && cr.shape.is_some() {
                            samples.push(json!({"generator": g.name, "case": i, "observed": s}));
                            g_samples += 1;
                        }
                    }
                    if let Some(m) = cr.inconclusive {
                        if inconclusive.len() < 50 {
                            inconclusive.push(format!("{}[{}]: {}", g.name, i, m));
                        }
                    }
                    for v in cr.violations {
                        g_viol += 1;
                        if let Some(f) = triage.as_mut() {
                            use std::io::Write;
                            let _ = writeln!(f, "{}", json!({"gen": g.name, "case": i, "sig": v.sig, "detail": v.detail.chars().take(300).collect::<String>()}));
                        }
                        if let Some(f) = findings.iter().find(|f| finding_matches(f, &v)) {
                            *known_hits.entry(f.id.clone()).or_insert(0) += 1;
                            continue;
                        }
                        new_total += 1;
                        let key = serde_json::to_string(&v.sig).unwrap_or_default();
                        *by_sig.entry(key.clone()).or_insert(0) += 1;
                        if seen_sig.insert(key) && new_viol.len() < 25 {
                            new_viol.push((g.name.to_string(), i, v));
                        }
                    }
                }
            }
        }
        }
        evaluations += g_eval;
        per_gen.push(json!({"generator": g.name, "cases_planned": sel.len(), "cases_in_full_plan": g.n, "cases_run": g_eval,
            "nontrivial": g_nontrivial, "distinct_shapes": g_shapes.len(), "violations_raw": g_viol,
            "wall_s": (gsw.secs()*100.0).round()/100.0}));
    }

    unsafe {
        if saved_stdout >= 0 {
            use std::io::Write;
            std::io::stdout().flush().ok();
            libc::dup2(saved_stdout, 1);
            libc::close(saved_stdout);
        }
    }
    drop(triage);
    if by_sig.len() > 1 {
        eprintln!("  unlisted violations by signature ({} distinct):", by_sig.len());
        for (k, n) in by_sig.iter().take(60) {
            eprintln!("    {:>7}  {}", n, k);
        }
    }
    let replay_dir = verif_root().join("replay");
    std::fs::create_dir_all(&replay_dir).ok();
    // remove stale witnesses of the same property / tier / seed
    if let Ok(rd) = std::fs::read_dir(&replay_dir) {
        let prefix = format!("{}-{}-{}-", prop.id, tier.name(), ctx.seed);
        for e in rd.flatten() {
            if e.file_name().to_string_lossy().starts_with(&prefix) {
                std::fs::remove_file(e.path()).ok();
            }
        }
    }
    let mut lines: Vec<String> = vec![];
    for (n, (g, i, v)) in new_viol.iter().enumerate() {
        let path = replay_dir.join(format!("{}-{}-{}-{}.json", prop.id, tier.name(), ctx.seed, n));
        let doc = json!({
            "property": prop.id, "tier": tier.name(), "seed": ctx.seed,
            "generator": g, "case": i, "clause": v.clause, "signature": v.sig,
            "detail": v.detail, "witness": v.witness,
        });
        std::fs::write(&path, serde_json::to_string_pretty(&doc).unwrap()).ok();
        lines.push(format!(
            "VIOLATION property={} replay={}",
            prop.id,
            path.display()
        ));
        eprintln!(
            "  [{}] {}[{}] clause={} sig={} :: {}",
            prop.id,
            g,
            i,
            v.clause,
            serde_json::to_string(&v.sig).unwrap_or_default(),
            v.detail
        );
    }
    for f in &findings {
        if f.status == "known" {
            let n = known_hits.get(&f.id).copied().unwrap_or(0);
            println!(
                "KNOWN-FINDING: property={} {} [{}; observed {} time(s) in this run]",
                prop.id, f.what, f.id, n
            );
        }
    }
    for l in &lines {
        println!("{}", l);
    }
    for m in &inconclusive {
        println!("INCONCLUSIVE property={} {}", prop.id, m);
    }
    for m in harness_panics.iter().take(20) {
        println!("HARNESS-ERROR property={} {}", prop.id, m);
    }
    if not_run > 0 {
        println!(
            "INCONCLUSIVE property={} {} planned case(s) not run: wall-clock budget of {} s reached",
            prop.id,
            not_run,
            budget.as_secs()
        );
    }

    // ---- evidence
    let mut coverage = Map::new();
    coverage.insert("evaluations".into(), json!(evaluations));
    coverage.insert("distinct_nontrivial".into(), json!(shapes.len()));
    coverage.insert("rule".into(), json!(prop.rule));
    coverage.insert("samples".into(), json!(samples));
    coverage.insert("exhaustive".into(), json!(prop.exhaustive));
    coverage.insert("distinct_monitor_states".into(), json!(states.len()));
    coverage.insert("events".into(), json!(counters));
    coverage.insert("generators".into(), json!(per_gen));
    coverage.insert("cases_not_run_budget".into(), json!(not_run));
    coverage.insert("inconclusive".into(), json!(inconclusive.len() as u64 + not_run.min(1)));
    coverage.insert("known_findings_observed".into(), json!(known_hits));
    coverage.insert("violations_total_unlisted".into(), json!(new_total));
    coverage.insert("harness_errors".into(), json!(harness_panics.len()));
    coverage.insert("instrumentation".into(), json!(instrumentation));
    coverage.insert("case_stride".into(), json!(stride));
    let ev = json!({
        "property_id": prop.id,
        "tier": tier.name(),
        "seed": ctx.seed as i64,
        "level": prop.level,
        "coverage": coverage,
        "assumptions": prop.assumptions,
        "wall_s": (sw.secs()*100.0).round()/100.0,
        "violations": new_total as i64,
    });
    let evdir = verif_root().join("evidence");
    std::fs::create_dir_all(&evdir).ok();
    let mut evpath = evdir.join(format!("{}.json", prop.id));
    if let Some(p) = std::env::var_os("VERIF_EVIDENCE_OUT") {
        evpath = PathBuf::from(p);
    }
    std::fs::write(&evpath, serde_json::to_string_pretty(&ev).unwrap()).unwrap();

    println!(
        "{} {} seed={} evaluations={} distinct_nontrivial={} states={} violations={} known_hits={} wall={:.1}s",
        prop.id,
        tier.name(),
        ctx.seed,
        evaluations,
        shapes.len(),
        states.len(),
        new_total,
        known_hits.values().sum::<u64>(),
        sw.secs()
    );

    if new_total > 0 {
        std::process::exit(1);
    }
    let sub_run = std::env::var_os("VERIF_SANITIZER").is_some();
    if !harness_panics.is_empty() || evaluations == 0 || (shapes.len() < 2 && !sub_run) {
        eprintln!(
            "harness problem: evaluations={} distinct={} harness_errors={}",
            evaluations,
            shapes.len(),
            harness_panics.len()
        );
        std::process::exit(2);
    }
    std::process::exit(0);
}

fn replay_one(
    prop: &Property,
    path: &str,
    findings: &[Finding],
    make_gens: impl FnOnce(&Ctx) -> Vec<Gen<'static>>,
) -> ! {
    let txt = std::fs::read_to_string(path).unwrap_or_else(|e| {
        eprintln!("cannot read {}: {}", path, e);
        std::process::exit(2)
    });
    let doc: Value = serde_json::from_str(&txt).unwrap_or_else(|e| {
        eprintln!("cannot parse {}: {}", path, e);
        std::process::exit(2)
    });
    let tier = match doc["tier"].as_str() {
        Some("thorough") => Tier::Thorough,
        _ => Tier::Quick,
    };
    let ctx = Ctx {
        seed: doc["seed"].as_u64().unwrap_or(1),
        tier,
        replay: true,
    };
    let gname = doc["generator"].as_str().unwrap_or("");
    let idx = doc["case"].as_u64().unwrap_or(0) as usize;
    let gens = make_gens(&ctx);
    let g = match gens.iter().find(|g| g.name == gname) {
        Some(g) => g,
        None => {
            eprintln!("unknown generator {}", gname);
            std::process::exit(2)
        }
    };
    let r = util::guarded(|| (g.run)(&ctx, idx));
    let cr = match r {
        Ok(cr) => cr,
        Err(p) => {
            println!("HARNESS-ERROR property={} {} @ {}", prop.id, p.msg, p.loc);
            std::process::exit(2)
        }
    };
    let mut bad = false;
    for v in &cr.violations {
        if let Some(f) = findings.iter().find(|f| finding_matches(f, v)) {
            println!("KNOWN-FINDING: property={} {} [{}]", prop.id, f.what, f.id);
        } else {
            bad = true;
            println!("VIOLATION property={} replay={}", prop.id, path);
            println!(
                "  clause={} sig={} :: {}",
                v.clause,
                serde_json::to_string(&v.sig).unwrap_or_default(),
                v.detail
            );
        }
    }
    if cr.violations.is_empty() {
        println!("REPLAY-OK property={} {}[{}] no longer fails", prop.id, gname, idx);
    }
    std::process::exit(if bad { 1 } else { 0 });
}

/// Keep at most `per_sig` violations per distinct signature (a frequent, possibly
/// known, kind must never crowd out a rare one).
pub fn limit(v: &mut Vec<Violation>, per_sig: usize) {
    let mut seen: std::collections::HashMap<String, usize> = Default::default();
    v.retain(|x| {
        let k = serde_json::to_string(&x.sig).unwrap_or_default();
        let n = seen.entry(k).or_insert(0);
        *n += 1;
        *n <= per_sig.max(1)
    });
}

/// number of distinct violation signatures
pub fn distinct_sigs(v: &[Violation]) -> usize {
    let mut s = std::collections::HashSet::new();
    for x in v {
        s.insert(serde_json::to_string(&x.sig).unwrap_or_default());
    }
    s.len()
}
