//! Hostile-input machinery for C04 (and reused by C09/C17): corpus of valid
//! sessions, packet rebuild through the independent encoder, mutation
//! operators, FDT XML rewriting, and the sequence executor with probe sessions.

use crate::alloc;
use crate::mwriter::{MonBuilder, Script, WState};
use crate::report::Violation;
use crate::scenario::*;
use crate::session::*;
use crate::util::{self, hex, Rng};
use crate::wire::{self, EncLct, Fti};
use flute::core::UDPEndpoint;
use flute::receiver::{Config as RxConfig, MultiReceiver};
use serde_json::{json, Value};
use std::time::{Duration, SystemTime};

/// A packet taken apart so that any piece can be edited and re-encoded.
#[derive(Clone, Debug)]
pub struct Rebuild {
    pub lct: EncLct,
    pub exts: Vec<Vec<u8>>,
    pub pid: Vec<u8>,
    pub payload: Vec<u8>,
}

impl Rebuild {
    pub fn from(p: &SPkt) -> Rebuild {
        let l = &p.dec.lct;
        Rebuild {
            lct: EncLct { v: l.v, c: l.c, psi: l.psi, s: l.s, o: l.o, h: l.h, res: l.res, a: l.a, b: l.b, cp: l.cp, cci: l.cci, tsi: l.tsi, toi: l.toi },
            exts: p.dec.exts.iter().map(|e| e.bytes.clone()).collect(),
            pid: p.bytes[p.dec.lct.hdr_end..p.dec.payload_off].to_vec(),
            payload: p.payload().to_vec(),
        }
    }
    pub fn encode(&self) -> Vec<u8> {
        wire::encode(&self.lct, &self.exts, &self.pid, &self.payload)
    }
    pub fn set_ext(&mut self, het: u8, bytes: Option<Vec<u8>>) {
        let pos = self.exts.iter().position(|e| e[0] == het);
        match (pos, bytes) {
            (Some(p), Some(b)) => self.exts[p] = b,
            (Some(p), None) => {
                self.exts.remove(p);
            }
            (None, Some(b)) => self.exts.push(b),
            (None, None) => {}
        }
    }
    /// re-target TSI/TOI keeping a class able to carry them
    pub fn retarget(&mut self, tsi: u64, toi: u128) {
        let (s, o, h) = wire::minimal_class(tsi, toi);
        self.lct.s = s;
        self.lct.o = o;
        self.lct.h = h;
        self.lct.tsi = tsi;
        self.lct.toi = toi;
    }
}

#[derive(Clone)]
pub struct CorpusEntry {
    pub name: String,
    pub em: std::sync::Arc<Emitted>,
}

/// Valid sessions: 5 schemes x in-band / FDT-only FTI x cenc x FDT-first / object-first
pub fn corpus(seed: u64, small_only: bool) -> Vec<CorpusEntry> {
    let mut out = vec![];
    let mut rng = Rng::keyed(seed, "corpus", 0, 0);
    for fec in ALL_FEC {
        for ib in [true, false] {
            for (ci, cenc) in [CencSpec::Null, CencSpec::Gzip, CencSpec::Zlib, CencSpec::Deflate].iter().enumerate() {
                if small_only && ci > 1 {
                    continue;
                }
                let (e, b, syms) = match fec {
                    Fec::Raptor => (16u16, 4u32, 9usize),
                    _ => (16u16, 3u32, 7usize),
                };
                let parity = if fec == Fec::NoCode { 0 } else { 1 };
                let mut oti = OtiSpec::new(fec, e, b, parity);
                oti.inband_fti = ib;
                let mut spec = SenderSpec::new(OtiSpec::new(Fec::NoCode, 2048, 8, 0));
                spec.fdt_carousel = CarouselSpec::DelayMs(3_600_000);
                spec.interleave = 2;
                let len = if fec == Fec::Raptor { syms * e as usize } else { syms * e as usize - 5 };
                let mut o = ObjSpec::new(gen_bytes(&mut rng, len), "file:///c/o.bin");
                o.oti = Some(oti.clone());
                o.cenc = *cenc;
                o.inband_cenc = ci % 2 == 0;
                let mut o2 = ObjSpec::new(gen_bytes(&mut rng, 20), "file:///c/p.bin");
                o2.oti = Some(oti.clone());
                if let Ok(em) = emit(&spec, &[o, o2], &EmitOpts { step_ms: 10, max_instants: 50, ..Default::default() }) {
                    if em.tois.iter().all(|t| t.is_some()) && em.finished {
                        out.push(CorpusEntry { name: format!("{}|ib{}|{}", fec.name(), ib, cenc.name()), em: std::sync::Arc::new(em) });
                    }
                }
            }
        }
        // FDT protected by the scheme itself (multi-packet FDT, FDT cenc)
        let mut oti = OtiSpec::new(fec, 64, 8, if fec == Fec::NoCode { 0 } else { 2 });
        crate::gen::make_fdt_capable(&mut oti);
        let mut spec = SenderSpec::new(oti);
        spec.fdt_carousel = CarouselSpec::DelayMs(3_600_000);
        spec.fdt_cenc = if fec == Fec::Rs28 { CencSpec::Gzip } else { CencSpec::Null };
        let o = ObjSpec::new(gen_bytes(&mut rng, 300), "file:///c/q.bin");
        if let Ok(em) = emit(&spec, &[o], &EmitOpts { step_ms: 10, max_instants: 50, ..Default::default() }) {
            if em.tois.iter().all(|t| t.is_some()) && em.finished && em.stream.len() < 200 {
                out.push(CorpusEntry { name: format!("{}|fdt-protected", fec.name()), em: std::sync::Arc::new(em) });
            }
        }
    }
    out
}

/// A small valid No-Code session used as probe after hostile input.
pub struct Probe {
    pub tsi: u64,
    pub pkts: Vec<(Vec<u8>, SystemTime)>,
    pub toi: u128,
    pub data: Vec<u8>,
    pub fdt_id: u32,
}

pub fn make_probe(tsi: u64, toi_initial: u128, fdt_id: u32, seed: u64) -> Probe {
    let mut rng = Rng::keyed(seed, "probe", tsi, fdt_id as u64);
    let mut spec = SenderSpec::new(OtiSpec::new(Fec::NoCode, 1400, 8, 0));
    spec.tsi = tsi;
    spec.toi_initial = Some(toi_initial);
    spec.fdt_start_id = fdt_id;
    spec.fdt_carousel = CarouselSpec::DelayMs(3_600_000);
    let data = gen_bytes(&mut rng, 777);
    let o = ObjSpec::new(data.clone(), "file:///probe.bin");
    let em = emit(&spec, &[o], &EmitOpts { step_ms: 10, max_instants: 20, start_ms: 5_000, ..Default::default() }).expect("probe session");
    Probe {
        tsi,
        toi: em.tois[0].expect("probe toi"),
        pkts: em.stream.iter().map(|p| (p.bytes.clone(), p.t)).collect(),
        data,
        fdt_id,
    }
}

#[derive(Default, Debug, Clone)]
pub struct SeqStats {
    pub pushes: u64,
    pub ok: u64,
    pub err: u64,
    pub writers: u64,
    pub max_delta: isize,
    pub peak: isize,
    pub max_req: usize,
    pub steps: u64,
    /// distinct error message prefixes observed (code paths reached)
    pub err_kinds: Vec<u64>,
}

pub const PER_CALL_LIMIT: isize = 48 << 20;
/// pseudo-datagrams interpreted by `run_sequence` (they start with 0xFF: LCT version 15, never a valid packet)
pub const MARKER_CLEANUP: &[u8] = b"\xFFVH-CLEANUP";
pub const MARKER_REUSE_FDT_ID: &[u8] = b"\xFFVH-REUSE-FDT-ID";
/// first element of a sequence: prefix + u32 object_max_cache_size + u32 allowed growth of the live heap (bytes, BE)
pub const MARKER_BUDGET: &[u8] = b"\xFFVH-BUDGET";

/// prefix + u64 TSI + u128 TOI + u32 content length + 16 bytes MD5 of the first min(length, 4096) content bytes: the
/// sequence contains, after its hostile part, a complete valid session for that (TSI, TOI) which must be delivered
pub const MARKER_EXPECT: &[u8] = b"\xFFVH-EXPECT";

pub fn expect_marker(tsi: u64, toi: u128, content: &[u8]) -> Vec<u8> {
    let mut v = MARKER_EXPECT.to_vec();
    v.extend(tsi.to_be_bytes());
    v.extend(toi.to_be_bytes());
    v.extend((content.len() as u32).to_be_bytes());
    v.extend(md5::compute(&content[..content.len().min(4096)]).0);
    v
}

pub fn budget_marker(cache: u32, allowed: u32) -> Vec<u8> {
    let mut v = MARKER_BUDGET.to_vec();
    v.extend(cache.to_be_bytes());
    v.extend(allowed.to_be_bytes());
    v
}

pub fn rx_config() -> RxConfig {
    RxConfig {
        max_objects_error: 2,
        session_timeout: None,
        object_timeout: None,
        object_max_cache_size: Some(1 << 20),
        object_receive_once: true,
        enable_fdt_expiration_check: true,
    }
}

/// Push a hostile sequence, then two probe sessions (same TSI + fresh TOIs /
/// fresh TSI), and judge: no panic, no step-budget trip, bounded allocation,
/// receiver still usable. Runs in the (single-threaded) child process.
pub fn run_sequence(
    endpoint: &UDPEndpoint,
    seq: &[Vec<u8>],
    base_tsi: u64,
    seed: u64,
    describe: &dyn Fn() -> Value,
    out: &mut Vec<Violation>,
) -> SeqStats {
    let mut st = SeqStats::default();
    let script = Script { keep_data: 4096, ..Default::default() };
    let (builder, log) = MonBuilder::new(script);
    let mut cfg = rx_config();
    // (cache, allowed growth of the live heap over the whole sequence)
    let mut budget: Option<(usize, isize)> = None;
    if let Some(f) = seq.first() {
        if f.starts_with(MARKER_BUDGET) && f.len() == MARKER_BUDGET.len() + 8 {
            let o = MARKER_BUDGET.len();
            let cache = u32::from_be_bytes([f[o], f[o + 1], f[o + 2], f[o + 3]]) as usize;
            let allowed = u32::from_be_bytes([f[o + 4], f[o + 5], f[o + 6], f[o + 7]]) as isize;
            cfg.object_max_cache_size = Some(cache);
            budget = Some((cache, allowed));
        }
    }
    let mut rx = MultiReceiver::new(builder.clone(), Some(cfg), false);
    let now = util::at(1000);
    let mut aborted = false;
    alloc::reset_peak();
    let heap_at_start = alloc::live();
    for (i, b) in seq.iter().enumerate() {
        if b.starts_with(MARKER_BUDGET) || b.starts_with(MARKER_EXPECT) {
            continue;
        }
        if b.as_slice() == MARKER_CLEANUP {
            // not a datagram: the application calls cleanup() here
            let _ = util::guarded(|| rx.cleanup(now));
            continue;
        }
        if b.as_slice() == MARKER_REUSE_FDT_ID {
            continue;
        }
        let before = alloc::live();
        let r = util::guarded(|| util::with_budget(PUSH_BUDGET, || rx.push(endpoint, b, now)));
        st.steps = st.steps.max(flute::verif::used());
        let delta = alloc::live() - before;
        st.pushes += 1;
        st.max_delta = st.max_delta.max(delta);
        match r {
            Ok(Ok(())) => st.ok += 1,
            Ok(Err(e)) => {
                st.err += 1;
                let m = e.0.to_string();
                st.err_kinds.push(util::fnv(&m.chars().filter(|c| !c.is_ascii_digit()).take(40).collect::<String>()));
            }
            Err(p) => {
                let v = if p.is_step_budget() {
                    Violation::new("hang", format!("push #{} exhausted the step budget at {} (logical hang)", i, p.step_site())).with("site", p.step_site())
                } else {
                    Violation::new("panic", format!("push #{} panicked: {} @ {}", i, p.msg.chars().take(200).collect::<String>(), p.short_loc())).with("site", p.file()).with("line", p.short_loc())
                };
                out.push(v.witness(json!({"what": describe(), "packet_index": i, "packet": hex(&b[..b.len().min(400)]),
                    "sequence": seq.iter().take(i + 1).rev().take(8).rev().map(|x| hex(&x[..x.len().min(200)])).collect::<Vec<_>>()})));
                aborted = true;
                break;
            }
        }
        if delta > PER_CALL_LIMIT {
            out.push(Violation::new("alloc_per_call", format!("push #{} grew the live heap by {} bytes (limit {} with a 1 MiB object cache)", i, delta, PER_CALL_LIMIT))
                .with("cp", b.get(3).copied().unwrap_or(0))
                .witness(json!({"what": describe(), "packet_index": i, "packet": hex(&b[..b.len().min(400)]), "delta": delta})));
        }
    }
    st.peak = alloc::peak();
    st.max_req = alloc::max_req();
    if let Some((cache, allowed)) = budget {
        let growth = st.peak - heap_at_start;
        if std::env::var("VH_BUDGET_DEBUG").is_ok() {
            eprintln!("budget: growth {} allowed {} pushes {} err {} :: {}", growth, allowed, st.pushes, st.err, describe());
        }
        if !aborted && growth > allowed {
            out.push(Violation::new("alloc_beyond_budget", format!("the live heap grew by {} bytes over {} pushes of well-formed packets for one undecodable object (object_max_cache_size {}, allowed {})",
                growth, st.pushes, cache, allowed))
                .witness(json!({"what": describe(), "growth": growth, "allowed": allowed, "pushes": st.pushes, "errors": st.err})));
        }
    }
    // a valid session that re-uses the TSI and TOI of an object the hostile part made fail is delivered
    if !aborted {
        for f in seq.iter().filter(|f| f.starts_with(MARKER_EXPECT) && f.len() == MARKER_EXPECT.len() + 8 + 16 + 4 + 16) {
            let o = MARKER_EXPECT.len();
            let tsi = u64::from_be_bytes(f[o..o + 8].try_into().unwrap());
            let toi = u128::from_be_bytes(f[o + 8..o + 24].try_into().unwrap());
            let len = u32::from_be_bytes(f[o + 24..o + 28].try_into().unwrap()) as usize;
            let want = &f[o + 28..o + 44];
            let l = log.borrow();
            let ok = l.writers.iter().any(|w| w.tsi == tsi && w.toi == toi && w.state == WState::Complete && w.bytes_written == len && md5::compute(&w.data[..w.data.len().min(4096)]).0 == want);
            if !ok {
                let ws: Vec<String> = l.writers.iter().filter(|w| w.tsi == tsi && w.toi == toi).map(|w| l.trace_of(w.wid)).collect();
                out.push(Violation::new("same_toi_session_not_delivered", format!(
                    "the hostile packets made TOI {} of TSI {} fail; the complete valid session for the same TSI and TOI pushed afterwards is not delivered ({} failed object(s) remembered, {} object(s) in reception); writers for it: {:?}",
                    toi, tsi, rx.nb_objects_error(), rx.nb_objects(), ws))
                    .with("nb_objects_error", rx.nb_objects_error() as u64)
                    .witness(json!({"what": describe(), "writers": ws})));
            }
        }
    }
    if aborted {
        // the receiver state after a panic is undefined: drop it without judging probes
        let _ = util::guarded(move || drop(rx));
        return st;
    }
    // ---- probes: choose TOIs / FDT ids / TSI that the hostile sequence did not use
    let mut used_fdt: Vec<u32> = vec![];
    let mut used_toi: Vec<u128> = vec![];
    let mut used_tsi: Vec<u64> = vec![];
    for b in seq {
        if let Ok((l, exts)) = wire::decode_lct(b) {
            used_toi.push(l.toi);
            used_tsi.push(l.tsi);
            for e in exts {
                if e.het == wire::HET_FDT {
                    used_fdt.push(u32::from_be_bytes([0, e.bytes[1] & 0x0F, e.bytes[2], e.bytes[3]]));
                }
            }
        }
    }
    let mut fdt_id = 700_000 + (seed % 1000) as u32;
    while used_fdt.contains(&fdt_id) || used_fdt.contains(&(fdt_id + 1)) {
        fdt_id += 7;
    }
    let mut toi0: u128 = 40_000 + (seed % 1000) as u128;
    while used_toi.contains(&toi0) {
        toi0 += 13;
    }
    let mut fresh_tsi = base_tsi + 1000;
    while used_tsi.contains(&fresh_tsi) {
        fresh_tsi += 17;
    }
    // sequences that ask for it: the valid session on the same TSI REUSES the first FDT instance id of the hostile
    // sequence (a restarted sender, a carousel repetition of an instance that failed to decode)
    // Only when the receiver REJECTED the hostile instance (a push returned Err): an instance it accepted - however odd -
    // is a received instance, and a later one with the same id is legitimately taken for a repetition of it.
    if seq.iter().any(|b| b.as_slice() == MARKER_REUSE_FDT_ID) && st.err > 0 {
        if let Some(x) = used_fdt.first() {
            fdt_id = *x;
        }
    }
    for (which, tsi, fid) in [("same_tsi", base_tsi, fdt_id), ("fresh_tsi", fresh_tsi, fdt_id + 1)] {
        let probe = make_probe(tsi, toi0, fid, seed);
        let mut failed = false;
        for (b, t) in &probe.pkts {
            let r = util::guarded(|| util::with_budget(PUSH_BUDGET, || rx.push(endpoint, b, *t)));
            if let Err(p) = r {
                out.push(Violation::new("panic", format!("probe push panicked after hostile input: {} @ {}", p.msg, p.short_loc())).with("site", p.file()).with("line", p.short_loc())
                    .witness(json!({"what": describe(), "probe": which})));
                failed = true;
                break;
            }
        }
        if failed {
            let _ = util::guarded(move || drop(rx));
            return st;
        }
        let l = log.borrow();
        let ok = l.writers.iter().any(|w| w.tsi == tsi && w.toi == probe.toi && w.state == WState::Complete && w.data == probe.data);
        if !ok {
            let ws: Vec<String> = l.writers.iter().filter(|w| w.tsi == tsi && w.toi == probe.toi).map(|w| l.trace_of(w.wid)).collect();
            out.push(Violation::new("probe_not_delivered", format!(
                "after the hostile sequence a valid session ({}, TSI {}, TOI {}, FDT id {}) is not delivered; writers for it: {:?}", which, tsi, probe.toi, fid, ws))
                .with("probe", which)
                .witness(json!({"what": describe(), "sequence": seq.iter().rev().take(12).rev().map(|x| hex(&x[..x.len().min(300)])).collect::<Vec<_>>()})));
        }
    }
    st.writers = log.borrow().writers.len() as u64;
    for m in log.borrow().illegal() {
        out.push(Violation::new("writer_protocol", m).witness(json!({"what": describe()})));
    }
    let r = util::guarded(move || drop(rx));
    if let Err(p) = r {
        out.push(Violation::new("panic", format!("dropping the receiver panicked: {} @ {}", p.msg, p.short_loc())).with("site", p.file()).with("line", p.short_loc())
            .witness(json!({"what": describe()})));
    }
    st
}

// ---------------------------------------------------------------- FTI extremes

pub fn fti_extremes(fec: u8) -> Vec<Fti> {
    let ls: Vec<u64> = vec![0, 1, 255, 65535, 1 << 20, (1 << 32) - 1, 1 << 32, (1u64 << 40) - 1, (1u64 << 48) - 1];
    let es: Vec<u16> = vec![0, 1, 2, 3, 8, 1400, 32768, 65535];
    let bs: Vec<u32> = vec![0, 1, 2, 255, 256, 65535, 65536, 1 << 20, u32::MAX];
    let mut out = vec![];
    for &l in &ls {
        for &e in &es {
            for &b in &bs {
                let mut f = Fti { fec, l, e, b, ..Default::default() };
                match fec {
                    0 => out.push(f),
                    5 | 129 | 2 => {
                        for mn in [0u32, 1, b.saturating_sub(1), b, b.saturating_add(1), 255, 65535] {
                            f.max_n = Some(mn);
                            f.instance = Some(if l % 2 == 0 { 0 } else { 65535 });
                            f.m = Some(if e % 2 == 0 { 8 } else { 0 });
                            f.g = Some(1);
                            out.push(f.clone());
                            // GF(2^m) scheme-specific word: field width m and symbols per packet G at their extremes
                            if fec == 2 && mn == b && (l == 65535 || l == 1 << 20) {
                                for m in [1u8, 2, 7, 16, 31, 32, 33, 64, 255] {
                                    for g in [0u8, 1, 2, 255] {
                                        f.m = Some(m);
                                        f.g = Some(g);
                                        out.push(f.clone());
                                    }
                                }
                            }
                        }
                    }
                    _ => {
                        if b > 65536 {
                            continue;
                        }
                        for z in [0u32, 1, 2, 255, 65535] {
                            for al in [0u8, 1, 3, 4, 255] {
                                f.z = Some(z);
                                f.n = Some(if b % 2 == 0 { 1 } else { 0 });
                                f.al = Some(al);
                                out.push(f.clone());
                            }
                        }
                    }
                }
            }
        }
    }
    out
}

// ---------------------------------------------------------------- XML mutation

pub fn xml_mutations(xml: &str, rng: &mut Rng, n: usize) -> Vec<(String, String)> {
    let mut out: Vec<(String, String)> = vec![];
    let attrs = ["TOI", "Content-Length", "Transfer-Length", "Content-Location", "Expires", "Content-Encoding", "Content-MD5",
        "FEC-OTI-FEC-Encoding-ID", "FEC-OTI-Maximum-Source-Block-Length", "FEC-OTI-Encoding-Symbol-Length",
        "FEC-OTI-Max-Number-of-Encoding-Symbols", "FEC-OTI-Scheme-Specific-Info", "FEC-OTI-FEC-Instance-ID", "Content-Type", "Complete"];
    let values = ["0", "1", "-1", "18446744073709551615", "18446744073709551616", "340282366920938463463374607431768211455", "4294967295", "4294967296",
        "", " ", "abc", "1e9", "0x10", "255", "256", "65535", "65536", "2", "5", "6", "129", "128", "3", "gzip", "zlib", "compress", "AAAA", "AAAAAA==", "!!!!", "&lt;", "../../../x",
        "file:///etc/passwd", "2208988800", "2208988799", "true", "false"];
    let set_attr = |xml: &str, attr: &str, val: &str, nth: usize| -> Option<String> {
        let pat = format!(" {}=\"", attr);
        let mut start = 0;
        let mut k = 0;
        loop {
            let p = xml[start..].find(&pat)? + start;
            if k == nth {
                let vs = p + pat.len();
                let ve = xml[vs..].find('"')? + vs;
                return Some(format!("{}{}{}", &xml[..vs], val, &xml[ve..]));
            }
            k += 1;
            start = p + pat.len();
        }
    };
    for _ in 0..n {
        match rng.below(10) {
            0..=4 => {
                let a = *rng.pick(&attrs);
                let v = *rng.pick(&values);
                let nth = rng.below(3) as usize;
                if let Some(x) = set_attr(xml, a, v, nth).or_else(|| set_attr(xml, a, v, 0)) {
                    out.push((format!("{}[{}]={:?}", a, nth, v), x));
                } else {
                    // attribute absent: add it to the first File element (or the root)
                    let x = xml.replacen("<File ", &format!("<File {}=\"{}\" ", a, v), 1);
                    out.push((format!("add {}={:?}", a, v), x));
                }
            }
            5 => {
                let cut = rng.below(xml.len() as u64 + 1) as usize;
                let mut c = cut;
                while !xml.is_char_boundary(c) {
                    c -= 1;
                }
                out.push((format!("truncate@{}", c), xml[..c].to_string()));
            }
            6 => {
                // duplicate a File element / duplicate TOI
                if let (Some(a), Some(b)) = (xml.find("<File "), xml.find("</File>")) {
                    let f = &xml[a..b + 7];
                    let times = *rng.pick(&[1usize, 2, 50]);
                    out.push((format!("dup File x{}", times), xml.replacen(f, &f.repeat(times + 1), 1)));
                }
            }
            7 => {
                let depth = *rng.pick(&[10usize, 1000, 20000]);
                let x = format!("<?xml version=\"1.0\"?>{}<FDT-Instance Expires=\"4000000000\"/>{}", "<a>".repeat(depth), "</a>".repeat(depth));
                out.push((format!("nesting {}", depth), x));
            }
            8 => {
                let x = format!("<?xml version=\"1.0\"?><!DOCTYPE x [<!ENTITY a \"aaaaaaaaaa\"><!ENTITY b \"&a;&a;&a;&a;&a;&a;&a;&a;&a;&a;\"><!ENTITY c \"&b;&b;&b;&b;&b;&b;&b;&b;&b;&b;\"><!ENTITY d \"&c;&c;&c;&c;&c;&c;&c;&c;&c;&c;\">]><FDT-Instance Expires=\"4000000000\"><File TOI=\"5\" Content-Location=\"&d;&d;&d;\" Content-Length=\"3\"/></FDT-Instance>");
                out.push(("entities".into(), x));
            }
            _ => {
                // byte-level noise inside the XML
                let mut b = xml.as_bytes().to_vec();
                for _ in 0..rng.range(1, 4) {
                    let p = rng.below(b.len() as u64) as usize;
                    b[p] = rng.next() as u8;
                }
                out.push(("noise".into(), String::from_utf8_lossy(&b).to_string()));
            }
        }
    }
    // huge attribute
    if rng.chance(1, 4) {
        let big = "A".repeat(*rng.pick(&[70_000usize, 1_100_000]));
        if let Some(x) = set_attr(xml, "Content-Location", &big, 0) {
            out.push(("huge Content-Location".into(), x));
        }
    }
    out
}

/// Wrap an XML document into FDT packets (No-Code, as many symbols as needed)
pub fn wrap_fdt(xml: &[u8], tsi: u64, fdt_id: u32, e: usize, cenc: Option<u8>, with_sct: bool) -> Vec<Vec<u8>> {
    let e = e.max(1);
    let t = xml.len().div_ceil(e).max(1);
    let b = 64usize;
    let part = ref_partition(b as u128, xml.len() as u128, e as u128);
    let mut out = vec![];
    let fti = Fti { fec: 0, l: xml.len() as u64, e: e as u16, b: b as u32, ..Default::default() };
    let mut exts = vec![wire::ext_fdt(2, fdt_id)];
    if let Some(c) = cenc {
        exts.push(wire::ext_cenc(c));
    }
    if with_sct {
        // the sender's clock as stamped in EXT_TIME: equal to the receiver's, or up to ten minutes behind / ahead of it
        // (deterministic in the instance id and the document length; FDTs of the harness are valid for an hour)
        let delta_s: i64 = [0i64, -600, -10, 10, 600][(fdt_id as usize + xml.len()) % 5];
        let sender_now = if delta_s >= 0 { util::at(1000) + std::time::Duration::from_secs(delta_s as u64) } else { util::at(1000) - std::time::Duration::from_secs((-delta_s) as u64) };
        let (hi, lo) = wire::unix_us_to_ntp(sender_now.duration_since(SystemTime::UNIX_EPOCH).unwrap().as_micros() as u64);
        exts.push(wire::ext_time(&wire::Sct { hi: Some(hi), lo: Some(lo), ert: None, slc: None }, 0));
    }
    exts.push(wire::ext_fti(&fti));
    let _ = t;
    if xml.is_empty() {
        let l = wire::enc_lct(tsi, 0, 0);
        out.push(wire::encode(&l, &exts, &wire::payload_id(0, 0, 0, 0, 8), &[]));
        return out;
    }
    for sbn in 0..part.n {
        let off = part.offset(sbn, e as u128) as usize;
        for esi in 0..part.k(sbn) {
            let s = off + esi as usize * e;
            let en = (s + e).min(xml.len());
            let l = wire::enc_lct(tsi, 0, 0);
            out.push(wire::encode(&l, &exts, &wire::payload_id(0, sbn as u32, esi as u32, 0, 8), &xml[s..en]));
        }
    }
    out
}

pub fn expires_in(secs: u64) -> String {
    let t = util::at(1000) + Duration::from_secs(secs);
    let s = t.duration_since(SystemTime::UNIX_EPOCH).unwrap().as_secs() + wire::NTP_UNIX_OFFSET;
    s.to_string()
}
