//! Independent ALC/LCT codec written from the RFC field tables (DESIGN.md,
//! appendix A). Shares no code and no types with flute. It is the "eyes" of all
//! stream oracles and both sides of the differential oracle of C06.

#[derive(Clone, Debug, PartialEq, Eq, Default)]
pub struct Lct {
    pub v: u8,
    pub c: u8,
    pub psi: u8,
    pub s: u8,
    pub o: u8,
    pub h: u8,
    pub res: u8,
    pub a: bool,
    pub b: bool,
    pub hdr_len: u8,
    pub cp: u8,
    pub cci: u128,
    pub tsi: u64,
    pub toi: u128,
    /// offset of the first header extension
    pub ext_off: usize,
    /// 4 * HDR_LEN
    pub hdr_end: usize,
}

#[derive(Clone, Debug, PartialEq, Eq)]
pub struct Ext {
    pub het: u8,
    /// the whole extension, HET and HEL included
    pub bytes: Vec<u8>,
}

#[derive(Clone, Debug, PartialEq, Eq, Default)]
pub struct Fti {
    pub fec: u8,
    pub l: u64,
    pub e: u16,
    pub b: u32,
    pub max_n: Option<u32>,
    pub instance: Option<u16>,
    pub z: Option<u32>,
    pub n: Option<u32>,
    pub al: Option<u8>,
    pub m: Option<u8>,
    pub g: Option<u8>,
}

#[derive(Clone, Debug, PartialEq, Eq, Default)]
pub struct Sct {
    pub hi: Option<u32>,
    pub lo: Option<u32>,
    pub ert: Option<u32>,
    pub slc: Option<u32>,
}

#[derive(Clone, Debug, Default)]
pub struct Pkt {
    pub lct: Lct,
    pub exts: Vec<Ext>,
    /// EXT_FDT: (version, instance id)
    pub fdt: Option<(u8, u32)>,
    pub cenc: Option<u8>,
    pub time: Option<Sct>,
    pub fti: Option<Fti>,
    pub sbn: u32,
    pub esi: u32,
    /// source block length (FEC 129 payload id only)
    pub sbl: Option<u16>,
    pub payload_off: usize,
    pub len: usize,
}

impl Pkt {
    pub fn payload<'a>(&self, data: &'a [u8]) -> &'a [u8] {
        &data[self.payload_off..]
    }
    pub fn is_fdt(&self) -> bool {
        self.lct.toi == 0
    }
}

pub const HET_TIME: u8 = 2;
pub const HET_FTI: u8 = 64;
pub const HET_FDT: u8 = 192;
pub const HET_CENC: u8 = 193;

fn be(data: &[u8]) -> u128 {
    let mut v: u128 = 0;
    for b in data {
        v = (v << 8) | *b as u128;
    }
    v
}

pub fn decode_lct(data: &[u8]) -> Result<(Lct, Vec<Ext>), String> {
    if data.len() < 4 {
        return Err(format!("packet of {} bytes is shorter than an LCT header", data.len()));
    }
    let w0 = data[0];
    let w1 = data[1];
    let mut l = Lct {
        v: w0 >> 4,
        c: (w0 >> 2) & 3,
        psi: w0 & 3,
        s: w1 >> 7,
        o: (w1 >> 5) & 3,
        h: (w1 >> 4) & 1,
        res: (w1 >> 2) & 3,
        a: (w1 >> 1) & 1 == 1,
        b: w1 & 1 == 1,
        hdr_len: data[2],
        cp: data[3],
        ..Default::default()
    };
    if l.v != 1 && l.v != 2 {
        return Err(format!("LCT version {}", l.v));
    }
    let hdr_end = 4 * l.hdr_len as usize;
    if hdr_end > data.len() {
        return Err("HDR_LEN beyond packet".into());
    }
    let cci_len = 4 * (l.c as usize + 1);
    let tsi_len = 4 * l.s as usize + 2 * l.h as usize;
    let toi_len = 4 * l.o as usize + 2 * l.h as usize;
    let fixed = 4 + cci_len + tsi_len + toi_len;
    if fixed > hdr_end {
        return Err("fixed LCT part longer than HDR_LEN".into());
    }
    let mut p = 4;
    l.cci = be(&data[p..p + cci_len]);
    p += cci_len;
    l.tsi = be(&data[p..p + tsi_len]) as u64;
    p += tsi_len;
    l.toi = be(&data[p..p + toi_len]);
    p += toi_len;
    l.ext_off = p;
    l.hdr_end = hdr_end;
    let mut exts = vec![];
    while p < hdr_end {
        if hdr_end - p < 4 {
            return Err("dangling bytes in extension area".into());
        }
        let het = data[p];
        let len = if het >= 128 { 4 } else { 4 * data[p + 1] as usize };
        if len == 0 {
            return Err("HEL = 0".into());
        }
        if p + len > hdr_end {
            return Err("extension overruns HDR_LEN".into());
        }
        exts.push(Ext {
            het,
            bytes: data[p..p + len].to_vec(),
        });
        p += len;
    }
    Ok((l, exts))
}

pub fn payload_id_len(fec: u8) -> Option<usize> {
    match fec {
        0 | 1 | 2 | 5 | 6 => Some(4),
        129 => Some(8),
        _ => None,
    }
}

pub fn decode_fti(fec: u8, x: &[u8]) -> Result<Fti, String> {
    // x = whole extension including HET/HEL
    let mut f = Fti {
        fec,
        ..Default::default()
    };
    match fec {
        0 => {
            if x.len() != 16 {
                return Err("FTI(0) length".into());
            }
            f.l = be(&x[2..8]) as u64;
            f.e = be(&x[10..12]) as u16;
            f.b = be(&x[12..16]) as u32;
        }
        129 => {
            if x.len() != 16 {
                return Err("FTI(129) length".into());
            }
            f.l = be(&x[2..8]) as u64;
            f.instance = Some(be(&x[8..10]) as u16);
            f.e = be(&x[10..12]) as u16;
            f.b = be(&x[12..14]) as u32;
            f.max_n = Some(be(&x[14..16]) as u32);
        }
        5 => {
            if x.len() != 12 {
                return Err("FTI(5) length".into());
            }
            f.l = be(&x[2..8]) as u64;
            f.e = be(&x[8..10]) as u16;
            f.b = x[10] as u32;
            f.max_n = Some(x[11] as u32);
        }
        2 => {
            if x.len() != 16 {
                return Err("FTI(2) length".into());
            }
            f.l = be(&x[2..8]) as u64;
            f.m = Some(x[8]);
            f.g = Some(x[9]);
            f.e = be(&x[10..12]) as u16;
            f.b = be(&x[12..14]) as u32;
            f.max_n = Some(be(&x[14..16]) as u32);
        }
        6 => {
            if x.len() != 16 {
                return Err("FTI(6) length".into());
            }
            f.l = be(&x[2..7]) as u64;
            f.e = be(&x[8..10]) as u16;
            f.z = Some(x[10] as u32);
            f.n = Some(be(&x[11..13]) as u32);
            f.al = Some(x[13]);
        }
        1 => {
            if x.len() != 16 {
                return Err("FTI(1) length".into());
            }
            // position of F and T: flute's layout (see DESIGN.md C06 G: not judged
            // against the RFC); scheme-specific word Z(16) N(8) Al(8) is RFC 5053.
            f.l = be(&x[2..7]) as u64;
            f.e = be(&x[8..10]) as u16;
            f.z = Some(be(&x[10..12]) as u32);
            f.n = Some(x[12] as u32);
            f.al = Some(x[13]);
        }
        _ => return Err(format!("unknown FEC id {}", fec)),
    }
    Ok(f)
}

/// Decode the payload id for FEC id `fec`. `m` is the RS(2^m) parameter.
pub fn decode_payload_id(fec: u8, x: &[u8], m: u8) -> (u32, u32, Option<u16>) {
    match fec {
        0 | 1 => (be(&x[0..2]) as u32, be(&x[2..4]) as u32, None),
        5 => (be(&x[0..3]) as u32, x[3] as u32, None),
        6 => (x[0] as u32, be(&x[1..4]) as u32, None),
        129 => (
            be(&x[0..4]) as u32,
            be(&x[6..8]) as u32,
            Some(be(&x[4..6]) as u16),
        ),
        2 => {
            let w = be(&x[0..4]) as u32;
            let m = m.clamp(1, 16) as u32;
            (w >> m, w & ((1u32 << m) - 1), None)
        }
        _ => (0, 0, None),
    }
}

/// Full decode. The codepoint is taken as FEC Encoding ID (as flute, and as
/// RFC 5775 recommends when no other mapping is signalled).
pub fn decode(data: &[u8]) -> Result<Pkt, String> {
    let (lct, exts) = decode_lct(data)?;
    let fec = lct.cp;
    let pid_len = payload_id_len(fec).ok_or_else(|| format!("codepoint {} unknown", fec))?;
    if lct.hdr_end + pid_len > data.len() {
        return Err("no room for FEC payload id".into());
    }
    let mut p = Pkt {
        len: data.len(),
        ..Default::default()
    };
    let mut m = 8u8;
    for e in &exts {
        match e.het {
            HET_FDT if p.fdt.is_none() => {
                let w = be(&e.bytes[0..4]) as u32;
                p.fdt = Some((((w >> 20) & 0xF) as u8, w & 0xFFFFF));
            }
            HET_CENC if p.cenc.is_none() => {
                p.cenc = Some(e.bytes[1]);
            }
            HET_TIME if p.time.is_none() => {
                if e.bytes.len() < 4 {
                    return Err("EXT_TIME too short".into());
                }
                let use_hi = e.bytes[2];
                let mut t = Sct::default();
                let mut off = 4;
                let mut take = |on: bool| -> Result<Option<u32>, String> {
                    if !on {
                        return Ok(None);
                    }
                    if off + 4 > e.bytes.len() {
                        return Err("EXT_TIME shorter than its use bits".into());
                    }
                    let v = be(&e.bytes[off..off + 4]) as u32;
                    off += 4;
                    Ok(Some(v))
                };
                t.hi = take(use_hi & 0x80 != 0)?;
                t.lo = take(use_hi & 0x40 != 0)?;
                t.ert = take(use_hi & 0x20 != 0)?;
                t.slc = take(use_hi & 0x10 != 0)?;
                p.time = Some(t);
            }
            HET_FTI if p.fti.is_none() => {
                let f = decode_fti(fec, &e.bytes)?;
                if let Some(mm) = f.m {
                    if mm != 0 {
                        m = mm;
                    }
                }
                p.fti = Some(f);
            }
            _ => {}
        }
    }
    let (sbn, esi, sbl) = decode_payload_id(fec, &data[lct.hdr_end..lct.hdr_end + pid_len], m);
    p.sbn = sbn;
    p.esi = esi;
    p.sbl = sbl;
    p.payload_off = lct.hdr_end + pid_len;
    p.lct = lct;
    p.exts = exts;
    Ok(p)
}

// ------------------------------------------------------------------ encoder

#[derive(Clone, Debug)]
pub struct EncLct {
    pub v: u8,
    /// C field: CCI occupies 4*(c+1) bytes
    pub c: u8,
    pub psi: u8,
    pub s: u8,
    pub o: u8,
    pub h: u8,
    pub res: u8,
    pub a: bool,
    pub b: bool,
    pub cp: u8,
    pub cci: u128,
    pub tsi: u64,
    pub toi: u128,
}

pub fn bits(v: u128) -> u32 {
    128 - v.leading_zeros()
}

/// All (s,o,h) classes able to carry (tsi,toi); RFC 5651 §5.1.
pub fn classes_for(tsi: u64, toi: u128) -> Vec<(u8, u8, u8)> {
    let mut out = vec![];
    for s in 0..=1u8 {
        for o in 0..=3u8 {
            for h in 0..=1u8 {
                let tsi_bits = 32 * s as u32 + 16 * h as u32;
                let toi_bits = 32 * o as u32 + 16 * h as u32;
                if tsi_bits == 0 && tsi != 0 {
                    continue;
                }
                if toi_bits == 0 && toi != 0 {
                    continue;
                }
                if bits(tsi as u128) <= tsi_bits && bits(toi) <= toi_bits {
                    out.push((s, o, h));
                }
            }
        }
    }
    out
}

/// Minimal class as the RFC lets a sender choose (smallest header).
pub fn minimal_class(tsi: u64, toi: u128) -> (u8, u8, u8) {
    classes_for(tsi, toi)
        .into_iter()
        .filter(|(s, o, h)| 32 * *s as u32 + 16 * *h as u32 > 0 && 32 * *o as u32 + 16 * *h as u32 > 0)
        .min_by_key(|(s, o, h)| 4 * (*s as u32 + *o as u32) + 4 * *h as u32)
        .unwrap_or((1, 3, 1))
}

fn push_be(out: &mut Vec<u8>, v: u128, nbytes: usize) {
    let b = v.to_be_bytes();
    out.extend_from_slice(&b[16 - nbytes..]);
}

pub fn ext_fdt(version: u8, id: u32) -> Vec<u8> {
    let w: u32 = (HET_FDT as u32) << 24 | ((version as u32) & 0xF) << 20 | (id & 0xFFFFF);
    w.to_be_bytes().to_vec()
}

pub fn ext_cenc(cenc: u8) -> Vec<u8> {
    vec![HET_CENC, cenc, 0, 0]
}

pub fn ext_time(t: &Sct, pi_specific: u8) -> Vec<u8> {
    let mut words = vec![];
    let mut use_hi = 0u8;
    if let Some(v) = t.hi {
        use_hi |= 0x80;
        words.push(v);
    }
    if let Some(v) = t.lo {
        use_hi |= 0x40;
        words.push(v);
    }
    if let Some(v) = t.ert {
        use_hi |= 0x20;
        words.push(v);
    }
    if let Some(v) = t.slc {
        use_hi |= 0x10;
        words.push(v);
    }
    let mut out = vec![HET_TIME, 1 + words.len() as u8, use_hi, pi_specific];
    for w in words {
        out.extend_from_slice(&w.to_be_bytes());
    }
    out
}

/// Variable-length unknown extension (HET < 128) with `words` 32-bit words in total
pub fn ext_unknown_var(het: u8, words: u8, fill: u8) -> Vec<u8> {
    let mut out = vec![het, words];
    out.resize(4 * words as usize, fill);
    out
}

pub fn ext_unknown_fixed(het: u8, fill: u8) -> Vec<u8> {
    vec![het, fill, fill, fill]
}

pub fn ext_fti(f: &Fti) -> Vec<u8> {
    let mut x = vec![HET_FTI];
    match f.fec {
        0 => {
            x.push(4);
            push_be(&mut x, f.l as u128, 6);
            x.extend_from_slice(&[0, 0]);
            x.extend_from_slice(&f.e.to_be_bytes());
            x.extend_from_slice(&f.b.to_be_bytes());
        }
        129 => {
            x.push(4);
            push_be(&mut x, f.l as u128, 6);
            x.extend_from_slice(&f.instance.unwrap_or(0).to_be_bytes());
            x.extend_from_slice(&f.e.to_be_bytes());
            x.extend_from_slice(&(f.b as u16).to_be_bytes());
            x.extend_from_slice(&(f.max_n.unwrap_or(0) as u16).to_be_bytes());
        }
        5 => {
            x.push(3);
            push_be(&mut x, f.l as u128, 6);
            x.extend_from_slice(&f.e.to_be_bytes());
            x.push(f.b as u8);
            x.push(f.max_n.unwrap_or(0) as u8);
        }
        2 => {
            x.push(4);
            push_be(&mut x, f.l as u128, 6);
            x.push(f.m.unwrap_or(8));
            x.push(f.g.unwrap_or(1));
            x.extend_from_slice(&f.e.to_be_bytes());
            x.extend_from_slice(&(f.b as u16).to_be_bytes());
            x.extend_from_slice(&(f.max_n.unwrap_or(0) as u16).to_be_bytes());
        }
        6 => {
            x.push(4);
            push_be(&mut x, f.l as u128, 5);
            x.push(0);
            x.extend_from_slice(&f.e.to_be_bytes());
            x.push(f.z.unwrap_or(0) as u8);
            x.extend_from_slice(&(f.n.unwrap_or(0) as u16).to_be_bytes());
            x.push(f.al.unwrap_or(0));
            x.extend_from_slice(&[0, 0]);
        }
        1 => {
            x.push(4);
            push_be(&mut x, f.l as u128, 5);
            x.push(0);
            x.extend_from_slice(&f.e.to_be_bytes());
            x.extend_from_slice(&(f.z.unwrap_or(0) as u16).to_be_bytes());
            x.push(f.n.unwrap_or(0) as u8);
            x.push(f.al.unwrap_or(0));
            x.extend_from_slice(&[0, 0]);
        }
        _ => {
            x.push(1);
            x.extend_from_slice(&[0, 0]);
        }
    }
    x
}

pub fn payload_id(fec: u8, sbn: u32, esi: u32, sbl: u16, m: u8) -> Vec<u8> {
    match fec {
        0 | 1 => (((sbn & 0xFFFF) << 16) | (esi & 0xFFFF)).to_be_bytes().to_vec(),
        5 => (((sbn & 0xFF_FFFF) << 8) | (esi & 0xFF)).to_be_bytes().to_vec(),
        6 => (((sbn & 0xFF) << 24) | (esi & 0xFF_FFFF)).to_be_bytes().to_vec(),
        129 => {
            let mut v = sbn.to_be_bytes().to_vec();
            v.extend_from_slice(&sbl.to_be_bytes());
            v.extend_from_slice(&(esi as u16).to_be_bytes());
            v
        }
        2 => {
            let m = m.clamp(1, 16) as u32;
            ((sbn << m) | (esi & ((1 << m) - 1))).to_be_bytes().to_vec()
        }
        _ => vec![0, 0, 0, 0],
    }
}

/// Encode a packet. `exts` are complete extensions in wire order.
pub fn encode(l: &EncLct, exts: &[Vec<u8>], payload_id: &[u8], payload: &[u8]) -> Vec<u8> {
    let cci_len = 4 * (l.c as usize + 1);
    let tsi_len = 4 * l.s as usize + 2 * l.h as usize;
    let toi_len = 4 * l.o as usize + 2 * l.h as usize;
    let ext_len: usize = exts.iter().map(|e| e.len()).sum();
    let hdr = 4 + cci_len + tsi_len + toi_len + ext_len;
    debug_assert!(hdr % 4 == 0);
    let mut out = Vec::with_capacity(hdr + payload_id.len() + payload.len());
    out.push((l.v << 4) | ((l.c & 3) << 2) | (l.psi & 3));
    out.push(
        (l.s & 1) << 7 | (l.o & 3) << 5 | (l.h & 1) << 4 | (l.res & 3) << 2 | (l.a as u8) << 1 | l.b as u8,
    );
    out.push((hdr / 4) as u8);
    out.push(l.cp);
    push_be(&mut out, l.cci, cci_len);
    push_be(&mut out, l.tsi as u128, tsi_len);
    push_be(&mut out, l.toi, toi_len);
    for e in exts {
        out.extend_from_slice(e);
    }
    out.extend_from_slice(payload_id);
    out.extend_from_slice(payload);
    out
}

/// Convenience: minimal-class header with default flags
pub fn enc_lct(tsi: u64, toi: u128, cp: u8) -> EncLct {
    let (s, o, h) = minimal_class(tsi, toi);
    EncLct {
        v: 1,
        c: 0,
        psi: 0,
        s,
        o,
        h,
        res: 0,
        a: false,
        b: false,
        cp,
        cci: 0,
        tsi,
        toi,
    }
}

// ------------------------------------------------------------------ NTP

pub const NTP_UNIX_OFFSET: u64 = 2_208_988_800;

/// (seconds, fraction) of NTP era 0 for a Unix time given in microseconds
pub fn unix_us_to_ntp(us: u64) -> (u32, u32) {
    let s = us / 1_000_000 + NTP_UNIX_OFFSET;
    let f = ((us % 1_000_000) as u128 * (1u128 << 32) / 1_000_000) as u32;
    (s as u32, f)
}

pub fn ntp_to_unix_us(hi: u32, lo: u32) -> Option<u64> {
    let s = hi as u64;
    if s < NTP_UNIX_OFFSET {
        return None;
    }
    let us = (lo as u128 * 1_000_000 / (1u128 << 32)) as u64;
    Some((s - NTP_UNIX_OFFSET) * 1_000_000 + us)
}

#[cfg(test)]
mod tests {
    use super::*;

    #[test]
    fn roundtrip_self() {
        let mut l = enc_lct(0x1234_5678_9abc, 0xdead_beef_0001, 5);
        l.b = true;
        let f = Fti {
            fec: 5,
            l: 0xFFFF_FFFF_FFFF,
            e: 1400,
            b: 200,
            max_n: Some(255),
            ..Default::default()
        };
        let exts = vec![ext_unknown_var(10, 65, 0xAA), ext_cenc(3), ext_fti(&f), ext_unknown_fixed(200, 1)];
        let pid = payload_id(5, 0xABCDE, 0x7F, 0, 8);
        let bytes = encode(&l, &exts, &pid, b"hello");
        let p = decode(&bytes).unwrap();
        assert_eq!(p.lct.tsi, 0x1234_5678_9abc);
        assert_eq!(p.lct.toi, 0xdead_beef_0001);
        assert!(p.lct.b && !p.lct.a);
        assert_eq!(p.cenc, Some(3));
        assert_eq!(p.fti, Some(f));
        assert_eq!((p.sbn, p.esi), (0xABCDE, 0x7F));
        assert_eq!(p.payload(&bytes), b"hello");
    }

    /// Hand-encoded vector: RFC 5651 figure 1 with C=0,S=1,O=1,H=0, TSI=1, TOI=2,
    /// HDR_LEN=4, CP=0, then FEC-0 payload id SBN=3 ESI=4.
    #[test]
    fn hand_vector() {
        let bytes = [
            0x10, 0xA0, 0x04, 0x00, 0, 0, 0, 0, 0, 0, 0, 1, 0, 0, 0, 2, 0, 3, 0, 4, 0x55,
        ];
        let p = decode(&bytes).unwrap();
        assert_eq!((p.lct.v, p.lct.c, p.lct.s, p.lct.o, p.lct.h), (1, 0, 1, 1, 0));
        assert_eq!((p.lct.tsi, p.lct.toi, p.sbn, p.esi), (1, 2, 3, 4));
        assert_eq!(p.payload(&bytes), &[0x55]);
    }

    #[test]
    fn ntp() {
        let (hi, lo) = unix_us_to_ntp(1_704_067_200_500_000);
        assert_eq!(hi as u64, 1_704_067_200 + NTP_UNIX_OFFSET);
        assert_eq!(lo, 0x8000_0000);
        assert_eq!(ntp_to_unix_us(hi, lo), Some(1_704_067_200_500_000));
    }
}
