//! Small shared utilities: deterministic RNG, parallel case runner with panic
//! capture, hex helpers, wall-clock watchdog.

use std::cell::RefCell;
use std::panic::{catch_unwind, AssertUnwindSafe};
use std::sync::atomic::{AtomicBool, AtomicUsize, Ordering};
use std::sync::Mutex;
use std::time::{Duration, Instant, SystemTime};

/// SplitMix64: tiny, deterministic, good enough for workload generation.
#[derive(Clone, Debug)]
pub struct Rng(pub u64);

impl Rng {
    pub fn new(seed: u64) -> Rng {
        Rng(seed)
    }
    /// Stream keyed by (seed, property tag, shard, case index)
    pub fn keyed(seed: u64, tag: &str, a: u64, b: u64) -> Rng {
        let mut h = seed ^ 0x9E37_79B9_7F4A_7C15;
        for c in tag.bytes() {
            h = (h ^ c as u64).wrapping_mul(0x100_0000_01B3);
        }
        let mut r = Rng(h ^ a.wrapping_mul(0xD6E8_FEB8_6659_FD93) ^ b.wrapping_mul(0xCA5A_8264_95B3_7B1D));
        r.next();
        r.next();
        r
    }
    pub fn next(&mut self) -> u64 {
        self.0 = self.0.wrapping_add(0x9E37_79B9_7F4A_7C15);
        let mut z = self.0;
        z = (z ^ (z >> 30)).wrapping_mul(0xBF58_476D_1CE4_E5B9);
        z = (z ^ (z >> 27)).wrapping_mul(0x94D0_49BB_1331_11EB);
        z ^ (z >> 31)
    }
    pub fn below(&mut self, n: u64) -> u64 {
        if n == 0 {
            0
        } else {
            self.next() % n
        }
    }
    pub fn range(&mut self, lo: u64, hi_incl: u64) -> u64 {
        lo + self.below(hi_incl - lo + 1)
    }
    pub fn chance(&mut self, num: u64, den: u64) -> bool {
        self.below(den) < num
    }
    pub fn pick<'a, T>(&mut self, xs: &'a [T]) -> &'a T {
        &xs[self.below(xs.len() as u64) as usize]
    }
    pub fn u128(&mut self) -> u128 {
        ((self.next() as u128) << 64) | self.next() as u128
    }
    pub fn bytes(&mut self, n: usize) -> Vec<u8> {
        let mut v = Vec::with_capacity(n);
        while v.len() < n {
            let x = self.next().to_le_bytes();
            let k = (n - v.len()).min(8);
            v.extend_from_slice(&x[..k]);
        }
        v
    }
    pub fn shuffle<T>(&mut self, xs: &mut [T]) {
        for i in (1..xs.len()).rev() {
            let j = self.below(i as u64 + 1) as usize;
            xs.swap(i, j);
        }
    }
}

pub fn hex(b: &[u8]) -> String {
    let mut s = String::with_capacity(b.len() * 2);
    for x in b {
        s.push_str(&format!("{:02x}", x));
    }
    s
}

pub fn unhex(s: &str) -> Vec<u8> {
    let s = s.as_bytes();
    let mut v = Vec::with_capacity(s.len() / 2);
    let d = |c: u8| match c {
        b'0'..=b'9' => c - b'0',
        b'a'..=b'f' => c - b'a' + 10,
        b'A'..=b'F' => c - b'A' + 10,
        _ => 0,
    };
    let mut i = 0;
    while i + 1 < s.len() {
        v.push(d(s[i]) << 4 | d(s[i + 1]));
        i += 2;
    }
    v
}

/// Fixed virtual epoch used by every workload: 2024-01-01T00:00:00Z
pub fn t0() -> SystemTime {
    SystemTime::UNIX_EPOCH + Duration::from_secs(1_704_067_200)
}

pub fn at(ms: u64) -> SystemTime {
    t0() + Duration::from_millis(ms)
}

pub fn at_us(us: u64) -> SystemTime {
    t0() + Duration::from_micros(us)
}

pub fn since_t0_us(t: SystemTime) -> i128 {
    match t.duration_since(t0()) {
        Ok(d) => d.as_micros() as i128,
        Err(e) => -(e.duration().as_micros() as i128),
    }
}

// ---------------------------------------------------------------- panics

thread_local! {
    static LAST_PANIC: RefCell<Option<String>> = const { RefCell::new(None) };
    static GUARD_DEPTH: std::cell::Cell<u32> = const { std::cell::Cell::new(0) };
}

/// Install a panic hook that records message + location in a thread local
/// instead of printing (hostile workloads panic thousands of times).
pub fn install_quiet_panic_hook() {
    std::panic::set_hook(Box::new(|info| {
        let msg = if let Some(s) = info.payload().downcast_ref::<&str>() {
            s.to_string()
        } else if let Some(s) = info.payload().downcast_ref::<String>() {
            s.clone()
        } else {
            "<non-string panic>".to_string()
        };
        let loc = info
            .location()
            .map(|l| format!("{}:{}", l.file(), l.line()))
            .unwrap_or_else(|| "?".into());
        LAST_PANIC.with(|p| *p.borrow_mut() = Some(format!("{} @ {}", msg, loc)));
        if std::env::var_os("VERIF_BT").is_some() {
            eprintln!("panic: {} @ {}\n{}", msg, loc, std::backtrace::Backtrace::force_capture());
        }
        if GUARD_DEPTH.with(|d| d.get()) == 0 || std::env::var_os("VERIF_PANIC_VERBOSE").is_some() {
            eprintln!("panic: {} @ {}", msg, loc);
        }
    }));
}

#[derive(Debug, Clone)]
pub struct PanicInfo {
    pub msg: String,
    pub loc: String,
}

impl PanicInfo {
    /// location with the registry / repo prefix stripped: `src/common/lct.rs:351`
    pub fn short_loc(&self) -> String {
        let l = &self.loc;
        if let Some(i) = l.find("/repo/") {
            return l[i + 6..].to_string();
        }
        if let Some(i) = l.find("registry/src/") {
            let rest = &l[i + 13..];
            if let Some(j) = rest.find('/') {
                return rest[j + 1..].to_string();
            }
        }
        l.clone()
    }
    /// file without the line number
    pub fn file(&self) -> String {
        let s = self.short_loc();
        match s.rfind(':') {
            Some(i) => s[..i].to_string(),
            None => s,
        }
    }
    pub fn is_step_budget(&self) -> bool {
        self.msg.contains("VERIF-STEP-BUDGET")
    }
    pub fn step_site(&self) -> String {
        self.msg
            .split("exhausted at ")
            .nth(1)
            .unwrap_or("?")
            .to_string()
    }
}

/// Run `f`, catching any panic (flute's, a dependency's or an oracle's).
pub fn guarded<T>(f: impl FnOnce() -> T) -> Result<T, PanicInfo> {
    LAST_PANIC.with(|p| *p.borrow_mut() = None);
    GUARD_DEPTH.with(|d| d.set(d.get() + 1));
    let r = catch_unwind(AssertUnwindSafe(f));
    GUARD_DEPTH.with(|d| d.set(d.get() - 1));
    flute::verif::disarm();
    match r {
        Ok(v) => Ok(v),
        Err(_) => {
            let s = LAST_PANIC
                .with(|p| p.borrow_mut().take())
                .unwrap_or_else(|| "<unknown> @ ?".into());
            let (msg, loc) = match s.rfind(" @ ") {
                Some(i) => (s[..i].to_string(), s[i + 3..].to_string()),
                None => (s.clone(), "?".to_string()),
            };
            Err(PanicInfo { msg, loc })
        }
    }
}

/// Run one flute API call under a step budget (logical hang detector).
pub fn with_budget<T>(budget: u64, f: impl FnOnce() -> T) -> T {
    flute::verif::arm(budget);
    let r = f();
    flute::verif::disarm();
    r
}

// ---------------------------------------------------------------- parallel

pub fn nthreads() -> usize {
    std::env::var("VERIF_THREADS")
        .ok()
        .and_then(|s| s.parse().ok())
        .unwrap_or_else(|| {
            std::thread::available_parallelism()
                .map(|n| n.get())
                .unwrap_or(4)
        })
}

/// Run `n` cases over all cores. `f(case_index) -> R`; results returned in
/// case order. A wall-clock deadline stops handing out new cases (the caller
/// sees `None` for cases not run and must report them as not explored).
pub fn par_cases<R: Send>(
    n: usize,
    deadline: Option<Instant>,
    f: impl Fn(usize) -> R + Sync,
) -> Vec<Option<R>> {
    let next = AtomicUsize::new(0);
    let stop = AtomicBool::new(false);
    let out: Mutex<Vec<Option<R>>> = Mutex::new((0..n).map(|_| None).collect());
    let threads = nthreads().min(n.max(1));
    std::thread::scope(|s| {
        for _ in 0..threads {
            s.spawn(|| {
                install_thread();
                loop {
                    if stop.load(Ordering::Relaxed) {
                        break;
                    }
                    if let Some(d) = deadline {
                        if Instant::now() > d {
                            stop.store(true, Ordering::Relaxed);
                            break;
                        }
                    }
                    let i = next.fetch_add(1, Ordering::Relaxed);
                    if i >= n {
                        break;
                    }
                    let r = f(i);
                    out.lock().unwrap()[i] = Some(r);
                }
            });
        }
    });
    out.into_inner().unwrap()
}

fn install_thread() {}

pub struct Stopwatch(Instant);
impl Stopwatch {
    pub fn start() -> Stopwatch {
        Stopwatch(Instant::now())
    }
    pub fn secs(&self) -> f64 {
        self.0.elapsed().as_secs_f64()
    }
}

/// FNV-1a 64 for shape signatures
pub fn fnv(s: &str) -> u64 {
    let mut h: u64 = 0xcbf29ce484222325;
    for b in s.bytes() {
        h ^= b as u64;
        h = h.wrapping_mul(0x100000001b3);
    }
    h
}


/// Owns a value and LEAKS it when dropped during a panic. The code under test may panic while it holds one of its own
/// locks; destructors that take that (now poisoned) lock - TOI handles, the sender that owns them - would panic again
/// while the first panic unwinds, and a second panic aborts the process: no verdict at all. Leaking is harmless here.
pub struct LeakOnPanic<T>(pub Option<T>);

impl<T> LeakOnPanic<T> {
    pub fn new(v: T) -> Self {
        LeakOnPanic(Some(v))
    }
}

impl<T> std::ops::Deref for LeakOnPanic<T> {
    type Target = T;
    fn deref(&self) -> &T {
        self.0.as_ref().unwrap()
    }
}

impl<T> std::ops::DerefMut for LeakOnPanic<T> {
    fn deref_mut(&mut self) -> &mut T {
        self.0.as_mut().unwrap()
    }
}

impl<T> Drop for LeakOnPanic<T> {
    fn drop(&mut self) {
        if std::thread::panicking() {
            std::mem::forget(self.0.take());
        }
    }
}
