//! Small sessions (a handful of packets) used for exhaustive loss / order /
//! drop-point enumeration, and the decodability predicate of C02.

use crate::scenario::*;
use crate::session::*;
use crate::util::Rng;
use std::collections::{BTreeMap, BTreeSet};

#[derive(Clone, Debug)]
pub struct SmallCfg {
    pub fec: Fec,
    pub e: u16,
    pub b: u32,
    pub parity: u32,
    pub len: usize,
    pub interleave: u8,
    pub inband_fti: bool,
    pub transfers: u32,
    pub cenc: CencSpec,
    /// EXT_CENC on the object packets (false: the content encoding is announced by the FDT only)
    pub inband_cenc: bool,
    pub md5: bool,
    /// the FDT travels with the tested OTI instead of a single No-Code packet
    pub fdt_same_oti: bool,
    pub nobj: usize,
}

impl SmallCfg {
    pub fn name(&self) -> String {
        format!(
            "{}|E{}|B{}|p{}|L{}|il{}|ib{}|x{}|{}{}|md5{}|f{}|n{}",
            self.fec.name(), self.e, self.b, self.parity, self.len, self.interleave,
            self.inband_fti, self.transfers, self.cenc.name(), if self.inband_cenc { "" } else { "(fdt)" }, self.md5, self.fdt_same_oti, self.nobj
        )
    }
}

pub fn build_small(c: &SmallCfg, seed: u64) -> Result<Emitted, String> {
    let mut rng = Rng::keyed(seed, "small", c.len as u64, c.e as u64);
    let mut oti = OtiSpec::new(c.fec, c.e, c.b, c.parity);
    oti.inband_fti = c.inband_fti;
    oti.al = 1;
    let mut spec = if c.fdt_same_oti {
        let mut o = oti.clone();
        crate::gen::make_fdt_capable(&mut o);
        SenderSpec::new(o)
    } else {
        SenderSpec::new(OtiSpec::new(Fec::NoCode, 8192, 8, 0))
    };
    spec.interleave = c.interleave;
    // one FDT copy only: carousel slower than the session
    spec.fdt_carousel = CarouselSpec::DelayMs(3_600_000);
    let mut objs = vec![];
    for k in 0..c.nobj {
        let mut o = ObjSpec::new(gen_bytes(&mut rng, c.len + k), &format!("file:///s/o{}.bin", k));
        o.oti = Some(oti.clone());
        o.max_transfer_count = c.transfers;
        o.cenc = c.cenc;
        o.inband_cenc = c.inband_cenc;
        o.md5 = c.md5;
        objs.push(o);
    }
    emit(&spec, &objs, &EmitOpts { step_ms: 10, max_instants: 50, ..Default::default() })
}

/// Catalogue of small configurations; `max_pkts` bounds the number of object packets.
pub fn small_catalogue(max_pkts: usize, with_cenc: bool) -> Vec<SmallCfg> {
    let mut out = vec![];
    for fec in ALL_FEC {
        let parities: Vec<u32> = match fec {
            Fec::NoCode => vec![0],
            _ => vec![1, 2],
        };
        for &parity in &parities {
            // (B, L in symbols of E=8): 1 block, 2 equal blocks, 2 unequal, 3 blocks
            for (b, syms) in [(4u32, 3usize), (4, 4), (2, 4), (3, 5), (2, 5), (2, 6), (5, 5), (4, 8), (4, 9)] {
                if fec == Fec::Raptor {
                    // Raptor cannot encode blocks of 2-3 symbols
                    let p = ref_partition(b as u128, (syms * 8) as u128, 8);
                    if [p.a_large, p.a_small].iter().any(|k| *k == 2 || *k == 3) {
                        continue;
                    }
                }
                for il in [1u8, 2, 3] {
                    for transfers in [1u32, 2] {
                        let p = ref_partition(b as u128, (syms * 8) as u128, 8);
                        let npk = (syms + p.n as usize * parity as usize) * transfers as usize;
                        if npk > max_pkts || (il as u128 > p.n && il > 1) {
                            continue;
                        }
                        for ib in [true, false] {
                            out.push(SmallCfg {
                                fec, e: 8, b, parity, len: syms * 8 - 3, interleave: il, inband_fti: ib,
                                transfers, cenc: CencSpec::Null, inband_cenc: true, md5: true, fdt_same_oti: false, nobj: 1,
                            });
                        }
                    }
                }
            }
        }
    }
    if with_cenc {
        for fec in [Fec::NoCode, Fec::Rs28] {
            for cenc in [CencSpec::Gzip, CencSpec::Zlib, CencSpec::Deflate] {
                // content encoding announced in-band (EXT_CENC) or by the FDT only, x in-band / FDT-only FTI, x MD5
                for (inband_cenc, inband_fti, md5) in [(true, true, true), (false, true, true), (false, true, false), (false, false, true), (true, false, false)] {
                    out.push(SmallCfg {
                        fec, e: 16, b: 2, parity: if fec == Fec::NoCode { 0 } else { 1 }, len: 60, interleave: 2,
                        inband_fti, transfers: 1, cenc, inband_cenc, md5, fdt_same_oti: false, nobj: 1,
                    });
                }
            }
        }
    }
    out
}

/// per-object view of the stream: packet indices and (sbn, esi)
pub struct ObjView {
    pub toi: u128,
    pub part: Part,
    pub fec: Fec,
    /// stream indices of the packets of this object
    pub idx: Vec<usize>,
}

pub fn obj_view(em: &Emitted, i: usize) -> Option<ObjView> {
    let toi = em.tois[i]?;
    let oti = em.oti_of(i);
    let tl = em.transfer_len[i]?;
    Some(ObjView {
        toi,
        part: ref_partition(oti.b as u128, tl as u128, oti.e as u128),
        fec: oti.fec,
        idx: em.stream.iter().enumerate().filter(|(_, p)| p.toi() == toi).map(|(k, _)| k).collect(),
    })
}

fn block_ok(fec: Fec, k: u32, esis: &BTreeSet<u32>) -> bool {
    if fec.is_rs() {
        esis.len() as u32 >= k
    } else {
        (0..k).all(|e| esis.contains(&e))
    }
}

/// FDT instances of the stream: id -> (first idx, transfer length, packets idx)
pub struct FdtView {
    pub id: u32,
    pub idx: Vec<usize>,
    pub tl: u64,
    pub xml: Option<String>,
}

pub fn fdt_views(em: &Emitted) -> Vec<FdtView> {
    let mut m: BTreeMap<u32, FdtView> = BTreeMap::new();
    for (k, p) in em.stream.iter().enumerate() {
        if p.toi() != 0 {
            continue;
        }
        if let Some((_, id)) = p.dec.fdt {
            let v = m.entry(id).or_insert(FdtView { id, idx: vec![], tl: p.dec.fti.as_ref().map(|f| f.l).unwrap_or(0), xml: None });
            v.idx.push(k);
        }
    }
    let mut out: Vec<FdtView> = m.into_values().collect();
    let oti = &em.spec.oti;
    for v in out.iter_mut() {
        // reassemble from source symbols (first copy of each)
        let part = ref_partition(oti.b as u128, v.tl as u128, oti.e as u128);
        let mut bytes: Vec<u8> = vec![];
        let mut ok = true;
        for sbn in 0..part.n as u32 {
            for esi in 0..part.k(sbn as u128) as u32 {
                match v.idx.iter().find(|k| em.stream[**k].dec.sbn == sbn && em.stream[**k].dec.esi == esi) {
                    Some(k) => bytes.extend_from_slice(em.stream[*k].payload()),
                    None => ok = false,
                }
            }
        }
        bytes.truncate(v.tl as usize);
        if ok && oti.fec != Fec::Raptor {
            if let Ok(plain) = inflate(em.spec.fdt_cenc, &bytes) {
                v.xml = String::from_utf8(plain).ok();
            }
        }
    }
    out
}

/// C02 decodability predicate, computed from the delivered list alone.
/// `delivered` = stream indices in delivery order (duplicates allowed).
pub fn decodable(em: &Emitted, fdts: &[FdtView], ov: &ObjView, delivered: &[usize]) -> bool {
    decodable_ext(em, fdts, ov, delivered, false)
}

/// `late_fdt`: the FDT instance may become decodable anywhere before the delivered packet of the object that
/// carries the close-object flag (anywhere at all when that packet is not delivered), instead of before the
/// first delivered packet of the object.
pub fn decodable_ext(em: &Emitted, fdts: &[FdtView], ov: &ObjView, delivered: &[usize], late_fdt: bool) -> bool {
    let first_obj_pos = match delivered.iter().position(|k| em.stream[*k].toi() == ov.toi) {
        Some(p) => p,
        None => return false,
    };
    let first_obj_pos = if late_fdt {
        let b_pos = delivered.iter().position(|k| em.stream[*k].toi() == ov.toi && em.stream[*k].dec.lct.b);
        // FDT-only OTI, packets of the object delivered in emission order with the close-object packet last: the
        // packets wait in the cache, the FDT may arrive after all of them
        let i = em.obj_index_of(ov.toi).unwrap_or(0);
        let obj_order: Vec<usize> = delivered.iter().copied().filter(|k| em.stream[*k].toi() == ov.toi).collect();
        let in_order = obj_order.windows(2).all(|w| w[0] < w[1]);
        let b_last = b_pos.map(|p| delivered[p] == *obj_order.last().unwrap()).unwrap_or(true);
        // (with in-band OTI the blocks are decoded on arrival and wait for the FDT; an object that is not empty)
        if in_order && b_last && (!em.oti_of(i).inband_fti || em.transfer_len[i].unwrap_or(0) > 0) {
            delivered.len()
        } else {
            b_pos.unwrap_or(delivered.len())
        }
    } else {
        first_obj_pos
    };
    // some FDT instance listing the object decodable from packets delivered before
    let oti = &em.spec.oti;
    let needle = format!("TOI=\"{}\"", ov.toi);
    let mut fdt_ok = false;
    for f in fdts {
        // an instance that could not be reassembled by the harness (Raptor-coded FDT) is assumed to list the object
        // in full-FDT mode only; in ObjectsBeingTransferred mode it is not used (no demand rather than a wrong one)
        let lists = f.xml.as_ref().map(|x| x.contains(&needle)).unwrap_or(em.spec.full_fdt);
        if !lists {
            continue;
        }
        let part = ref_partition(oti.b as u128, f.tl as u128, oti.e as u128);
        let mut per: BTreeMap<u32, BTreeSet<u32>> = BTreeMap::new();
        for k in &delivered[..first_obj_pos] {
            let p = &em.stream[*k];
            if p.toi() == 0 && p.dec.fdt.map(|x| x.1) == Some(f.id) {
                per.entry(p.dec.sbn).or_default().insert(p.dec.esi);
            }
        }
        let empty = BTreeSet::new();
        if (0..part.n as u32).all(|sbn| block_ok(oti.fec, part.k(sbn as u128) as u32, per.get(&sbn).unwrap_or(&empty))) {
            fdt_ok = true;
            break;
        }
    }
    if !fdt_ok {
        return false;
    }
    let mut per: BTreeMap<u32, BTreeSet<u32>> = BTreeMap::new();
    for k in delivered {
        let p = &em.stream[*k];
        if p.toi() == ov.toi {
            per.entry(p.dec.sbn).or_default().insert(p.dec.esi);
        }
    }
    let empty = BTreeSet::new();
    (0..ov.part.n as u32).all(|sbn| block_ok(ov.fec, ov.part.k(sbn as u128) as u32, per.get(&sbn).unwrap_or(&empty)))
}
