//! Counting / capping global allocator (DESIGN.md §3.7). Keeps no address
//! table (hides nothing from ASan/LSan/memcheck); plain process-wide atomics,
//! so it is meaningful in single-threaded child processes and for the
//! dedicated measuring thread of C17.

use std::alloc::{GlobalAlloc, Layout, System};
use std::sync::atomic::{AtomicBool, AtomicIsize, AtomicUsize, Ordering};

pub static LIVE: AtomicIsize = AtomicIsize::new(0);
pub static PEAK: AtomicIsize = AtomicIsize::new(0);
pub static MAX_REQ: AtomicUsize = AtomicUsize::new(0);
pub static NALLOC: AtomicUsize = AtomicUsize::new(0);
/// when set, a single request above CAP terminates the process with code 97
pub static ENFORCE: AtomicBool = AtomicBool::new(false);
pub static CAP: AtomicUsize = AtomicUsize::new(256 << 20);
/// total live bytes above which the process terminates with code 98
pub static LIVE_CAP: AtomicUsize = AtomicUsize::new(usize::MAX);

pub struct Counting;

#[inline]
fn note_alloc(size: usize) {
    let live = LIVE.fetch_add(size as isize, Ordering::Relaxed) + size as isize;
    NALLOC.fetch_add(1, Ordering::Relaxed);
    if live > PEAK.load(Ordering::Relaxed) {
        PEAK.store(live, Ordering::Relaxed);
    }
    if size > MAX_REQ.load(Ordering::Relaxed) {
        MAX_REQ.store(size, Ordering::Relaxed);
    }
}

fn die(code: i32, what: &str, size: usize) -> ! {
    // no allocation, no unwinding: format by hand
    let mut buf = [0u8; 96];
    let mut n = 0;
    for b in what.bytes() {
        buf[n] = b;
        n += 1;
    }
    let mut digits = [0u8; 24];
    let mut d = 0;
    let mut v = size;
    loop {
        digits[d] = b'0' + (v % 10) as u8;
        d += 1;
        v /= 10;
        if v == 0 {
            break;
        }
    }
    while d > 0 {
        d -= 1;
        buf[n] = digits[d];
        n += 1;
    }
    buf[n] = b'\n';
    n += 1;
    unsafe {
        libc::write(2, buf.as_ptr() as *const libc::c_void, n);
        libc::_exit(code);
    }
}

unsafe impl GlobalAlloc for Counting {
    unsafe fn alloc(&self, layout: Layout) -> *mut u8 {
        if ENFORCE.load(Ordering::Relaxed) {
            if layout.size() > CAP.load(Ordering::Relaxed) {
                die(97, "VERIF-ALLOC-CAP single request of bytes=", layout.size());
            }
            if (LIVE.load(Ordering::Relaxed) as usize).saturating_add(layout.size()) > LIVE_CAP.load(Ordering::Relaxed) {
                die(98, "VERIF-LIVE-CAP live heap would exceed cap with request bytes=", layout.size());
            }
        }
        let p = System.alloc(layout);
        if !p.is_null() {
            note_alloc(layout.size());
        }
        p
    }
    unsafe fn alloc_zeroed(&self, layout: Layout) -> *mut u8 {
        if ENFORCE.load(Ordering::Relaxed) {
            if layout.size() > CAP.load(Ordering::Relaxed) {
                die(97, "VERIF-ALLOC-CAP single request of bytes=", layout.size());
            }
            if (LIVE.load(Ordering::Relaxed) as usize).saturating_add(layout.size()) > LIVE_CAP.load(Ordering::Relaxed) {
                die(98, "VERIF-LIVE-CAP live heap would exceed cap with request bytes=", layout.size());
            }
        }
        let p = System.alloc_zeroed(layout);
        if !p.is_null() {
            note_alloc(layout.size());
        }
        p
    }
    unsafe fn dealloc(&self, ptr: *mut u8, layout: Layout) {
        LIVE.fetch_sub(layout.size() as isize, Ordering::Relaxed);
        System.dealloc(ptr, layout)
    }
    unsafe fn realloc(&self, ptr: *mut u8, layout: Layout, new_size: usize) -> *mut u8 {
        if ENFORCE.load(Ordering::Relaxed) && new_size > CAP.load(Ordering::Relaxed) {
            die(97, "VERIF-ALLOC-CAP single request of bytes=", new_size);
        }
        let p = System.realloc(ptr, layout, new_size);
        if !p.is_null() {
            LIVE.fetch_sub(layout.size() as isize, Ordering::Relaxed);
            note_alloc(new_size);
        }
        p
    }
}

pub fn live() -> isize {
    LIVE.load(Ordering::Relaxed)
}
pub fn reset_peak() {
    PEAK.store(LIVE.load(Ordering::Relaxed), Ordering::Relaxed);
    MAX_REQ.store(0, Ordering::Relaxed);
}
pub fn peak() -> isize {
    PEAK.load(Ordering::Relaxed)
}
pub fn max_req() -> usize {
    MAX_REQ.load(Ordering::Relaxed)
}
