//! Monitoring object writer: records every callback flute makes at the writer
//! boundary and runs the per-writer typestate automaton online.
//!
//! ```text
//! New ─open(Ok)→ Opened ─write*→ Opened ─complete|error|interrupted→ Done
//! New ─open(Err)→ OpenFailed ─error→ Done ;  any other edge = protocol violation
//! ```

use flute::core::UDPEndpoint;
use flute::receiver::writer::{
    ObjectMetadata, ObjectWriter, ObjectWriterBuilder, ObjectWriterBuilderResult,
};
use std::cell::RefCell;
use std::rc::Rc;
use std::time::{Duration, SystemTime};

#[derive(Clone, Copy, Debug, PartialEq, Eq, Hash)]
pub enum WState {
    New,
    Opened,
    OpenFailed,
    Complete,
    Error,
    Interrupted,
}

impl WState {
    pub fn is_terminal(self) -> bool {
        matches!(self, WState::Complete | WState::Error | WState::Interrupted)
    }
}

#[derive(Clone, Copy, Debug, PartialEq, Eq)]
pub enum BuilderAnswer {
    Store,
    AlreadyReceived,
    Abort,
}

/// Scripted behaviour of the writers created by one builder.
#[derive(Clone, Debug)]
pub struct Script {
    /// answer for the n-th call of new_object_writer (last entry repeats)
    pub answers: Vec<BuilderAnswer>,
    /// open() of these writer indices fails
    pub open_fail: Vec<usize>,
    /// (writer index, write call number starting at 1) that fail
    pub write_fail: Vec<(usize, usize)>,
    pub md5_check: bool,
    /// keep at most this many bytes of written data per writer (hostile
    /// workloads measure the receiver's heap, not the monitor's)
    pub keep_data: usize,
}

impl Default for Script {
    fn default() -> Self {
        Script {
            answers: vec![BuilderAnswer::Store],
            open_fail: vec![],
            write_fail: vec![],
            md5_check: true,
            keep_data: usize::MAX,
        }
    }
}

#[derive(Clone, Debug)]
pub enum Ev {
    New { wid: usize, answer: BuilderAnswer },
    Open { wid: usize, ok: bool },
    Write { wid: usize, sbn: u32, len: usize, ok: bool },
    Complete { wid: usize },
    Error { wid: usize },
    Interrupted { wid: usize },
    FdtReceived { n: usize },
    UpdateCacheControl { toi: u128 },
}

#[derive(Clone, Debug)]
pub struct WriterRec {
    pub wid: usize,
    pub endpoint: UDPEndpoint,
    pub tsi: u64,
    pub toi: u128,
    pub meta: ObjectMetadata,
    pub created_at: SystemTime,
    pub answer: BuilderAnswer,
    pub state: WState,
    pub data: Vec<u8>,
    pub bytes_written: usize,
    pub nb_open: usize,
    pub nb_write: usize,
    pub nb_terminal: usize,
    pub write_failed: bool,
    pub terminal_at: Option<SystemTime>,
    /// illegal transitions observed for this writer (automaton violations)
    pub illegal: Vec<String>,
    /// index in the global event log of the New event
    pub ev_index: usize,
}

#[derive(Clone, Debug)]
pub struct FdtRec {
    pub endpoint: UDPEndpoint,
    pub tsi: u64,
    pub xml: String,
    pub expires: SystemTime,
    pub now: SystemTime,
    pub ext_time: Option<SystemTime>,
}

#[derive(Default, Debug)]
pub struct Log {
    pub writers: Vec<WriterRec>,
    pub events: Vec<Ev>,
    pub fdts: Vec<FdtRec>,
    pub cache_updates: Vec<(u128, ObjectMetadata)>,
}

impl Log {
    pub fn completes(&self, toi: u128) -> Vec<&WriterRec> {
        self.writers
            .iter()
            .filter(|w| w.toi == toi && w.state == WState::Complete)
            .collect()
    }
    pub fn for_toi(&self, toi: u128) -> Vec<&WriterRec> {
        self.writers.iter().filter(|w| w.toi == toi).collect()
    }
    pub fn illegal(&self) -> Vec<String> {
        let mut v = vec![];
        for w in &self.writers {
            for i in &w.illegal {
                v.push(format!("writer#{} toi={}: {}", w.wid, w.toi, i));
            }
        }
        v
    }
    /// compact per-writer trace "N O W3 W2 C" used in witnesses and as monitor state
    pub fn trace_of(&self, wid: usize) -> String {
        let mut s = String::new();
        for e in &self.events {
            match e {
                Ev::New { wid: w, answer } if *w == wid => s.push_str(match answer {
                    BuilderAnswer::Store => "N ",
                    BuilderAnswer::AlreadyReceived => "N(already) ",
                    BuilderAnswer::Abort => "N(abort) ",
                }),
                Ev::Open { wid: w, ok } if *w == wid => s.push_str(if *ok { "O " } else { "O! " }),
                Ev::Write { wid: w, len, ok, .. } if *w == wid => {
                    s.push_str(&format!("W{}{} ", len, if *ok { "" } else { "!" }))
                }
                Ev::Complete { wid: w } if *w == wid => s.push_str("C "),
                Ev::Error { wid: w } if *w == wid => s.push_str("E "),
                Ev::Interrupted { wid: w } if *w == wid => s.push_str("I "),
                _ => {}
            }
        }
        s.trim_end().to_string()
    }
    /// abstract trace (write lengths dropped, runs collapsed): monitor state id
    pub fn abstract_trace_of(&self, wid: usize) -> String {
        let t = self.trace_of(wid);
        let mut out: Vec<&str> = vec![];
        for tok in t.split(' ') {
            let a = if tok.starts_with('W') {
                if tok.ends_with('!') {
                    "W!"
                } else {
                    "W"
                }
            } else {
                tok
            };
            if a == "W" && out.last() == Some(&"W") {
                continue;
            }
            out.push(a);
        }
        out.join(" ")
    }
}

pub type SharedLog = Rc<RefCell<Log>>;

pub struct MonBuilder {
    pub log: SharedLog,
    pub script: Script,
}

impl MonBuilder {
    pub fn new(script: Script) -> (Rc<MonBuilder>, SharedLog) {
        let log: SharedLog = Rc::new(RefCell::new(Log::default()));
        (
            Rc::new(MonBuilder {
                log: log.clone(),
                script,
            }),
            log,
        )
    }
}

struct MonWriter {
    wid: usize,
    log: SharedLog,
    open_fails: bool,
    write_fail_at: Vec<usize>,
    md5_check: bool,
    keep_data: usize,
}

impl ObjectWriterBuilder for MonBuilder {
    fn new_object_writer(
        &self,
        endpoint: &UDPEndpoint,
        tsi: &u64,
        toi: &u128,
        meta: &ObjectMetadata,
        now: SystemTime,
    ) -> ObjectWriterBuilderResult {
        let mut log = self.log.borrow_mut();
        let wid = log.writers.len();
        let answer = *self
            .script
            .answers
            .get(wid)
            .or(self.script.answers.last())
            .unwrap_or(&BuilderAnswer::Store);
        let ev_index = log.events.len();
        log.events.push(Ev::New { wid, answer });
        log.writers.push(WriterRec {
            wid,
            endpoint: endpoint.clone(),
            tsi: *tsi,
            toi: *toi,
            meta: meta.clone(),
            created_at: now,
            answer,
            state: WState::New,
            data: vec![],
            bytes_written: 0,
            nb_open: 0,
            nb_write: 0,
            nb_terminal: 0,
            write_failed: false,
            terminal_at: None,
            illegal: vec![],
            ev_index,
        });
        match answer {
            BuilderAnswer::Store => ObjectWriterBuilderResult::StoreObject(Box::new(MonWriter {
                wid,
                log: self.log.clone(),
                open_fails: self.script.open_fail.contains(&wid),
                write_fail_at: self
                    .script
                    .write_fail
                    .iter()
                    .filter(|(w, _)| *w == wid)
                    .map(|(_, n)| *n)
                    .collect(),
                md5_check: self.script.md5_check,
                keep_data: self.script.keep_data,
            })),
            BuilderAnswer::AlreadyReceived => ObjectWriterBuilderResult::ObjectAlreadyReceived,
            BuilderAnswer::Abort => ObjectWriterBuilderResult::Abort,
        }
    }

    fn update_cache_control(
        &self,
        _endpoint: &UDPEndpoint,
        _tsi: &u64,
        toi: &u128,
        meta: &ObjectMetadata,
        _now: SystemTime,
    ) {
        let mut log = self.log.borrow_mut();
        log.events.push(Ev::UpdateCacheControl { toi: *toi });
        log.cache_updates.push((*toi, meta.clone()));
    }

    fn fdt_received(
        &self,
        endpoint: &UDPEndpoint,
        tsi: &u64,
        fdt_xml: &str,
        expires: SystemTime,
        _meta: &ObjectMetadata,
        _transfer_duration: Duration,
        now: SystemTime,
        ext_time: Option<SystemTime>,
    ) {
        let mut log = self.log.borrow_mut();
        let n = log.fdts.len();
        log.events.push(Ev::FdtReceived { n });
        log.fdts.push(FdtRec {
            endpoint: endpoint.clone(),
            tsi: *tsi,
            xml: fdt_xml.to_string(),
            expires,
            now,
            ext_time,
        });
    }
}

impl MonWriter {
    fn terminal(&self, to: WState, now: SystemTime) {
        let mut log = self.log.borrow_mut();
        log.events.push(match to {
            WState::Complete => Ev::Complete { wid: self.wid },
            WState::Error => Ev::Error { wid: self.wid },
            _ => Ev::Interrupted { wid: self.wid },
        });
        let w = &mut log.writers[self.wid];
        w.nb_terminal += 1;
        match w.state {
            WState::Opened => {
                if to == WState::Complete && w.write_failed {
                    w.illegal.push("complete after a failed write".into());
                }
            }
            WState::OpenFailed => {
                if to != WState::Error {
                    w.illegal.push(format!("{:?} after open() failed (only error is allowed)", to));
                }
            }
            WState::New => w.illegal.push(format!("{:?} before open", to)),
            s => w.illegal.push(format!("{:?} after terminal {:?}", to, s)),
        }
        if !w.state.is_terminal() {
            w.terminal_at = Some(now);
            w.state = to;
        }
    }
}

impl ObjectWriter for MonWriter {
    fn open(&self, _now: SystemTime) -> flute::error::Result<()> {
        let mut log = self.log.borrow_mut();
        let ok = !self.open_fails;
        log.events.push(Ev::Open { wid: self.wid, ok });
        let w = &mut log.writers[self.wid];
        w.nb_open += 1;
        if w.state != WState::New {
            w.illegal.push(format!("open in state {:?}", w.state));
        } else {
            w.state = if ok { WState::Opened } else { WState::OpenFailed };
        }
        if ok {
            Ok(())
        } else {
            Err(flute::error::FluteError::new("scripted open failure"))
        }
    }

    fn write(&self, sbn: u32, data: &[u8], _now: SystemTime) -> flute::error::Result<()> {
        let mut log = self.log.borrow_mut();
        let w = &mut log.writers[self.wid];
        w.nb_write += 1;
        let n = w.nb_write;
        let ok = !self.write_fail_at.contains(&n);
        if w.state != WState::Opened {
            w.illegal.push(format!("write in state {:?}", w.state));
        } else if w.write_failed {
            w.illegal.push("write after a failed write".into());
        }
        if ok {
            let room = self.keep_data.saturating_sub(w.data.len());
            w.data.extend_from_slice(&data[..data.len().min(room)]);
            w.bytes_written += data.len();
        } else {
            w.write_failed = true;
        }
        log.events.push(Ev::Write {
            wid: self.wid,
            sbn,
            len: data.len(),
            ok,
        });
        if ok {
            Ok(())
        } else {
            Err(flute::error::FluteError::new("scripted write failure"))
        }
    }

    fn complete(&self, now: SystemTime) {
        self.terminal(WState::Complete, now)
    }
    fn error(&self, now: SystemTime) {
        self.terminal(WState::Error, now)
    }
    fn interrupted(&self, now: SystemTime) {
        self.terminal(WState::Interrupted, now)
    }
    fn enable_md5_check(&self) -> bool {
        self.md5_check
    }
}
