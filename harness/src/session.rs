//! Session specifications, the sender driver (virtual clock) and the stream
//! view produced by the independent decoder.

use crate::util::{self, Rng};
use crate::wire;
use flute::core::lct::Cenc;
use flute::core::{Oti, UDPEndpoint};
use flute::sender::{
    CacheControl, CarouselRepeatMode, Config, Event, FDTPublishMode, ObjectDesc, PriorityQueue,
    Sender, Subscriber, TOIMaxLength, TargetAcquisition, TransferConfig,
};
use serde_json::{json, Value};
use std::io::{Read, Seek, SeekFrom};
use std::sync::{Arc, Mutex};
use std::time::{Duration, SystemTime};

#[derive(Clone, Copy, Debug, PartialEq, Eq, Hash)]
pub enum Fec {
    NoCode,
    Rs28,
    Rs28Us,
    RaptorQ,
    Raptor,
}

pub const ALL_FEC: [Fec; 5] = [Fec::NoCode, Fec::Rs28, Fec::Rs28Us, Fec::RaptorQ, Fec::Raptor];

impl Fec {
    pub fn id(self) -> u8 {
        match self {
            Fec::NoCode => 0,
            Fec::Rs28 => 5,
            Fec::Rs28Us => 129,
            Fec::RaptorQ => 6,
            Fec::Raptor => 1,
        }
    }
    pub fn name(self) -> &'static str {
        match self {
            Fec::NoCode => "NoCode",
            Fec::Rs28 => "RS28",
            Fec::Rs28Us => "RS28US",
            Fec::RaptorQ => "RaptorQ",
            Fec::Raptor => "Raptor",
        }
    }
    pub fn is_rs(self) -> bool {
        matches!(self, Fec::Rs28 | Fec::Rs28Us)
    }
    /// maximum number of source blocks the wire format can number (SBN field
    /// width of the FEC payload id, and the Z field for RaptorQ / Raptor)
    pub fn max_blocks(self) -> u64 {
        match self {
            Fec::NoCode => 65536,
            Fec::Rs28 => 1 << 24,
            Fec::Rs28Us => 1 << 32,
            Fec::RaptorQ => 255,
            Fec::Raptor => 65535,
        }
    }
    pub fn max_l(self) -> u64 {
        match self {
            Fec::RaptorQ => (1u64 << 40) - 1,
            _ => (1u64 << 48) - 1,
        }
    }
}

#[derive(Clone, Debug, PartialEq, Eq, Hash)]
pub struct OtiSpec {
    pub fec: Fec,
    pub e: u16,
    pub b: u32,
    pub parity: u32,
    pub inband_fti: bool,
    pub al: u8,
    /// RaptorQ: number of sub-blocks N (RFC 6330); 1 everywhere else
    pub n: u16,
}

impl OtiSpec {
    pub fn new(fec: Fec, e: u16, b: u32, parity: u32) -> OtiSpec {
        OtiSpec {
            fec,
            e,
            b,
            parity,
            inband_fti: true,
            al: 1,
            n: 1,
        }
    }
    pub fn build(&self) -> Result<Oti, String> {
        let mut o = match self.fec {
            Fec::NoCode => Oti::new_no_code(self.e, self.b as u16),
            Fec::Rs28 => Oti::new_reed_solomon_rs28(self.e, self.b as u8, self.parity as u8)
                .map_err(|e| format!("{:?}", e))?,
            Fec::Rs28Us => {
                Oti::new_reed_solomon_rs28_under_specified(self.e, self.b as u16, self.parity as u16)
                    .map_err(|e| format!("{:?}", e))?
            }
            Fec::RaptorQ => Oti::new_raptorq(self.e, self.b as u16, self.parity as u16, self.n.max(1), self.al)
                .map_err(|e| format!("{:?}", e))?,
            Fec::Raptor => Oti::new_raptor(self.e, self.b as u16, self.parity as u16, 1, self.al)
                .map_err(|e| format!("{:?}", e))?,
        };
        o.inband_fti = self.inband_fti;
        Ok(o)
    }
    /// maximum transfer length the scheme can carry with these parameters
    /// (independent of flute: min(field width, E * B * max number of blocks))
    pub fn max_transfer_length(&self) -> u128 {
        let cap = self.e as u128 * self.b as u128 * self.fec.max_blocks() as u128;
        cap.min(self.fec.max_l() as u128)
    }
    pub fn json(&self) -> Value {
        json!({"fec": self.fec.name(), "E": self.e, "B": self.b, "parity": self.parity,
               "inband_fti": self.inband_fti, "Al": self.al, "N": self.n})
    }
}

#[derive(Clone, Copy, Debug, PartialEq, Eq, Hash)]
pub enum CencSpec {
    Null,
    Zlib,
    Deflate,
    Gzip,
}

impl CencSpec {
    pub fn to_flute(self) -> Cenc {
        match self {
            CencSpec::Null => Cenc::Null,
            CencSpec::Zlib => Cenc::Zlib,
            CencSpec::Deflate => Cenc::Deflate,
            CencSpec::Gzip => Cenc::Gzip,
        }
    }
    pub fn id(self) -> u8 {
        match self {
            CencSpec::Null => 0,
            CencSpec::Zlib => 1,
            CencSpec::Deflate => 2,
            CencSpec::Gzip => 3,
        }
    }
    pub fn name(self) -> &'static str {
        match self {
            CencSpec::Null => "null",
            CencSpec::Zlib => "zlib",
            CencSpec::Deflate => "deflate",
            CencSpec::Gzip => "gzip",
        }
    }
}

pub const ALL_CENC: [CencSpec; 4] = [CencSpec::Null, CencSpec::Zlib, CencSpec::Deflate, CencSpec::Gzip];

/// independent inflate of a transfer-encoded object
pub fn inflate(cenc: CencSpec, data: &[u8]) -> Result<Vec<u8>, String> {
    let mut out = vec![];
    let r = match cenc {
        CencSpec::Null => {
            out.extend_from_slice(data);
            Ok(0)
        }
        CencSpec::Zlib => flate2::read::ZlibDecoder::new(data).read_to_end(&mut out),
        CencSpec::Deflate => flate2::read::DeflateDecoder::new(data).read_to_end(&mut out),
        CencSpec::Gzip => flate2::read::GzDecoder::new(data).read_to_end(&mut out),
    };
    r.map(|_| out).map_err(|e| e.to_string())
}

/// independent content encoding (the transfer-encoded form of `data`)
pub fn deflate(cenc: CencSpec, data: &[u8]) -> Vec<u8> {
    use std::io::Write;
    let lvl = flate2::Compression::default();
    match cenc {
        CencSpec::Null => data.to_vec(),
        CencSpec::Zlib => {
            let mut e = flate2::write::ZlibEncoder::new(vec![], lvl);
            e.write_all(data).unwrap();
            e.finish().unwrap()
        }
        CencSpec::Deflate => {
            let mut e = flate2::write::DeflateEncoder::new(vec![], lvl);
            e.write_all(data).unwrap();
            e.finish().unwrap()
        }
        CencSpec::Gzip => {
            let mut e = flate2::write::GzEncoder::new(vec![], lvl);
            e.write_all(data).unwrap();
            e.finish().unwrap()
        }
    }
}

#[derive(Clone, Copy, Debug, PartialEq, Eq, Hash)]
pub enum CarouselSpec {
    DelayMs(u64),
    IntervalMs(u64),
}

impl CarouselSpec {
    pub fn to_flute(self) -> CarouselRepeatMode {
        match self {
            CarouselSpec::DelayMs(ms) => {
                CarouselRepeatMode::DelayBetweenTransfers(Duration::from_millis(ms))
            }
            CarouselSpec::IntervalMs(ms) => {
                CarouselRepeatMode::IntervalBetweenStartTimes(Duration::from_millis(ms))
            }
        }
    }
}

#[derive(Clone, Copy, Debug, PartialEq, Eq, Hash)]
pub enum CacheSpec {
    NoCache,
    MaxStale,
    ExpiresSecs(u64),
    /// seconds after the virtual epoch
    ExpiresAtSecs(u64),
}

/// Read schedule of a stream source
#[derive(Clone, Debug, PartialEq, Eq, Hash)]
pub enum SourceSpec {
    Buffer,
    /// in-memory seekable stream honouring full reads
    Cursor,
    /// seekable stream returning short reads: chunk sizes cycle through the list
    Chunked(Vec<usize>),
    /// like Chunked, but handed to flute positioned at the given offset (not at its start)
    ChunkedAt(Vec<usize>, usize),
    /// a real file on disk (std::fs::File)
    File,
    /// BufReader over a real file
    BufFile,
    /// in-memory seekable stream whose n-th seek (counted from 1) fails once with an I/O error; works normally before and after
    SeekFailsOnce(usize),
    /// flute's own create_from_file, content read into memory
    PathRam,
    /// flute's own create_from_file, content streamed from the file at every transfer
    PathNoRam,
}

#[derive(Clone, Debug)]
pub struct ObjSpec {
    pub data: Vec<u8>,
    pub content_type: String,
    pub location: String,
    pub cenc: CencSpec,
    pub inband_cenc: bool,
    pub md5: bool,
    pub oti: Option<OtiSpec>,
    pub max_transfer_count: u32,
    pub carousel: Option<CarouselSpec>,
    pub cache: Option<CacheSpec>,
    pub groups: Option<Vec<String>>,
    pub e_tag: Option<String>,
    pub priority: u32,
    pub source: SourceSpec,
    /// ms after the virtual epoch
    pub start_ms: Option<u64>,
    pub target_ms: Option<u64>,
    /// WithinTime target, ms after the epoch
    pub deadline_ms: Option<i64>,
    pub immediate_stop: Option<bool>,
}

impl ObjSpec {
    pub fn new(data: Vec<u8>, location: &str) -> ObjSpec {
        ObjSpec {
            data,
            content_type: "application/octet-stream".into(),
            location: location.to_string(),
            cenc: CencSpec::Null,
            inband_cenc: true,
            md5: true,
            oti: None,
            max_transfer_count: 1,
            carousel: None,
            cache: None,
            groups: None,
            e_tag: None,
            priority: 0,
            source: SourceSpec::Buffer,
            start_ms: None,
            target_ms: None,
            deadline_ms: None,
            immediate_stop: None,
        }
    }
    pub fn json(&self) -> Value {
        json!({"len": self.data.len(), "location": self.location, "cenc": self.cenc.name(),
            "inband_cenc": self.inband_cenc, "md5": self.md5,
            "oti": self.oti.as_ref().map(|o| o.json()), "transfers": self.max_transfer_count,
            "carousel": format!("{:?}", self.carousel), "cache": format!("{:?}", self.cache),
            "groups": self.groups, "etag": self.e_tag, "prio": self.priority,
            "source": format!("{:?}", self.source), "start_ms": self.start_ms,
            "target_ms": self.target_ms, "deadline_ms": self.deadline_ms,
            "immediate_stop": self.immediate_stop, "content_type": self.content_type})
    }
}

#[derive(Clone, Debug)]
pub struct SenderSpec {
    pub tsi: u64,
    pub oti: OtiSpec,
    pub fdt_duration_s: u64,
    pub fdt_carousel: CarouselSpec,
    pub fdt_start_id: u32,
    pub fdt_cenc: CencSpec,
    pub inband_sct: bool,
    pub full_fdt: bool,
    /// (priority, multiplex_files)
    pub queues: Vec<(u32, u32)>,
    pub interleave: u8,
    pub rfc3926: bool,
    pub toi_bits: u8,
    pub toi_initial: Option<u128>,
    pub groups: Option<Vec<String>>,
}

impl SenderSpec {
    pub fn new(oti: OtiSpec) -> SenderSpec {
        SenderSpec {
            tsi: 1,
            oti,
            fdt_duration_s: 3600,
            fdt_carousel: CarouselSpec::DelayMs(1000),
            fdt_start_id: 1,
            fdt_cenc: CencSpec::Null,
            inband_sct: true,
            full_fdt: true,
            queues: vec![(0, 3)],
            interleave: 4,
            rfc3926: false,
            toi_bits: 112,
            toi_initial: Some(1),
            groups: None,
        }
    }
    pub fn config(&self) -> Config {
        let mut c = Config {
            fdt_duration: Duration::from_secs(self.fdt_duration_s),
            fdt_carousel_mode: self.fdt_carousel.to_flute(),
            fdt_start_id: self.fdt_start_id,
            fdt_cenc: self.fdt_cenc.to_flute(),
            fdt_inband_sct: self.inband_sct,
            fdt_publish_mode: if self.full_fdt {
                FDTPublishMode::FullFDT
            } else {
                FDTPublishMode::ObjectsBeingTransferred
            },
            priority_queues: std::collections::BTreeMap::new(),
            interleave_blocks: self.interleave,
            profile: if self.rfc3926 {
                flute::sender::Profile::RFC3926
            } else {
                flute::sender::Profile::RFC6726
            },
            toi_max_length: toi_len(self.toi_bits),
            toi_initial_value: self.toi_initial,
            groups: self.groups.clone(),
        };
        for (p, m) in &self.queues {
            c.set_priority_queue(*p, PriorityQueue::new(*m));
        }
        c
    }
    pub fn json(&self) -> Value {
        json!({"tsi": self.tsi, "oti": self.oti.json(), "fdt_duration_s": self.fdt_duration_s,
            "fdt_carousel": format!("{:?}", self.fdt_carousel), "fdt_start_id": self.fdt_start_id,
            "fdt_cenc": self.fdt_cenc.name(), "sct": self.inband_sct, "rfc3926": self.rfc3926, "full_fdt": self.full_fdt,
            "queues": self.queues, "interleave": self.interleave, "toi_bits": self.toi_bits,
            "toi_initial": self.toi_initial.map(|v| v.to_string()), "groups": self.groups})
    }
    pub fn endpoint(&self) -> UDPEndpoint {
        UDPEndpoint::new(None, "224.0.0.1".to_string(), 3400)
    }
    pub fn sender(&self) -> Result<Sender, String> {
        let oti = self.oti.build()?;
        Ok(Sender::new(self.endpoint(), self.tsi, &oti, &self.config()))
    }
}

pub fn toi_len(bits: u8) -> TOIMaxLength {
    match bits {
        16 => TOIMaxLength::ToiMax16,
        32 => TOIMaxLength::ToiMax32,
        48 => TOIMaxLength::ToiMax48,
        64 => TOIMaxLength::ToiMax64,
        80 => TOIMaxLength::ToiMax80,
        _ => TOIMaxLength::ToiMax112,
    }
}

// ------------------------------------------------------------ stream sources

/// Seekable in-memory stream with a scripted short-read schedule. Records the
/// seeks it receives.
/// schedule entry of a ChunkedReader: this call returns ErrorKind::Interrupted instead of bytes
pub const CHUNK_EINTR: usize = usize::MAX;

#[derive(Debug)]
pub struct ChunkedReader {
    data: Arc<Vec<u8>>,
    pos: usize,
    chunks: Vec<usize>,
    next: usize,
    pub log: Arc<Mutex<Vec<String>>>,
    /// this seek (counted from 1) fails once
    pub fail_seek: Option<usize>,
    seeks: usize,
}

impl ChunkedReader {
    pub fn new(data: Arc<Vec<u8>>, chunks: Vec<usize>) -> (ChunkedReader, Arc<Mutex<Vec<String>>>) {
        let log = Arc::new(Mutex::new(vec![]));
        (
            ChunkedReader {
                data,
                pos: 0,
                chunks,
                next: 0,
                log: log.clone(),
                fail_seek: None,
                seeks: 0,
            },
            log,
        )
    }
}

impl Read for ChunkedReader {
    fn read(&mut self, buf: &mut [u8]) -> std::io::Result<usize> {
        let left = self.data.len() - self.pos.min(self.data.len());
        let mut n = buf.len().min(left);
        if !self.chunks.is_empty() && n > 0 {
            let c = self.chunks[self.next % self.chunks.len()].max(1);
            self.next += 1;
            if c == CHUNK_EINTR {
                // a signal arrived before any byte was transferred: the Read contract says 'retry'
                return Err(std::io::Error::new(std::io::ErrorKind::Interrupted, "interrupted (EINTR)"));
            }
            n = n.min(c);
        }
        buf[..n].copy_from_slice(&self.data[self.pos..self.pos + n]);
        self.log.lock().unwrap().push(format!("read({},{})", self.pos, n));
        self.pos += n;
        Ok(n)
    }
}

impl Seek for ChunkedReader {
    fn seek(&mut self, pos: SeekFrom) -> std::io::Result<u64> {
        let np: i128 = match pos {
            SeekFrom::Start(p) => p as i128,
            SeekFrom::End(d) => self.data.len() as i128 + d as i128,
            SeekFrom::Current(d) => self.pos as i128 + d as i128,
        };
        if np < 0 {
            return Err(std::io::Error::new(std::io::ErrorKind::InvalidInput, "negative seek"));
        }
        self.seeks += 1;
        if self.fail_seek == Some(self.seeks) {
            self.log.lock().unwrap().push(format!("seek #{} fails", self.seeks));
            return Err(std::io::Error::new(std::io::ErrorKind::Other, "transient I/O error (injected)"));
        }
        if let SeekFrom::Start(p) = pos {
            self.log.lock().unwrap().push(format!("seek_start({})", p));
        }
        self.pos = np as usize;
        Ok(np as u64)
    }
}

/// A sparse seekable stream that reports `len` bytes without holding them
/// (zeros). Used to offer objects far above what can be allocated.
#[derive(Debug)]
pub struct SparseReader {
    pub len: u64,
    pub pos: u64,
}

impl Read for SparseReader {
    fn read(&mut self, buf: &mut [u8]) -> std::io::Result<usize> {
        let left = self.len.saturating_sub(self.pos);
        let n = (buf.len() as u64).min(left) as usize;
        for b in &mut buf[..n] {
            *b = 0;
        }
        self.pos += n as u64;
        Ok(n)
    }
}

impl Seek for SparseReader {
    fn seek(&mut self, pos: SeekFrom) -> std::io::Result<u64> {
        let np: i128 = match pos {
            SeekFrom::Start(p) => p as i128,
            SeekFrom::End(d) => self.len as i128 + d as i128,
            SeekFrom::Current(d) => self.pos as i128 + d as i128,
        };
        self.pos = np.max(0) as u64;
        Ok(self.pos)
    }
}

/// A seekable stream of `len` bytes whose content is a function of the offset (the 8-byte word at index w is
/// w * PATTERN_K, little endian): objects larger than memory whose every byte can still be checked.
/// `chunk` caps the bytes returned by one read() (short reads).
#[derive(Debug)]
pub struct PatternReader {
    pub len: u64,
    pub pos: u64,
    pub chunk: usize,
}

pub const PATTERN_K: u64 = 0x9E37_79B9_7F4A_7C15;

pub fn pattern_byte(off: u64) -> u8 {
    ((off / 8).wrapping_mul(PATTERN_K) >> (8 * (off % 8))) as u8
}

/// does `data` equal the pattern at [off, off + data.len()) ?
pub fn pattern_matches(off: u64, data: &[u8]) -> bool {
    let mut o = off;
    let mut i = 0;
    while i < data.len() && o % 8 != 0 {
        if data[i] != pattern_byte(o) {
            return false;
        }
        i += 1;
        o += 1;
    }
    while i + 8 <= data.len() {
        let w = (o / 8).wrapping_mul(PATTERN_K).to_le_bytes();
        if data[i..i + 8] != w {
            return false;
        }
        i += 8;
        o += 8;
    }
    while i < data.len() {
        if data[i] != pattern_byte(o) {
            return false;
        }
        i += 1;
        o += 1;
    }
    true
}

impl Read for PatternReader {
    fn read(&mut self, buf: &mut [u8]) -> std::io::Result<usize> {
        let left = self.len.saturating_sub(self.pos);
        let n = (buf.len() as u64).min(left).min(self.chunk.max(1) as u64) as usize;
        let mut o = self.pos;
        let mut i = 0;
        while i < n && o % 8 != 0 {
            buf[i] = pattern_byte(o);
            i += 1;
            o += 1;
        }
        while i + 8 <= n {
            buf[i..i + 8].copy_from_slice(&(o / 8).wrapping_mul(PATTERN_K).to_le_bytes());
            i += 8;
            o += 8;
        }
        while i < n {
            buf[i] = pattern_byte(o);
            i += 1;
            o += 1;
        }
        self.pos += n as u64;
        Ok(n)
    }
}

impl Seek for PatternReader {
    fn seek(&mut self, pos: SeekFrom) -> std::io::Result<u64> {
        let np: i128 = match pos {
            SeekFrom::Start(p) => p as i128,
            SeekFrom::End(d) => self.len as i128 + d as i128,
            SeekFrom::Current(d) => self.pos as i128 + d as i128,
        };
        self.pos = np.max(0) as u64;
        Ok(self.pos)
    }
}

pub fn transfer_config(o: &ObjSpec) -> Result<TransferConfig, String> {
    let oti = match &o.oti {
        Some(s) => Some(s.build()?),
        None => None,
    };
    Ok(TransferConfig {
        max_transfer_count: o.max_transfer_count,
        carousel_mode: o.carousel.map(|c| c.to_flute()),
        target_acquisition: match (o.target_ms, o.deadline_ms) {
            (Some(ms), _) => Some(TargetAcquisition::WithinDuration(Duration::from_millis(ms))),
            (None, Some(ms)) => Some(TargetAcquisition::WithinTime(if ms >= 0 {
                util::at(ms as u64)
            } else {
                util::t0() - Duration::from_millis((-ms) as u64)
            })),
            _ => None,
        },
        cache_control: o.cache.map(|c| match c {
            CacheSpec::NoCache => CacheControl::NoCache,
            CacheSpec::MaxStale => CacheControl::MaxStale,
            CacheSpec::ExpiresSecs(s) => CacheControl::Expires(Duration::from_secs(s)),
            CacheSpec::ExpiresAtSecs(s) => CacheControl::ExpiresAt(util::t0() + Duration::from_secs(s)),
        }),
        groups: o.groups.clone(),
        cenc: o.cenc.to_flute(),
        inband_cenc: o.inband_cenc,
        oti,
        transfer_start_time: o.start_ms.map(util::at),
        toi: None,
        optel_propagator: None,
        e_tag: o.e_tag.clone(),
        allow_immediate_stop_before_first_transfer: o.immediate_stop,
    })
}

pub struct BuiltObject {
    pub desc: Box<ObjectDesc>,
    pub seek_log: Option<Arc<Mutex<Vec<String>>>>,
    pub tmp_path: Option<std::path::PathBuf>,
}

static TMP_SEQ: std::sync::atomic::AtomicU64 = std::sync::atomic::AtomicU64::new(0);

pub fn sandbox_dir() -> std::path::PathBuf {
    static DIR: std::sync::OnceLock<std::path::PathBuf> = std::sync::OnceLock::new();
    DIR.get_or_init(|| {
        let d = crate::report::verif_root().join("harness").join("target").join("sandbox");
        std::fs::create_dir_all(&d).ok();
        d
    })
    .clone()
}

pub fn build_object(o: &ObjSpec) -> Result<BuiltObject, String> {
    let url = url::Url::parse(&o.location).map_err(|e| format!("url: {}", e))?;
    let cfg = transfer_config(o)?;
    let mut seek_log = None;
    let mut tmp_path = None;
    // objects of odd length go through the typed-builder front ends (CreateFromBuffer / CreateFromStream /
    // CreateFromFile, what the flute-sender binary uses), the others through the positional constructors
    let via_builder = o.data.len() % 2 == 1;
    let desc = match &o.source {
        SourceSpec::Buffer if via_builder => flute::sender::CreateFromBuffer::builder()
            .content(o.data.clone()).content_type(o.content_type.clone()).content_location(url.clone()).compute_md5(o.md5).config(cfg).build().create(),
        SourceSpec::Cursor if via_builder => flute::sender::CreateFromStream::builder()
            .stream(Box::new(std::io::Cursor::new(o.data.clone()))).content_type(o.content_type.clone()).content_location(url.clone()).compute_md5(o.md5).config(cfg).build().create(),
        SourceSpec::PathRam | SourceSpec::PathNoRam if via_builder => {
            let n = TMP_SEQ.fetch_add(1, std::sync::atomic::Ordering::Relaxed);
            let p = sandbox_dir().join(format!("src-{}-{}.bin", std::process::id(), n));
            std::fs::write(&p, &o.data).map_err(|e| e.to_string())?;
            tmp_path = Some(p.clone());
            flute::sender::CreateFromFile::builder()
                .path(p).content_location(Some(url.clone())).content_type(o.content_type.clone()).cache_in_ram(o.source == SourceSpec::PathRam).compute_md5(o.md5).config(cfg).build().create()
        }
        SourceSpec::Buffer => {
            ObjectDesc::create_from_buffer(o.data.clone(), &o.content_type, &url, o.md5, cfg)
        }
        SourceSpec::Cursor => ObjectDesc::create_from_stream(
            Box::new(std::io::Cursor::new(o.data.clone())),
            &o.content_type,
            &url,
            o.md5,
            cfg,
        ),
        SourceSpec::Chunked(chunks) => {
            let (r, log) = ChunkedReader::new(Arc::new(o.data.clone()), chunks.clone());
            seek_log = Some(log);
            ObjectDesc::create_from_stream(Box::new(r), &o.content_type, &url, o.md5, cfg)
        }
        SourceSpec::ChunkedAt(chunks, at) => {
            let (mut r, log) = ChunkedReader::new(Arc::new(o.data.clone()), chunks.clone());
            r.pos = (*at).min(o.data.len());
            seek_log = Some(log);
            ObjectDesc::create_from_stream(Box::new(r), &o.content_type, &url, o.md5, cfg)
        }
        SourceSpec::SeekFailsOnce(n) => {
            let (mut r, log) = ChunkedReader::new(Arc::new(o.data.clone()), vec![]);
            r.fail_seek = Some(*n);
            seek_log = Some(log);
            ObjectDesc::create_from_stream(Box::new(r), &o.content_type, &url, o.md5, cfg)
        }
        SourceSpec::PathRam | SourceSpec::PathNoRam => {
            let n = TMP_SEQ.fetch_add(1, std::sync::atomic::Ordering::Relaxed);
            let p = sandbox_dir().join(format!("src-{}-{}.bin", std::process::id(), n));
            std::fs::write(&p, &o.data).map_err(|e| e.to_string())?;
            tmp_path = Some(p.clone());
            ObjectDesc::create_from_file(&p, Some(&url), &o.content_type, o.source == SourceSpec::PathRam, o.md5, cfg)
        }
        SourceSpec::File | SourceSpec::BufFile => {
            let n = TMP_SEQ.fetch_add(1, std::sync::atomic::Ordering::Relaxed);
            let p = sandbox_dir().join(format!("src-{}-{}.bin", std::process::id(), n));
            std::fs::write(&p, &o.data).map_err(|e| e.to_string())?;
            let f = std::fs::File::open(&p).map_err(|e| e.to_string())?;
            tmp_path = Some(p);
            if o.source == SourceSpec::File {
                ObjectDesc::create_from_stream(Box::new(f), &o.content_type, &url, o.md5, cfg)
            } else {
                ObjectDesc::create_from_stream(
                    Box::new(std::io::BufReader::new(f)),
                    &o.content_type,
                    &url,
                    o.md5,
                    cfg,
                )
            }
        }
    };
    let desc = desc.map_err(|e| format!("{:?}", e))?;
    Ok(BuiltObject {
        desc,
        seek_log,
        tmp_path,
    })
}

// ------------------------------------------------------------ subscriber

#[derive(Clone, Debug, PartialEq, Eq)]
pub enum SubEv {
    Start(u128, SystemTime),
    Stop(u128, SystemTime),
}

#[derive(Default)]
pub struct Recorder {
    pub events: Mutex<Vec<(usize, SubEv)>>,
    /// number of packets emitted so far (set by the driver) so that events can
    /// be positioned in the stream
    pub pkt_index: std::sync::atomic::AtomicUsize,
}

impl Subscriber for Recorder {
    fn on_sender_event(&self, evt: &Event, now: SystemTime) {
        let i = self.pkt_index.load(std::sync::atomic::Ordering::Relaxed);
        let e = match evt {
            Event::StartTransfer(f) => SubEv::Start(f.toi, now),
            Event::StopTransfer(f) => SubEv::Stop(f.toi, now),
        };
        self.events.lock().unwrap().push((i, e));
    }
}

// ------------------------------------------------------------ stream

#[derive(Clone, Debug)]
pub struct SPkt {
    pub bytes: Vec<u8>,
    /// virtual time of the read() call that returned it
    pub t: SystemTime,
    pub dec: wire::Pkt,
}

impl SPkt {
    pub fn payload(&self) -> &[u8] {
        &self.bytes[self.dec.payload_off..]
    }
    pub fn toi(&self) -> u128 {
        self.dec.lct.toi
    }
}

pub fn decode_stream_pkt(bytes: Vec<u8>, t: SystemTime) -> Result<SPkt, String> {
    let dec = wire::decode(&bytes)?;
    Ok(SPkt { bytes, t, dec })
}

/// Step budget for one `Sender::read`: generous (loading a 255-block RaptorQ
/// window is not a loop of flute's), but finite.
pub const READ_BUDGET: u64 = 2_000_000;
pub const PUSH_BUDGET: u64 = 2_000_000;

/// Drain `read(now)` until None; returns the packets. `cap` bounds the number
/// of packets accepted at one instant (termination oracle of C12).
pub fn drain(
    sender: &mut Sender,
    now: SystemTime,
    cap: usize,
    out: &mut Vec<SPkt>,
    rec: Option<&Recorder>,
) -> Result<usize, String> {
    let mut n = 0;
    loop {
        if let Some(r) = rec {
            r.pkt_index.store(out.len(), std::sync::atomic::Ordering::Relaxed);
        }
        let p = util::with_budget(READ_BUDGET, || sender.read(now));
        match p {
            None => return Ok(n),
            Some(b) => {
                out.push(decode_stream_pkt(b, now).map_err(|e| format!("undecodable packet emitted: {}", e))?);
                n += 1;
                if n > cap {
                    return Err(format!("more than {} packets at one instant", cap));
                }
            }
        }
    }
}

/// Reference partition (RFC 5052 §9.1) in 128-bit arithmetic.
#[derive(Clone, Copy, Debug, PartialEq, Eq)]
pub struct Part {
    pub t: u128,
    pub n: u128,
    pub a_large: u128,
    pub a_small: u128,
    pub nb_large: u128,
}

pub fn ref_partition(b: u128, l: u128, e: u128) -> Part {
    if b == 0 || e == 0 {
        return Part { t: 0, n: 0, a_large: 0, a_small: 0, nb_large: 0 };
    }
    let t = l.div_ceil(e);
    let n = t.div_ceil(b);
    if n == 0 {
        return Part { t: 0, n: 0, a_large: 0, a_small: 0, nb_large: 0 };
    }
    let a_large = t.div_ceil(n);
    let a_small = t / n;
    Part {
        t,
        n,
        a_large,
        a_small,
        nb_large: t - a_small * n,
    }
}

impl Part {
    pub fn k(&self, sbn: u128) -> u128 {
        if sbn < self.nb_large {
            self.a_large
        } else {
            self.a_small
        }
    }
    /// first symbol index of block sbn
    pub fn first_symbol(&self, sbn: u128) -> u128 {
        let nl = sbn.min(self.nb_large);
        let ns = sbn.saturating_sub(self.nb_large);
        nl * self.a_large + ns * self.a_small
    }
    pub fn offset(&self, sbn: u128, e: u128) -> u128 {
        self.first_symbol(sbn) * e
    }
    pub fn block_bytes(&self, sbn: u128, l: u128, e: u128) -> u128 {
        let off = self.offset(sbn, e);
        (self.k(sbn) * e).min(l.saturating_sub(off))
    }
}

/// Generate object bytes of length n, deterministic, not compressible to
/// nothing (so that cenc objects keep several symbols) but with some structure.
pub fn gen_bytes(rng: &mut Rng, n: usize) -> Vec<u8> {
    let mode = rng.below(4);
    let mut v = rng.bytes(n);
    match mode {
        0 => {}
        1 => {
            // text-like, compressible
            for b in v.iter_mut() {
                *b = b'a' + (*b % 7);
            }
        }
        2 => {
            // runs
            let mut i = 0;
            while i < n {
                let run = (v[i] as usize % 23) + 1;
                let val = v[i];
                for j in i..(i + run).min(n) {
                    v[j] = val;
                }
                i += run;
            }
        }
        _ => {
            // position-tagged so that misplaced symbols are visible
            for (i, b) in v.iter_mut().enumerate() {
                *b = (i as u8).wrapping_mul(31) ^ (*b & 0x0F);
            }
        }
    }
    v
}

pub fn md5_b64(data: &[u8]) -> String {
    use base64::Engine;
    base64::engine::general_purpose::STANDARD.encode(md5::compute(data).0)
}
