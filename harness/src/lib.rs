//! Shared components of the runtime-monitoring harness for ypo/flute.
pub mod alloc;
pub mod gen;
pub mod hostile;
pub mod mwriter;
pub mod oracle;
pub mod report;
pub mod scenario;
pub mod session;
pub mod small;
pub mod util;
pub mod wire;
