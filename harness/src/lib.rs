//! Shared components of the runtime-monitoring harness for ypo/flute.
pub mod mwriter;
pub mod report;
pub mod scenario;
pub mod session;
pub mod util;
pub mod wire;
