//! C02 - loss recovery: any loss / duplication (order preserved) that leaves
//! k symbols per block (RS) or all k source symbols (other schemes), and an FDT
//! instance listing the object, still delivers the object complete and exact.
use serde_json::json;
use std::sync::Arc;
use vh::gen;
use vh::mwriter::WState;
use vh::report::*;
use vh::scenario::*;
use vh::session::*;
use vh::small::*;
use vh::util::{self, Rng};

struct Shape {
    cfg_name: String,
    em: Emitted,
    fdts: Vec<FdtView>,
    views: Vec<ObjView>,
    /// the FDT copy may arrive after the first object packets (before the close-object packet)
    late_fdt: bool,
}

fn make_shape(name: String, em: Emitted) -> Shape {
    let fdts = fdt_views(&em);
    let views = (0..em.objs.len()).filter_map(|i| obj_view(&em, i)).collect();
    Shape { cfg_name: name, em, fdts, views, late_fdt: false }
}

/// run one delivery and judge; returns (was_decodable, completed)
fn deliver(sh: &Shape, delivered: &[usize], tag: &str, out: &mut Vec<Violation>) -> (u64, u64) {
    deliver_paced(sh, delivered, tag, None, out)
}

/// `slow_s`: the packets reach the receiver that many seconds apart (a low-bitrate channel, heavy loss), the receiver
/// runs with its default object timeout (10 s of INACTIVITY) and the application calls cleanup() after every push:
/// no gap comes near the timeout, so housekeeping must not change what is delivered
fn deliver_paced(sh: &Shape, delivered: &[usize], tag: &str, slow_s: Option<u64>, out: &mut Vec<Violation>) -> (u64, u64) {
    let em = &sh.em;
    let r = util::guarded(|| {
        match slow_s {
            None => receive(&em.spec.endpoint(), delivered.iter().map(|k| (em.stream[*k].bytes.as_slice(), em.stream[*k].t)), &RxOpts::default(), None),
            Some(gap) => {
                let mut o = RxOpts::default();
                o.config.object_timeout = Some(std::time::Duration::from_secs(10));
                o.cleanup_every_push = true;
                let t0 = delivered.first().map(|k| em.stream[*k].t).unwrap_or(util::t0());
                receive(&em.spec.endpoint(), delivered.iter().enumerate().map(|(n, k)| (em.stream[*k].bytes.as_slice(), t0 + std::time::Duration::from_secs(gap * n as u64))), &o, None)
            }
        }
    });
    let mut n_dec = 0;
    let mut n_ok = 0;
    let wit = |extra: serde_json::Value| {
        json!({"shape": sh.cfg_name, "session": em.json(), "delivered_indices": delivered, "detail": extra,
            "stream": em.stream.iter().map(|p| format!("toi={} sbn={} esi={}{}", p.toi(), p.dec.sbn, p.dec.esi, if p.dec.lct.b {" B"} else {""})).collect::<Vec<_>>()})
    };
    let rx = match r {
        Ok(rx) => rx,
        Err(p) => {
            let v = if p.is_step_budget() {
                Violation::new("hang", format!("step budget exhausted at {}", p.step_site())).with("site", p.step_site())
            } else {
                Violation::new("panic", format!("{} @ {}", p.msg, p.short_loc())).with("site", p.file())
            };
            out.push(v.with("tag", tag).witness(wit(json!(null))));
            return (0, 0);
        }
    };
    for ov in &sh.views {
        let i = em.obj_index_of(ov.toi).unwrap();
        if !decodable_ext(em, &sh.fdts, ov, delivered, sh.late_fdt) {
            continue;
        }
        n_dec += 1;
        let ws = rx.log.for_toi(ov.toi);
        let completes: Vec<_> = ws.iter().filter(|w| w.state == WState::Complete).collect();
        let oti = em.oti_of(i);
        let traces: Vec<String> = ws.iter().map(|w| rx.log.abstract_trace_of(w.wid)).collect();
        // which object packets were lost
        let lost: Vec<String> = ov.idx.iter().filter(|k| !delivered.contains(k)).map(|k| format!("{}:{}{}", em.stream[*k].dec.sbn, em.stream[*k].dec.esi, if em.stream[*k].dec.lct.b { "B" } else { "" })).collect();
        let b_delivered_early = delivered.iter().position(|k| em.stream[*k].toi() == ov.toi && em.stream[*k].dec.lct.b);
        if completes.is_empty() {
            out.push(Violation::new("recoverable_not_delivered", format!(
                "{}: toi {} is decodable from the delivered packets (lost sbn:esi = {:?}) but no writer completed; writers: {:?}",
                sh.cfg_name, ov.toi, lost, traces))
                .with("fec", oti.fec.name()).with("interleave_gt1", em.spec.interleave > 1).with("transfers", em.objs[i].max_transfer_count)
                .with("inband_fti", oti.inband_fti).with("tag", tag)
                .with("last_writer_state", ws.last().map(|w| format!("{:?}", w.state)).unwrap_or("none".into()))
                .with("b_flag_delivered", b_delivered_early.is_some())
                .with("n_blocks_gt1", ov.part.n > 1)
                .witness(wit(json!({"obj": i, "lost": lost, "writers": traces}))));
        } else {
            n_ok += 1;
        }
        for w in &completes {
            if w.data != em.objs[i].data {
                out.push(Violation::new("bytes", format!("{}: toi {} completed with wrong bytes", sh.cfg_name, ov.toi))
                    .with("fec", oti.fec.name()).with("tag", tag).witness(wit(json!({"obj": i}))));
            }
        }
    }
    (n_dec, n_ok)
}

fn main() {
    let prop = Property {
        id: "C02",
        level: "fault_enumeration",
        rule: "for a catalogue of small sessions (1-3 blocks, equal/unequal, parity 1-2, interleave 1-3, in-band/FDT-only OTI, 1-2 transfers, 5 FEC schemes) EVERY subset of the object packets is delivered in order (the FDT packet first), each also with one duplicated packet; larger sessions get threshold-biased sampled loss (exactly k / k+1 / k-1 symbols per block, bursts, loss of first/last/B-flag packets, FDT copies lost); multi-packet FDT instances and carouselled / twice-transferred objects whose first two copies each arrive in part while their union is sufficient; the decodability predicate is computed from the delivered list alone with the reference partition; predicate true => a Complete writer with exact bytes; a case is one chunk of subsets of one shape, non-trivial when at least one delivery was decodable; distinct = (shape, chunk); spread_over_copies deliveries are repeated with the packets 1-4 s apart, the default 10 s inactivity timeout and cleanup() after every push (housekeeping must not change what is delivered)",
        assumptions: vec![
            "an FDT instance listing the object must be decodable from packets delivered before the object's first delivered packet (sender emits it first, order preserved)".into(),
            "Raptor/RaptorQ repair-only decodes are not demanded (probabilistic codes): all k source symbols required".into(),
        ],
        exhaustive: true,
        budget_quick_s: 150,
        budget_thorough_s: 1800,
    };
    run_property(prop, |ctx| {
        let mut gens = vec![];
        let max_pk = ctx.tier.pick(13usize, 16);
        let cat = small_catalogue(max_pk, false);
        let mut shapes: Vec<Shape> = vec![];
        for c in &cat {
            if let Ok(Ok(em)) = util::guarded(|| build_small(c, ctx.seed)) {
                if em.tois.iter().all(|t| t.is_some()) && em.finished {
                    shapes.push(make_shape(c.name(), em));
                }
            }
        }
        // quick: a seeded third of the catalogue
        let _ = Tier::Quick;
        let shapes = Arc::new(shapes);
        const CHUNK: usize = 256;
        let mut plan: Vec<(usize, usize)> = vec![]; // (shape, chunk)
        for (si, sh) in shapes.iter().enumerate() {
            let n = sh.views[0].idx.len();
            let total = 1usize << n;
            for c in 0..total.div_ceil(CHUNK) {
                plan.push((si, c));
            }
        }
        let n_plan = plan.len();
        let sh2 = shapes.clone();
        gens.push(Gen::new("exhaustive_subsets", n_plan, move |_ctx, i| {
            let (si, c) = plan[i];
            let sh = &sh2[si];
            let ov = &sh.views[0];
            let n = ov.idx.len();
            let fdt_idx: Vec<usize> = sh.em.stream.iter().enumerate().filter(|(_, p)| p.toi() == 0).map(|(k, _)| k).collect();
            let mut cr = CaseResult::default();
            let mut n_dec = 0;
            let mut n_runs = 0;
            let lo = c * CHUNK;
            let hi = ((c + 1) * CHUNK).min(1usize << n);
            for mask in lo..hi {
                // keep stream order: FDT packets that precede the object, then chosen object packets
                let mut delivered: Vec<usize> = vec![];
                for (k, _) in sh.em.stream.iter().enumerate() {
                    if fdt_idx.contains(&k) {
                        delivered.push(k);
                    } else if let Some(pos) = ov.idx.iter().position(|x| *x == k) {
                        if mask >> pos & 1 == 1 {
                            delivered.push(k);
                        }
                    }
                }
                let (d, _) = deliver(sh, &delivered, "subset", &mut cr.violations);
                n_dec += d;
                n_runs += 1;
                // one duplicated packet (position rotates with the mask)
                let objpos: Vec<usize> = delivered.iter().enumerate().filter(|(_, k)| sh.em.stream[**k].toi() != 0).map(|(p, _)| p).collect();
                if !objpos.is_empty() {
                    let p = objpos[mask % objpos.len()];
                    let mut dup = delivered.clone();
                    let at = if mask % 2 == 0 { p + 1 } else { dup.len() };
                    dup.insert(at, delivered[p]);
                    let (d, _) = deliver(sh, &dup, "subset+dup", &mut cr.violations);
                    n_dec += d;
                    n_runs += 1;
                }
                if distinct_sigs(&cr.violations) > 8 || cr.violations.len() > 2000 {
                    break;
                }
            }
            cr.count("deliveries", n_runs);
            cr.count("decodable_deliveries", n_dec);
            if n_dec > 0 {
                cr.shape = Some(util::fnv(&format!("{}|{}", sh.cfg_name, c)));
            }
            cr.states = vec![util::fnv(&sh.cfg_name)];
            if c == 1 {
                cr.sample = Some(json!({"shape": sh.cfg_name, "object_packets": n, "subsets": format!("{}..{}", lo, hi), "decodable": n_dec}));
            }
            limit(&mut cr.violations, 4);
            cr
        }));
        // ---- sampled: larger sessions, multi-packet RS/NoCode-protected FDT, threshold-biased loss
        let n_s = ctx.tier.pick(8000usize, 1_000_000);
        gens.push(Gen::new("sampled_threshold", n_s, move |ctx, i| {
            let mut rng = Rng::keyed(ctx.seed, "C02s", 0, i as u64);
            let o = gen::GenOpts { cenc: i % 4 == 0, max_objects: 3, max_symbols: 40, sources: false, transfers_max: 2, realistic_every: 0, ..Default::default() };
            let (mut spec, objs) = gen::gen_session(&mut rng, &o);
            // full FDT (every instance lists every object) or, for one session in three, ObjectsBeingTransferred mode
            // (an object is listed by SOME instances only; the predicate looks for a decodable instance that lists it)
            spec.full_fdt = i % 3 != 0;
            spec.fdt_cenc = CencSpec::Null;
            let mut cr = CaseResult::default();
            let em = match util::guarded(|| emit(&spec, &objs, &EmitOpts::default())) {
                Ok(Ok(em)) => em,
                _ => return cr, // C01's business
            };
            if em.stream.len() > 3000 {
                return cr;
            }
            let sh = make_shape(format!("sampled{}", i), em);
            let mut n_dec = 0;
            let mut n_runs = 0;
            for round in 0..6 {
                // choose per (toi, sbn) which ESIs survive
                let mut delivered: Vec<usize> = vec![];
                let mode = rng.below(5);
                let mut keep: std::collections::HashSet<usize> = std::collections::HashSet::new();
                for ov in &sh.views {
                    let mut per: std::collections::BTreeMap<u32, Vec<usize>> = Default::default();
                    for k in &ov.idx {
                        per.entry(sh.em.stream[*k].dec.sbn).or_default().push(*k);
                    }
                    for (sbn, mut ks) in per {
                        let k = ov.part.k(sbn as u128) as usize;
                        let target = match mode {
                            0 => k,
                            1 => k + 1,
                            2 => k.saturating_sub(1),
                            3 => ks.len(),
                            _ => rng.range(0, ks.len() as u64) as usize,
                        };
                        if ov.fec.is_rs() {
                            rng.shuffle(&mut ks);
                            for x in ks.iter().take(target) {
                                keep.insert(*x);
                            }
                        } else {
                            // keep all source symbols (first copy), drop a random set of the others
                            let mut seen = std::collections::HashSet::new();
                            for x in &ks {
                                let esi = sh.em.stream[*x].dec.esi;
                                if (esi as usize) < k && seen.insert(esi) && mode != 2 {
                                    keep.insert(*x);
                                } else if rng.chance(1, 2) {
                                    keep.insert(*x);
                                }
                            }
                        }
                    }
                }
                // FDT packets: mostly kept; sometimes drop the first copies / some symbols / whole instances
                let dropped_instances: std::collections::HashSet<u32> = if round >= 4 {
                    sh.fdts.iter().filter(|_| rng.chance(1, 3)).map(|f| f.id).collect()
                } else {
                    Default::default()
                };
                for (k, p) in sh.em.stream.iter().enumerate() {
                    if p.toi() == 0 {
                        let drop = match round {
                            4 => rng.chance(1, 4),
                            5 => rng.chance(1, 2),
                            _ => false,
                        } || p.dec.fdt.map(|f| dropped_instances.contains(&f.1)).unwrap_or(false);
                        if !drop {
                            keep.insert(k);
                        }
                    }
                }
                // objects with several transfers: sometimes every packet of the first transfer is lost
                if round >= 2 {
                    for (oi, ov) in sh.views.iter().enumerate() {
                        if sh.em.objs[oi].max_transfer_count >= 2 && rng.chance(1, 3) {
                            let tr = transfers_of(&sh.em.sub_events, ov.toi);
                            if let Some((s, Some(e))) = tr.first().copied() {
                                for k in s..e {
                                    if sh.em.stream[k].toi() == ov.toi {
                                        keep.remove(&k);
                                    }
                                }
                            }
                        }
                    }
                }
                // burst: drop a window
                if round == 3 && sh.em.stream.len() > 10 {
                    let a = rng.below(sh.em.stream.len() as u64) as usize;
                    let w = rng.range(1, 6) as usize;
                    for k in a..(a + w).min(sh.em.stream.len()) {
                        keep.remove(&k);
                    }
                }
                for k in 0..sh.em.stream.len() {
                    if keep.contains(&k) {
                        delivered.push(k);
                        if rng.chance(1, 20) {
                            delivered.push(k);
                        }
                    }
                }
                let (d, _) = deliver(&sh, &delivered, "sampled", &mut cr.violations);
                n_dec += d;
                n_runs += 1;
            }
            cr.count("deliveries", n_runs);
            cr.count("decodable_deliveries", n_dec);
            if n_dec > 0 {
                let mut s = String::new();
                for (k, o) in sh.em.objs.iter().enumerate() {
                    s.push_str(&obj_shape(o, sh.em.oti_of(k), sh.em.transfer_len[k].unwrap_or(0)));
                }
                cr.shape = Some(util::fnv(&s));
            }
            cr.sample = Some(json!({"session": sh.em.json(), "deliveries": n_runs, "decodable": n_dec}));
            limit(&mut cr.violations, 4);
            cr
        }));
        // ---- ObjectsBeingTransferred mode, objects sent one after the other: object A (two transfers) loses its whole
        //      first transfer and every FDT instance that lists it afterwards; when its second transfer arrives the newest
        //      instance the receiver holds lists another object, an OLDER one lists A
        let n_o = ctx.tier.pick(600usize, 30_000);
        gens.push(Gen::new("older_instance_lists_object", n_o, move |ctx, i| {
            let mut rng = Rng::keyed(ctx.seed, "C02o", 0, i as u64);
            let mut cr = CaseResult::default();
            let mut spec = SenderSpec::new(OtiSpec::new(Fec::NoCode, 4096, 8, 0));
            spec.full_fdt = false;
            spec.queues = vec![(0, 1)];
            spec.interleave = rng.range(1, 3) as u8;
            let nobj = rng.range(2, 4) as usize;
            let mut objs = vec![];
            for k in 0..nobj {
                let fec = *rng.pick(&[Fec::NoCode, Fec::Rs28, Fec::RaptorQ, Fec::Rs28Us]);
                let mut oti = OtiSpec::new(fec, 16, rng.range(2, 4) as u32, if fec == Fec::NoCode { 0 } else { 1 });
                oti.al = 4;
                oti.inband_fti = rng.chance(1, 2);
                let len = rng.range(20, 150) as usize;
                let mut o = ObjSpec::new(rng.bytes(len), &format!("file:///older/{}.bin", k));
                o.oti = Some(oti);
                o.max_transfer_count = if k == 0 { 2 } else { 1 };
                objs.push(o);
            }
            let em = match util::guarded(|| emit(&spec, &objs, &EmitOpts::default())) {
                Ok(Ok(em)) => em,
                _ => return cr,
            };
            if em.tois.iter().any(|t| t.is_none()) || em.stream.len() > 600 {
                return cr;
            }
            let sh = make_shape(format!("older{}", i), em);
            let a = match sh.views.first() {
                Some(v) => v,
                None => return cr,
            };
            let tr = transfers_of(&sh.em.sub_events, a.toi);
            let (s1, e1) = match tr.first().copied() {
                Some((s, Some(e))) => (s, e),
                _ => return cr,
            };
            let needle = format!("TOI=\"{}\"", a.toi);
            // instances first emitted after the first transfer of A that list A
            let later_listing: std::collections::HashSet<u32> = sh.fdts.iter().filter(|f| f.idx.first().map(|k| *k >= e1).unwrap_or(false) && f.xml.as_ref().map(|x| x.contains(&needle)).unwrap_or(true)).map(|f| f.id).collect();
            let delivered: Vec<usize> = (0..sh.em.stream.len()).filter(|k| {
                let p = &sh.em.stream[*k];
                !(p.toi() == a.toi && *k >= s1 && *k < e1) && !(p.toi() == 0 && p.dec.fdt.map(|f| later_listing.contains(&f.1)).unwrap_or(false))
            }).collect();
            let (d, _) = deliver(&sh, &delivered, "older_instance", &mut cr.violations);
            cr.count("deliveries", 1);
            cr.count("decodable_deliveries", d);
            cr.count("instances_withheld", later_listing.len() as u64);
            if d > 0 && !later_listing.is_empty() {
                cr.shape = Some(util::fnv(&format!("older|{}|{}|{}", nobj, sh.em.oti_of(0).fec.name(), sh.em.oti_of(0).inband_fti)));
            }
            if i % 97 == 0 {
                cr.sample = Some(json!({"session": sh.em.json(), "instances_withheld": later_listing.len(), "decodable_objects": d}));
            }
            limit(&mut cr.violations, 3);
            cr
        }));
        // ---- the first FDT copy is lost: a carousel copy arrives in the middle of the object (paced sender, one packet
        //      per 5 ms poll, FDT repetition every 25-40 ms), before the packet carrying the close-object flag
        let n_l = ctx.tier.pick(2500usize, 120_000);
        gens.push(Gen::new("late_fdt_copy", n_l, move |ctx, i| {
            let mut rng = Rng::keyed(ctx.seed, "C02l", 0, i as u64);
            let mut cr = CaseResult::default();
            let fec = *rng.pick(&ALL_FEC);
            let b = if fec == Fec::Raptor { rng.range(4, 6) } else { rng.range(2, 4) } as u32;
            let mut oti = OtiSpec::new(fec, 16, b, if fec == Fec::NoCode { 0 } else { rng.range(1, 2) as u32 });
            oti.al = 4;
            oti.inband_fti = rng.chance(2, 3);
            let nblocks = rng.range(1, 4);
            let t = if fec == Fec::Raptor { b as u64 * nblocks } else { rng.range(nblocks.max(2), b as u64 * nblocks) };
            let len = if fec == Fec::Raptor { t * 16 } else { (t - 1) * 16 + rng.range(1, 16) } as usize;
            let mut spec = SenderSpec::new(OtiSpec::new(Fec::NoCode, 4096, 8, 0));
            spec.full_fdt = true;
            spec.interleave = rng.range(1, 3) as u8;
            spec.fdt_carousel = CarouselSpec::DelayMs(*rng.pick(&[25u64, 40]));
            let mut o = ObjSpec::new(rng.bytes(len), "file:///late/o.bin");
            o.oti = Some(oti.clone());
            o.max_transfer_count = rng.range(1, 2) as u32;
            let script = vec![(When::Start, Op::Add(0)), (When::Start, Op::Publish)];
            let mut opts = ScriptOpts::every(5, 800);
            opts.drain = false;
            let run = match util::guarded(|| run_script(&spec, &[o], &script, &opts)) {
                Ok(Ok(r)) => r,
                _ => return cr,
            };
            if run.tois[0].is_none() || run.stream.len() > 400 {
                return cr;
            }
            let mut sh = make_shape(format!("late{}", i), run.into_emitted());
            sh.late_fdt = true;
            let ov = match sh.views.first() {
                Some(v) => v,
                None => return cr,
            };
            let b_idx = ov.idx.iter().copied().find(|k| sh.em.stream[*k].dec.lct.b).unwrap_or(sh.em.stream.len());
            let first_obj = ov.idx.first().copied().unwrap_or(0);
            // FDT copies (single-packet instances) that arrive after the first object packet and before the B packet
            let mid_copies: Vec<usize> = sh.em.stream.iter().enumerate().filter(|(k, p)| p.toi() == 0 && *k > first_obj && *k < b_idx).map(|(k, _)| k).collect();
            if mid_copies.is_empty() {
                return cr;
            }
            let (mut n_dec, mut n_runs) = (0, 0);
            for round in 0..6 {
                let mut keep: std::collections::BTreeSet<usize> = Default::default();
                let mut per: std::collections::BTreeMap<u32, Vec<usize>> = Default::default();
                for k in &ov.idx {
                    per.entry(sh.em.stream[*k].dec.sbn).or_default().push(*k);
                }
                for (sbn, mut ks) in per {
                    let k = ov.part.k(sbn as u128) as usize;
                    if ov.fec.is_rs() {
                        let target = match round % 3 { 0 => k, 1 => k + 1, _ => ks.len() };
                        rng.shuffle(&mut ks);
                        for x in ks.iter().take(target) {
                            keep.insert(*x);
                        }
                    } else {
                        let mut seen = std::collections::HashSet::new();
                        for x in &ks {
                            let esi = sh.em.stream[*x].dec.esi;
                            if ((esi as usize) < k && seen.insert(esi)) || rng.chance(1, 2) {
                                keep.insert(*x);
                            }
                        }
                    }
                }
                // every FDT copy up to the first object packet is lost; one chosen mid-object copy survives, the others at random
                let chosen = mid_copies[rng.below(mid_copies.len() as u64) as usize];
                for (k, p) in sh.em.stream.iter().enumerate() {
                    if p.toi() == 0 && k > first_obj && (k == chosen || rng.chance(1, 3)) {
                        keep.insert(k);
                    }
                }
                let mut delivered: Vec<usize> = keep.into_iter().collect();
                let mut tag = "late_fdt";
                if round == 5 {
                    // every FDT copy is lost until the whole object (close-object packet included) has arrived; one copy
                    // arrives afterwards (the carousel goes on). FDT-only OTI: the packets wait in the cache; in-band
                    // OTI: the decoded blocks wait for the writer
                    delivered.retain(|k| sh.em.stream[*k].toi() != 0);
                    delivered.push(chosen);
                    tag = "fdt_after_object";
                }
                let (d, _) = deliver(&sh, &delivered, tag, &mut cr.violations);
                n_dec += d;
                n_runs += 1;
            }
            cr.count("deliveries", n_runs);
            cr.count("decodable_deliveries", n_dec);
            cr.count("late_fdt_deliveries", n_dec);
            if n_dec > 0 {
                cr.shape = Some(util::fnv(&format!("late|{}", obj_shape(&sh.em.objs[0], sh.em.oti_of(0), sh.em.transfer_len[0].unwrap_or(0)))));
            }
            if i % 211 == 0 {
                cr.sample = Some(json!({"session": sh.em.json(), "fdt_copies_inside_the_object": mid_copies.len(), "deliveries": n_runs, "decodable": n_dec}));
            }
            limit(&mut cr.violations, 3);
            cr
        }));
        // ---- objects of more than 2048 source blocks (the receiver pre-allocates 2048 block slots and creates the others
        // lazily) under loss repaired by a second transfer: "for every source block ... all k source symbols"
        let big: Vec<(u64, u32)> = ctx.tier.pick(vec![(2049u64, 1u32), (3000, 1), (2100, 2)], vec![(2048, 1), (2049, 1), (2050, 1), (3000, 1), (4097, 1), (2100, 2), (2500, 3)]);
        let nbig = big.len();
        gens.push(Gen::new("many_blocks_lossy", nbig * 2, move |ctx, i| {
            let (nblocks, b) = big[i % nbig];
            let mut rng = Rng::keyed(ctx.seed, "C02big", 0, i as u64);
            let mut cr = CaseResult::default();
            let e = 8u16;
            let mut oti = OtiSpec::new(Fec::NoCode, e, b, 0);
            oti.inband_fti = i / nbig == 0;
            let t = nblocks * b as u64 - if b > 1 { 1 } else { 0 };
            let len = ((t - 1) * e as u64 + rng.range(1, e as u64)) as usize;
            let spec = SenderSpec::new(OtiSpec::new(Fec::NoCode, 4096, 8, 0));
            let mut o = ObjSpec::new(rng.bytes(len), "file:///big/o.bin");
            o.oti = Some(oti.clone());
            o.max_transfer_count = 2;
            let em = match util::guarded(|| emit(&spec, &[o], &EmitOpts { max_packets: 40_000, ..Default::default() })) {
                Ok(Ok(em)) => em,
                _ => return cr,
            };
            if em.tois[0].is_none() {
                return cr;
            }
            let sh = make_shape(format!("big{}x{}", nblocks, b), em);
            let ov = match sh.views.first() {
                Some(v) => v,
                None => return cr,
            };
            // a third of the packets of each transfer is lost; every symbol survives in at least one of the two
            let mut by_sym: std::collections::BTreeMap<(u32, u32), Vec<usize>> = Default::default();
            for k in &ov.idx {
                by_sym.entry((sh.em.stream[*k].dec.sbn, sh.em.stream[*k].dec.esi)).or_default().push(*k);
            }
            let mut keep: std::collections::BTreeSet<usize> = sh.em.stream.iter().enumerate().filter(|(_, p)| p.toi() == 0).map(|(k, _)| k).collect();
            for (_, copies) in by_sym {
                let mut any = false;
                for c in &copies {
                    if rng.chance(2, 3) {
                        keep.insert(*c);
                        any = true;
                    }
                }
                if !any {
                    keep.insert(*rng.pick(&copies));
                }
            }
            let delivered: Vec<usize> = keep.into_iter().collect();
            let (d, ok) = deliver(&sh, &delivered, "many_blocks_lossy", &mut cr.violations);
            cr.count("deliveries", 1);
            cr.count("decodable_deliveries", d);
            cr.count("blocks_of_the_big_objects", nblocks);
            if d > 0 {
                cr.shape = Some(util::fnv(&format!("big|{}|{}|{}", nblocks, b, oti.inband_fti)));
            }
            cr.sample = Some(json!({"blocks": nblocks, "B": b, "packets_delivered": delivered.len(), "decodable": d, "completed": ok}));
            limit(&mut cr.violations, 2);
            cr
        }));
        // ---- what the receiver needs arrives spread over several COPIES: a multi-packet FDT instance none of whose
        // carousel copies arrives whole (the union does), and a carouselled object none of whose rounds arrives whole.
        // "for an FDT instance listing the object and for every source block the receiver still gets at least k
        // distinct encoding symbols" - from whichever copy.
        let n_sp = ctx.tier.pick(2500usize, 120_000);
        gens.push(Gen::new("spread_over_copies", n_sp, move |ctx, i| {
            let mut rng = Rng::keyed(ctx.seed, "C02sp", 0, i as u64);
            let mut cr = CaseResult::default();
            let fdt_fec = *rng.pick(&[Fec::NoCode, Fec::NoCode, Fec::Rs28, Fec::Rs28Us]);
            let mut fdt_oti = OtiSpec::new(fdt_fec, *rng.pick(&[48u16, 64, 96, 160]), *rng.pick(&[4u32, 8, 32]), if fdt_fec == Fec::NoCode { 0 } else { rng.range(1, 2) as u32 });
            fdt_oti.inband_fti = true;
            let mut spec = SenderSpec::new(fdt_oti);
            spec.full_fdt = rng.chance(2, 3);
            spec.interleave = rng.range(1, 3) as u8;
            spec.fdt_carousel = CarouselSpec::DelayMs(*rng.pick(&[10u64, 25]));
            let fec = *rng.pick(&ALL_FEC);
            let b = if fec == Fec::Raptor { rng.range(4, 6) } else { rng.range(2, 4) } as u32;
            let mut oti = OtiSpec::new(fec, 16, b, if fec == Fec::NoCode { 0 } else { rng.range(1, 2) as u32 });
            oti.al = 4;
            oti.inband_fti = rng.chance(1, 2);
            let nblocks = rng.range(1, 3);
            let t = if fec == Fec::Raptor { b as u64 * nblocks } else { rng.range(nblocks.max(2), b as u64 * nblocks) };
            let len = if fec == Fec::Raptor { t * 16 } else { (t - 1) * 16 + rng.range(1, 16) } as usize;
            let mut o = ObjSpec::new(rng.bytes(len), "file:///spread/o.bin");
            o.oti = Some(oti.clone());
            let carouselled = rng.chance(1, 2);
            if carouselled {
                o.carousel = Some(CarouselSpec::DelayMs(*rng.pick(&[15u64, 40])));
            } else {
                o.max_transfer_count = rng.range(1, 2) as u32;
            }
            // several FDT copies go out before the object starts
            o.start_ms = Some(*rng.pick(&[0u64, 60, 120]));
            let script = vec![(When::Start, Op::Add(0)), (When::Start, Op::Publish)];
            let mut opts = ScriptOpts::every(5, 140);
            opts.drain = false;
            opts.stop_when_empty = false;
            let run = match util::guarded(|| run_script(&spec, &[o], &script, &opts)) {
                Ok(Ok(r)) => r,
                _ => return cr,
            };
            if run.tois[0].is_none() {
                return cr;
            }
            let mut sh = make_shape(format!("spread{}", i), run.into_emitted());
            sh.late_fdt = true;
            let ov = match sh.views.first() {
                Some(v) => v,
                None => return cr,
            };
            let needle = format!("TOI=\"{}\"", ov.toi);
            // copies of one (instance | object): a new copy starts when a (sbn, esi) repeats
            let copies_of = |idx: &[usize]| -> Vec<Vec<usize>> {
                let mut out: Vec<Vec<usize>> = vec![];
                let mut seen = std::collections::HashSet::new();
                for k in idx {
                    let key = (sh.em.stream[*k].dec.sbn, sh.em.stream[*k].dec.esi);
                    if out.is_empty() || !seen.insert(key) {
                        out.push(vec![]);
                        seen.clear();
                        seen.insert(key);
                    }
                    out.last_mut().unwrap().push(*k);
                }
                out
            };
            // split what a decoder needs (k symbols per block, chosen at random for Reed-Solomon, the source symbols
            // otherwise) between copy 0 and copy 1; nothing else of these copies is delivered
            let split = |rng: &mut Rng, copies: &[Vec<usize>], fec: Fec, part: &Part, keep: &mut std::collections::BTreeSet<usize>| -> bool {
                if copies.len() < 2 {
                    return false;
                }
                let mut any_split = false;
                for sbn in 0..part.n as u32 {
                    let k = part.k(sbn as u128) as usize;
                    let mut esis: Vec<u32> = copies[0].iter().filter(|x| sh.em.stream[**x].dec.sbn == sbn).map(|x| sh.em.stream[*x].dec.esi).collect();
                    if fec.is_rs() {
                        rng.shuffle(&mut esis);
                        esis.truncate(k);
                    } else {
                        esis.retain(|e| (*e as usize) < k);
                    }
                    if esis.len() < k {
                        return false;
                    }
                    let cut = if k >= 2 { rng.range(1, k as u64 - 1) as usize } else { rng.below(2) as usize };
                    if k >= 2 {
                        any_split = true;
                    }
                    for (n, e) in esis.iter().enumerate() {
                        let from = if n < cut { 0 } else { 1 };
                        match copies[from].iter().find(|x| sh.em.stream[**x].dec.sbn == sbn && sh.em.stream[**x].dec.esi == *e) {
                            Some(x) => {
                                keep.insert(*x);
                            }
                            None => return false,
                        }
                    }
                }
                any_split
            };
            let (mut n_dec, mut n_runs, mut n_fdt_split, mut n_obj_split) = (0, 0, 0u64, 0u64);
            let mut n_slow = 0u64;
            for round in 0..4 {
                let mut keep: std::collections::BTreeSet<usize> = Default::default();
                // FDT: the first instance listing the object is split over its first two copies, later copies of it are
                // lost; other instances arrive at random
                let mut fdt_split = false;
                let mut done_listing = false;
                for f in &sh.fdts {
                    let lists = f.xml.as_ref().map(|x| x.contains(&needle)).unwrap_or(false);
                    let copies = copies_of(&f.idx);
                    if lists && !done_listing {
                        let part = ref_partition(sh.em.spec.oti.b as u128, f.tl as u128, sh.em.spec.oti.e as u128);
                        if round % 2 == 0 && split(&mut rng, &copies, sh.em.spec.oti.fec, &part, &mut keep) {
                            fdt_split = true;
                        } else if let Some(c) = copies.first() {
                            keep.extend(c.iter().copied());
                        }
                        done_listing = true;
                    } else if !lists {
                        for c in copies {
                            if rng.chance(1, 3) {
                                keep.extend(c.iter().copied());
                            }
                        }
                    }
                }
                // object: split over its first two rounds (carousel / second transfer), or the first round whole
                let ocopies = copies_of(&ov.idx);
                let mut obj_split = false;
                if round >= 1 && split(&mut rng, &ocopies, ov.fec, &ov.part, &mut keep) {
                    obj_split = true;
                    // the close-object packet of a non-final copy does not exist; the final one's may or may not arrive
                } else if let Some(c) = ocopies.first() {
                    keep.extend(c.iter().copied());
                }
                if !fdt_split && !obj_split {
                    continue;
                }
                n_fdt_split += fdt_split as u64;
                n_obj_split += obj_split as u64;
                let delivered: Vec<usize> = keep.into_iter().collect();
                let tag = match (fdt_split, obj_split) { (true, true) => "fdt_and_object_spread", (true, false) => "fdt_spread", _ => "object_spread" };
                let (d, _) = deliver(&sh, &delivered, tag, &mut cr.violations);
                n_dec += d;
                n_runs += 1;
                // the same packets 1-4 s apart (the whole delivery lasts longer than the object timeout, no gap does)
                if delivered.len() < 600 {
                    let slow_tag = match (fdt_split, obj_split) { (true, true) => "fdt_and_object_spread_slow", (true, false) => "fdt_spread_slow", _ => "object_spread_slow" };
                    let (d, _) = deliver_paced(&sh, &delivered, slow_tag, Some(1 + (round as u64 + i as u64) % 4), &mut cr.violations);
                    n_dec += d;
                    n_runs += 1;
                    n_slow += 1;
                }
            }
            cr.count("deliveries_seconds_apart_with_cleanup", n_slow);
            cr.count("deliveries", n_runs);
            cr.count("decodable_deliveries", n_dec);
            cr.count("fdt_instance_spread_over_copies", n_fdt_split);
            cr.count("object_spread_over_rounds", n_obj_split);
            if n_dec > 0 {
                cr.shape = Some(util::fnv(&format!("spread|{}|{}|{}", obj_shape(&sh.em.objs[0], sh.em.oti_of(0), sh.em.transfer_len[0].unwrap_or(0)), sh.em.spec.oti.fec.name(), carouselled)));
            }
            if i % 211 == 0 {
                cr.sample = Some(json!({"session": sh.em.json(), "fdt_instances": sh.fdts.len(), "deliveries": n_runs, "decodable": n_dec, "fdt_split": n_fdt_split, "object_split": n_obj_split}));
            }
            limit(&mut cr.violations, 3);
            cr
        }));
        gens
    });
}
