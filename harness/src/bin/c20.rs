//! C20 - object sources are interchangeable: the packets emitted for an object
//! depend only on its bytes and configuration, not on how the bytes are supplied;
//! every repeated transfer re-reads the source from its start.
use serde_json::json;
use vh::gen;
use vh::report::*;
use vh::scenario::*;
use vh::session::*;
use vh::util::{self, hex, Rng};

fn object_packets(em: &Emitted) -> Vec<Vec<u8>> {
    em.stream.iter().filter(|p| p.toi() != 0).map(|p| p.bytes.clone()).collect()
}

fn main() {
    let prop = Property {
        id: "C20",
        level: "exploration",
        rule: "the same object bytes and configuration are given to senders through: in-memory buffer, Cursor, a real File, BufReader<File>, flute's create_from_file with and without RAM cache, and a seekable ChunkedReader returning short reads on a schedule (1 byte, 7, 10, 4096, mixed, random sizes, reads interrupted by ErrorKind::Interrupted once in five calls and three times in six); boundary lattice of object sizes x 5 FEC schemes x block byte sizes below and above 8 KiB x transfer counts 1-3 x interleave 1-3; oracle (metamorphic): the object packet sequences are byte-identical to the buffer sender's (same virtual instants, same TOI), transfers 2..n equal transfer 1 apart from the close-object flag, and the chunked source saw seek(Start(0)) before every transfer; (huge_stream) No-Code stream objects of 2^32-1 .. 2^33+5 bytes whose content is a function of the offset (full and short reads): every packet of the transfer is checked against the reference partition and the content at its offset, all source symbols once, close-object flag last; a case is one object x all sources, non-trivial when object packets were compared; distinct = object shape; objects of odd length are created through the typed-builder front ends (CreateFromBuffer / CreateFromStream / CreateFromFile), the others through the positional constructors; big_cached_file: 64 MiB +- 1000 bytes of compressible content with a content encoding, buffer against create_from_file(cache in RAM), packets compared byte for byte",
        assumptions: vec![
            "sources that return errors (other than ErrorKind::Interrupted during transmission) or lie about their length are out of scope; an Interrupted read during the MD5 pass at creation makes create_from_stream fail loudly, so interrupting sources are used without MD5; stream sources cannot be combined with content encoding (flute refuses)".into(),
            "FDT packets are not compared byte by byte (instance ids and Expires are irrelevant here); the announced Content-MD5 is".into(),
            "the buffer sender's stream is itself judged by C08's slicing oracle".into(),
        ],
        exhaustive: false,
        budget_quick_s: 120,
        budget_thorough_s: 1200,
    };
    run_property(prop, |ctx| {
        let n = ctx.tier.pick(20_000usize, 300_000);
        let mut gens = vec![Gen::new("sources", n, move |ctx, i| {
            let mut rng = Rng::keyed(ctx.seed, "C20", 0, i as u64);
            let fec = *rng.pick(&ALL_FEC);
            let mut oti = gen::gen_oti(&mut rng, fec);
            if fec.is_rs() {
                oti.parity = oti.parity.max(1);
            }
            // block byte size below / above BufReader's 8 KiB
            if i % 4 == 0 {
                oti.e = if matches!(fec, Fec::RaptorQ | Fec::Raptor) { 1024 } else { 1000 };
                oti.al = if matches!(fec, Fec::RaptorQ | Fec::Raptor) { 4 } else { 1 };
                oti.b = *rng.pick(&[4u32, 16, 20]);
            }
            let mut len = gen::gen_len(&mut rng, &oti, if i % 4 == 0 { 70 } else { 50 }) as usize;
            if fec == Fec::Raptor {
                // Raptor: keep every block encodable (not 2-3 symbols)
                let e = oti.e as usize;
                for _ in 0..64 {
                    let p = ref_partition(oti.b as u128, len as u128, e as u128);
                    if len == 0 || ![p.a_large, p.a_small].iter().any(|k| *k == 2 || *k == 3) {
                        break;
                    }
                    len += e;
                }
            }
            let data = gen_bytes(&mut rng, len);
            let transfers = rng.range(1, 3) as u32;
            let mut spec = SenderSpec::new(OtiSpec::new(Fec::NoCode, 4096, 8, 0));
            spec.interleave = rng.range(1, 3) as u8;
            spec.full_fdt = rng.chance(1, 2);
            let md5 = rng.chance(1, 2);
            let mk = |src: SourceSpec| {
                let mut o = ObjSpec::new(data.clone(), "file:///src/o.bin");
                o.oti = Some(oti.clone());
                o.max_transfer_count = transfers;
                o.md5 = md5;
                // an Interrupted error during the MD5 pass at object creation is reported to the caller (the object is
                // refused, nothing is sent): outside the statement. Interrupted reads are exercised during transmission.
                if let SourceSpec::Chunked(c) = &src {
                    if c.contains(&CHUNK_EINTR) {
                        o.md5 = false;
                    }
                }
                o.source = src;
                o
            };
            let mut cr = CaseResult::default();
            let wit = json!({"oti": oti.json(), "len": len, "transfers": transfers, "interleave": spec.interleave});
            let base = match util::guarded(|| emit(&spec, &[mk(SourceSpec::Buffer)], &EmitOpts::default())) {
                Ok(Ok(em)) => em,
                Ok(Err(_)) => return cr,
                Err(p) => {
                    cr.violations.push(Violation::new("panic", format!("buffer source: {} @ {}", p.msg, p.short_loc())).with("site", p.file()).with("source", "buffer").with("fec", fec.name()).witness(wit));
                    return cr;
                }
            };
            if base.tois[0].is_none() {
                return cr; // refused (C01's business)
            }
            let want = object_packets(&base);
            let chunk_sets: Vec<Vec<usize>> = vec![vec![1], vec![7], vec![10], vec![4096], vec![1, 2, 3, 1000], (0..5).map(|_| rng.range(1, 3000) as usize).collect(), vec![oti.e as usize], vec![oti.e as usize * oti.b as usize - 1]];
            let mut sources: Vec<(String, SourceSpec)> = vec![("cursor".into(), SourceSpec::Cursor), ("file".into(), SourceSpec::File), ("bufreader".into(), SourceSpec::BufFile),
                ("create_from_file(ram)".into(), SourceSpec::PathRam), ("create_from_file(no ram)".into(), SourceSpec::PathNoRam)];
            let nchunk = if ctx.tier == Tier::Thorough { chunk_sets.len() } else { 4 };
            for (k, c) in chunk_sets.iter().enumerate() {
                if (k + i) % chunk_sets.len() < nchunk {
                    sources.push((format!("chunked{:?}", c), SourceSpec::Chunked(c.clone())));
                }
            }
            // reads interrupted by signals (ErrorKind::Interrupted, to be retried): rarely, and many times per block
            sources.push(("chunked+eintr/5".into(), SourceSpec::Chunked(vec![512, 512, 512, 512, CHUNK_EINTR])));
            sources.push(("chunked+eintr-heavy".into(), SourceSpec::Chunked(vec![64, CHUNK_EINTR, CHUNK_EINTR, 64, CHUNK_EINTR, 1])));
            if len > 0 {
                sources.push(("chunked_at[3]".into(), SourceSpec::ChunkedAt(vec![3, 500], rng.range(1, len as u64) as usize)));
                sources.push(("chunked_at_end".into(), SourceSpec::ChunkedAt(vec![], len)));
            }
            let mut compared = 0u64;
            let mut md5_compared = 0u64;
            for (name, src) in sources {
                let kind = name.split('[').next().unwrap_or("").to_string();
                let em = match util::guarded(|| emit(&spec, &[mk(src.clone())], &EmitOpts::default())) {
                    Ok(Ok(em)) => em,
                    Ok(Err(e)) => {
                        cr.violations.push(Violation::new("source_refused", format!("source {} refused although the buffer source is accepted: {}", name, e)).with("source", kind.clone()).with("fec", fec.name()).witness(wit.clone()));
                        continue;
                    }
                    Err(p) => {
                        cr.violations.push(Violation::new(if p.is_step_budget() { "hang" } else { "panic" }, format!("source {}: {} @ {}", name, p.msg, p.short_loc())).with("site", if p.is_step_budget() { p.step_site() } else { p.file() }).with("source", kind.clone()).with("fec", fec.name()).witness(wit.clone()));
                        continue;
                    }
                };
                if em.tois[0].is_none() {
                    cr.violations.push(Violation::new("source_refused", format!("source {}: add_object refused ({:?}) although the buffer source is accepted", name, em.add_err[0])).with("source", kind.clone()).with("fec", fec.name()).witness(wit.clone()));
                    continue;
                }
                // what the FDT announces about the object must not depend on the source either: the Content-MD5 (computed
                // by a separate pass over a stream) is compared with the buffer sender's whenever both compute one
                if mk(src.clone()).md5 && md5 {
                    let announced = |e: &Emitted| vh::small::fdt_views(e).iter().find_map(|v| v.xml.as_ref().and_then(|x| x.split("Content-MD5=\"").nth(1).and_then(|s| s.split('"').next()).map(|s| s.to_string())));
                    let (a, b) = (announced(&base), announced(&em));
                    if a.is_some() && a != b {
                        cr.violations.push(Violation::new("announced_md5_differs", format!("source {}: the FDT announces Content-MD5 {:?}, the buffer sender's announces {:?} for the same bytes", name, b, a))
                            .with("source", kind.clone()).with("fec", fec.name()).witness(wit.clone()));
                    }
                    md5_compared += 1;
                }
                let got = object_packets(&em);
                compared += got.len() as u64;
                if got != want {
                    let first = got.iter().zip(want.iter()).position(|(a, b)| a != b).unwrap_or(got.len().min(want.len()));
                    let short_reads = matches!(src, SourceSpec::Chunked(_) | SourceSpec::ChunkedAt(..));
                    cr.violations.push(Violation::new("packets_differ", format!(
                        "source {}: {} object packets vs {} from the in-memory buffer; first difference at object packet {} ({} vs {})", name, got.len(), want.len(), first,
                        got.get(first).map(|b| hex(&b[..b.len().min(40)])).unwrap_or("-".into()), want.get(first).map(|b| hex(&b[..b.len().min(40)])).unwrap_or("-".into())))
                        .with("source", kind.clone()).with("fec", fec.name()).with("short_reads", short_reads).with("count_differs", got.len() != want.len())
                        .witness(json!({"case": wit, "source": name})));
                }
                // every transfer re-reads from the start: the read log of the source must contain,
                // after a seek(Start(0)), one contiguous pass over [0, len) per transfer
                if let Some(Some(log)) = em.seek_logs.first() {
                    let log = log.lock().unwrap();
                    let mut passes = 0usize;
                    let mut stray = None;
                    let mut expect: Option<usize> = None; // next expected read position in the current pass
                    for ev in log.iter() {
                        if ev == "seek_start(0)" {
                            expect = Some(0);
                        } else if ev.starts_with("seek_start(") {
                            expect = None;
                        } else if let Some(rest) = ev.strip_prefix("read(") {
                            let mut it = rest.trim_end_matches(')').split(',');
                            let pos: usize = it.next().unwrap().parse().unwrap();
                            let n: usize = it.next().unwrap().parse().unwrap();
                            match expect {
                                Some(e) if e == pos => {
                                    if pos + n == len && n > 0 {
                                        passes += 1;
                                        expect = None;
                                    } else {
                                        expect = Some(pos + n);
                                    }
                                }
                                _ if n == 0 => {}
                                _ => {
                                    if stray.is_none() && n > 0 {
                                        stray = Some(ev.clone());
                                    }
                                }
                            }
                        }
                    }
                    cr.count("source_passes_observed", passes as u64);
                    cr.count("source_log_events", log.len() as u64);
                    let md5 = mk(src.clone()).md5;
                    if len > 0 && passes < transfers as usize + md5 as usize {
                        cr.violations.push(Violation::new("no_reread_from_start", format!("source {}: {} complete passes seek(Start(0)) + contiguous reads of [0,{}) for {} transfers{} (first stray read {:?})", name, passes, len, transfers, if md5 { " + 1 MD5 pass" } else { "" }, stray)).with("source", kind.clone()).with("fec", fec.name()).witness(wit.clone()));
                    }
                }
            }
            // transfers 2..n equal transfer 1 apart from the close-object flag
            if transfers > 1 && !want.is_empty() && want.len() % transfers as usize == 0 {
                let per = want.len() / transfers as usize;
                for t in 1..transfers as usize {
                    for k in 0..per {
                        let (a, b) = (&want[k], &want[t * per + k]);
                        let mut a2 = a.clone();
                        let mut b2 = b.clone();
                        a2[1] &= 0xFE;
                        b2[1] &= 0xFE;
                        if a2 != b2 {
                            cr.violations.push(Violation::new("transfer_differs", format!("transfer {} packet {} differs from transfer 1 beyond the close-object flag", t + 1, k)).with("fec", fec.name()).with("source", "buffer").witness(wit.clone()));
                            break;
                        }
                    }
                }
            }
            cr.count("object_packets_compared", compared);
            cr.count("announced_md5_compared", md5_compared);
            if compared > 0 {
                let o = mk(SourceSpec::Buffer);
                cr.shape = Some(util::fnv(&obj_shape(&o, &oti, base.transfer_len[0].unwrap_or(0))));
            }
            cr.states = vec![util::fnv(&format!("{}|{}", fec.name(), (oti.e as usize * oti.b as usize) > 8192))];
            if i % 101 == 0 {
                cr.sample = Some(json!({"oti": oti.json(), "len": len, "transfers": transfers, "object_packets": want.len(), "packets_compared": compared}));
            }
            limit(&mut cr.violations, 2);
            cr
        })];
        // ---- files of about 64 MiB cached in RAM with a content encoding (the encoding is applied by flute when the
        // content is in memory): the same bytes and configuration given as a buffer and as create_from_file(cache_in_ram)
        // yield the same packets, whatever the size of the file
        let big: Vec<(usize, CencSpec)> = if ctx.tier == Tier::Thorough {
            vec![((64 << 20) + 1001, CencSpec::Gzip), ((64 << 20) - 1000, CencSpec::Deflate), ((64 << 20) + 1, CencSpec::Zlib), (64 << 20, CencSpec::Gzip), ((80 << 20) + 12, CencSpec::Deflate), ((64 << 20) + 4096, CencSpec::Null)]
        } else {
            vec![((64 << 20) + 1001, CencSpec::Gzip), ((64 << 20) - 1000, CencSpec::Deflate)]
        };
        let nbig = big.len();
        gens.push(Gen::new("big_cached_file", nbig, move |_ctx, i| {
            let (len, cenc) = big[i];
            let mut cr = CaseResult::default();
            // compressible content: a phrase of 251 bytes repeated
            let phrase: Vec<u8> = (0..251u32).map(|k| b"the same bytes whatever the source - "[(k as usize * 7) % 37]).collect();
            let data: Vec<u8> = (0..len).map(|k| phrase[k % 251] ^ ((k >> 16) as u8 & 1)).collect();
            let spec = SenderSpec::new(OtiSpec::new(Fec::NoCode, 1400, 64, 0));
            let mk = |source: SourceSpec| {
                let mut o = ObjSpec::new(data.clone(), "file:///big/cached.bin");
                o.cenc = cenc;
                o.inband_cenc = i % 2 == 0;
                o.md5 = true;
                o.source = source;
                util::guarded(|| emit(&spec, &[o], &EmitOpts { step_ms: 10, max_instants: 30, max_packets: 200_000, ..Default::default() }))
            };
            let (a, b) = match (mk(SourceSpec::Buffer), mk(SourceSpec::PathRam)) {
                (Ok(Ok(a)), Ok(Ok(b))) => (a, b),
                (a, b) => {
                    let d = |r: &Result<Result<Emitted, String>, util::PanicInfo>| match r { Ok(Ok(_)) => "accepted".to_string(), Ok(Err(e)) => format!("refused: {}", e), Err(p) => format!("panic: {}", p.msg) };
                    let (da, db) = (d(&a), d(&b));
                    if da != db {
                        cr.violations.push(Violation::new("source_refused", format!("{} bytes, {}: buffer {}, create_from_file(cache in RAM) {}", len, cenc.name(), da, db))
                            .with("source", "create_from_file(ram)").with("cenc", cenc.name()).with("above_64_mib", len > (64 << 20)));
                    }
                    return cr;
                }
            };
            cr.count("packets_compared", a.stream.len().min(b.stream.len()) as u64);
            cr.count("content_bytes", len as u64);
            let first = (0..a.stream.len().min(b.stream.len())).find(|k| a.stream[*k].bytes != b.stream[*k].bytes);
            if a.stream.len() != b.stream.len() || first.is_some() {
                cr.violations.push(Violation::new("packets_differ", format!(
                    "{} bytes, {}: buffer source {} packets (transfer length {:?}), create_from_file(cache in RAM) {} packets (transfer length {:?}), first difference at packet {:?}",
                    len, cenc.name(), a.stream.len(), a.transfer_len[0], b.stream.len(), b.transfer_len[0], first))
                    .with("source", "create_from_file(ram)").with("cenc", cenc.name()).with("above_64_mib", len > (64 << 20))
                    .witness(json!({"len": len, "cenc": cenc.name(), "packets": [a.stream.len(), b.stream.len()], "transfer_length": [a.transfer_len[0], b.transfer_len[0]]})));
            }
            cr.shape = Some(util::fnv(&format!("big|{}|{}", len, cenc.name())));
            cr.sample = Some(json!({"len": len, "cenc": cenc.name(), "packets": a.stream.len(), "transfer_length": a.transfer_len[0]}));
            cr
        }));
        // ---- stream objects larger than 4 GiB (an in-memory twin is not possible: the expectation is the RFC slicing of
        // a content that is a function of the offset). Every packet of the only transfer is looked at: (SBN, ESI) inside
        // the reference partition and seen once, payload length, pattern at the expected offset (both ends of every
        // payload, one payload in 32 completely), close-object flag on the last packet only, nothing missing.
        let mut huge: Vec<(u64, usize)> = vec![
            ((1u64 << 32) + 3 * 64 * 65528 + 12345, usize::MAX),
            ((1u64 << 32) + 1, 1 << 20),
            ((1u64 << 32) - 1, usize::MAX),
        ];
        if ctx.tier == Tier::Thorough {
            huge.extend([((1u64 << 33) + 5, usize::MAX), ((1u64 << 32) + 64 * 65528, 65_000), (3 * (1u64 << 31) + 777, 7 << 20), ((1u64 << 32) + 65528, usize::MAX)]);
        }
        let nh = huge.len();
        gens.push(Gen::new("huge_stream", nh, move |_ctx, i| {
            let (l, chunk) = huge[i];
            let mut cr = CaseResult::default();
            let oti = OtiSpec::new(Fec::NoCode, 65528, 64, 0);
            let e = oti.e as u64;
            let part = ref_partition(oti.b as u128, l as u128, e as u128);
            let wit = json!({"oti": oti.json(), "L": l, "read_chunk": if chunk == usize::MAX { 0 } else { chunk }});
            let r = util::guarded(|| {
                let mut sender = SenderSpec::new(oti.clone()).sender()?;
                let desc = flute::sender::ObjectDesc::create_from_stream(
                    Box::new(PatternReader { len: l, pos: 0, chunk }), "a/b", &url::Url::parse("file:///huge").unwrap(), false, Default::default(),
                ).map_err(|e| format!("{:?}", e))?;
                let toi = sender.add_object(0, desc).map_err(|e| format!("add_object: {:?}", e))?;
                sender.publish(util::at(0)).map_err(|e| format!("publish: {:?}", e))?;
                let mut seen = vec![false; part.t as usize];
                let (mut n, mut dup, mut outside, mut badlen, mut badbytes, mut early_b, mut bytes) = (0u64, 0u64, 0u64, 0u64, 0u64, 0u64, 0u64);
                let mut first_bad: Option<String> = None;
                let mut last_had_b = false;
                let mut t_ms = 0u64;
                let mut idle = 0;
                while idle < 3 && n <= part.t as u64 + 8 {
                    match sender.read(util::at(t_ms)) {
                        None => {
                            idle += 1;
                            t_ms += 100;
                        }
                        Some(b) => {
                            idle = 0;
                            let p = vh::wire::decode(&b).map_err(|e| format!("undecodable packet: {}", e))?;
                            if p.lct.toi != toi {
                                continue;
                            }
                            n += 1;
                            if last_had_b {
                                early_b += 1;
                            }
                            last_had_b = p.lct.b;
                            let pl = &b[p.payload_off..];
                            let (sbn, esi) = (p.sbn as u128, p.esi as u128);
                            if sbn >= part.n || esi >= part.k(sbn) {
                                outside += 1;
                                first_bad.get_or_insert(format!("packet #{}: SBN {} ESI {} outside the partition ({} blocks)", n, sbn, esi, part.n));
                                continue;
                            }
                            let idx = (part.first_symbol(sbn) + esi) as usize;
                            if seen[idx] {
                                dup += 1;
                                first_bad.get_or_insert(format!("packet #{}: SBN {} ESI {} emitted twice", n, sbn, esi));
                            }
                            seen[idx] = true;
                            let off = idx as u64 * e;
                            let want_len = e.min(l - off) as usize;
                            if pl.len() != want_len {
                                badlen += 1;
                                first_bad.get_or_insert(format!("packet #{}: SBN {} ESI {} carries {} bytes, the object has {} bytes for this symbol", n, sbn, esi, pl.len(), want_len));
                                continue;
                            }
                            bytes += pl.len() as u64;
                            let ok = if n % 32 == 0 || pl.len() < 64 {
                                pattern_matches(off, pl)
                            } else {
                                pattern_matches(off, &pl[..32]) && pattern_matches(off + pl.len() as u64 - 32, &pl[pl.len() - 32..])
                            };
                            if !ok {
                                badbytes += 1;
                                first_bad.get_or_insert(format!("packet #{}: SBN {} ESI {}: payload is not the object's bytes at offset {}", n, sbn, esi, off));
                            }
                        }
                    }
                }
                let missing = seen.iter().filter(|s| !**s).count() as u64;
                Ok::<_, String>((n, dup, outside, badlen, badbytes, early_b, last_had_b, missing, bytes, first_bad))
            });
            match r {
                Err(p) => cr.violations.push(Violation::new(if p.is_step_budget() { "hang" } else { "panic" }, format!("{} @ {}", p.msg, p.short_loc())).with("site", if p.is_step_budget() { p.step_site() } else { p.file() }).with("gen", "huge_stream").witness(wit)),
                Ok(Err(e)) => cr.violations.push(Violation::new("huge_stream_refused", format!("a {}-byte stream object inside the No-Code limits of E=65528 B=64 could not be sent: {}", l, e)).witness(wit)),
                Ok(Ok((n, dup, outside, badlen, badbytes, early_b, last_b, missing, bytes, first_bad))) => {
                    if dup + outside + badlen + badbytes + early_b + missing > 0 || !last_b {
                        cr.violations.push(Violation::new("huge_stream_differs", format!(
                            "stream object of {} bytes ({} source symbols): {} packets, {} symbols missing, {} duplicated, {} outside the partition, {} with a wrong length, {} with wrong bytes, close-object flag {} ; first: {}",
                            l, part.t, n, missing, dup, outside, badlen, badbytes, if early_b > 0 { "before the last packet" } else if last_b { "on the last packet" } else { "never set" }, first_bad.unwrap_or_default()))
                            .with("above_4gib", l >= 1 << 32).with("missing", missing > 0).with("short_reads", chunk != usize::MAX).witness(wit));
                    }
                    cr.count("object_packets_compared", n);
                    cr.count("huge_stream_bytes_checked_against_offsets", bytes);
                    if n > 0 {
                        cr.shape = Some(util::fnv(&format!("huge|{}|{}", l, chunk)));
                    }
                    cr.states = vec![util::fnv(&format!("huge|{}", l >= 1 << 32))];
                    cr.sample = Some(json!({"L": l, "source_symbols": part.t.to_string(), "packets": n, "read_chunk": if chunk == usize::MAX { 0 } else { chunk }}));
                }
            }
            cr
        }));
        gens
    });
}
