//! C14 - timing: no packet before the transfer start time; carousel gaps and
//! pacing never early; due packets go out at the first poll at or after their due
//! time; degenerate inputs neither crash nor stall the sender.
use serde_json::{json, Value};
use std::time::{Duration, SystemTime};
use vh::report::*;
use vh::scenario::*;
use vh::session::*;
use vh::util::{self, Rng};

fn us(t: SystemTime) -> i128 {
    util::since_t0_us(t)
}

#[derive(Clone, Debug)]
struct Timing {
    start_us: Option<i128>,
    trigger: Option<(usize, Option<u64>)>, // (at packet index, timestamp ms)
    carousel: Option<CarouselSpec>,
    target_us: Option<u64>,
    deadline_us: Option<i128>,
}

fn judge(run: &ScriptRun, tm: &[Timing], poll_us: &[u64], strict_prompt: bool, out: &mut Vec<Violation>) -> (u64, Vec<u64>) {
    let mut states = vec![];
    let mut n_judged = 0u64;
    let wit = |extra: Value| json!({"run": run.json(), "detail": extra, "timing": format!("{:?}", tm),
        "packets": run.stream.iter().enumerate().filter(|(_, p)| p.toi() != 0).take(80).map(|(k, p)| format!("{}:t{} @{}us", k, p.toi(), us(p.t))).collect::<Vec<_>>(),
        "events": run.sub_events.iter().map(|(i, e)| match e { SubEv::Start(t, at) => format!("{}:Start({})@{}us", i, t, us(*at)), SubEv::Stop(t, at) => format!("{}:Stop({})@{}us", i, t, us(*at)) }).collect::<Vec<_>>()});
    for (i, obj) in run.objs.iter().enumerate() {
        let toi = match run.tois[i] {
            Some(t) => t,
            None => continue,
        };
        let t = &tm[i];
        let oti = run.oti_of(i);
        let tl = run.transfer_len[i].unwrap_or(0);
        let pk: Vec<(usize, i128)> = run.stream.iter().enumerate().filter(|(_, p)| p.toi() == toi).map(|(k, p)| (k, us(p.t))).collect();
        let starts: Vec<(usize, i128)> = run.sub_events.iter().filter_map(|(k, e)| match e { SubEv::Start(x, at) if *x == toi => Some((*k, us(*at))), _ => None }).collect();
        let stops: Vec<(usize, i128)> = run.sub_events.iter().filter_map(|(k, e)| match e { SubEv::Stop(x, at) if *x == toi => Some((*k, us(*at))), _ => None }).collect();
        let f = |v: Violation| v.with("carousel", format!("{:?}", t.carousel.map(|c| matches!(c, CarouselSpec::DelayMs(_))))).with("paced", t.target_us.is_some() || t.deadline_us.is_some()).with("empty", obj.data.is_empty());
        // (S) start time
        if let Some(s) = t.start_us {
            if t.trigger.is_none() {
                if let Some((k, at)) = pk.first() {
                    n_judged += 1;
                    if *at < s {
                        out.push(f(Violation::new("before_start_time", format!("TOI {}: packet {} emitted at {} us, transfer start time is {} us", toi, k, at, s))).witness(wit(json!({"obj": i}))));
                    }
                }
                if let Some((_, at)) = starts.first() {
                    if *at < s {
                        out.push(f(Violation::new("before_start_time", format!("TOI {}: StartTransfer at {} us, transfer start time is {} us", toi, at, s))).witness(wit(json!({"obj": i}))));
                    }
                }
            }
        }
        // trigger_transfer_at with a timestamp: the transfer started after the trigger is not before it
        if let Some((_at_pk, Some(ts_ms))) = t.trigger {
            let ts = ts_ms as i128 * 1000;
            let op = run.ops.iter().find(|o| matches!(o.op, Op::Trigger(k, _) if k == i) && o.ok);
            let (op_t, op_k) = match op {
                Some(o) => (us(o.t), o.pkt_index),
                None => (i128::MAX, usize::MAX),
            };
            // an event is after the operation iff later in virtual time, or same instant and index >= op index
            let after_op = |k: usize, at: i128| at > op_t || (at == op_t && k >= op_k);
            // "if the object is already being transferred, no action is taken"
            let transferring_at_op = starts.iter().zip(0..).any(|((k, at), n)| !after_op(*k, *at) && stops.get(n).map(|(sk, sat)| after_op(*sk, *sat)).unwrap_or(true));
            for (k, at) in starts.iter().filter(|(k, at)| after_op(*k, *at) && !transferring_at_op) {
                n_judged += 1;
                if *at < ts {
                    // only the first transfer started after the trigger is constrained
                    out.push(f(Violation::new("before_trigger_time", format!("TOI {}: transfer started at {} us (packet index {}) before the trigger timestamp {} us", toi, at, k, ts))).witness(wit(json!({"obj": i}))));
                }
                break;
            }
        }
        // (C) carousel gaps (only beyond the configured number of transfers). A trigger_transfer_at executed while the
        // object is idle legitimately starts ONE transfer early (the first one after the call); a trigger executed
        // while the object is being transferred is documented as "no action is taken": every gap is judged then.
        let exempt_start: Option<usize> = match t.trigger {
            None => None,
            Some(_) => {
                let op = run.ops.iter().find(|o| matches!(o.op, Op::Trigger(k, _) if k == i) && o.ok);
                match op {
                    None => None,
                    Some(o) => {
                        let (op_t, op_k) = (us(o.t), o.pkt_index);
                        let after_op = |k: usize, at: i128| at > op_t || (at == op_t && k >= op_k);
                        let transferring_at_op = starts.iter().zip(0..).any(|((k, at), n)| !after_op(*k, *at) && stops.get(n).map(|(sk, sat)| after_op(*sk, *sat)).unwrap_or(true));
                        if transferring_at_op {
                            states.push(util::fnv("trigger_while_transferring"));
                            None
                        } else {
                            starts.iter().position(|(k, at)| after_op(*k, *at))
                        }
                    }
                }
            }
        };
        if let Some(c) = t.carousel {
            for n in 1..starts.len() {
                if Some(n) == exempt_start {
                    continue;
                }
                // flute's carousel cycle consists of max_transfer_count back-to-back transfers
                // (the counter is reset when a cycle starts): the gap applies between cycles
                if n % obj.max_transfer_count.max(1) as usize != 0 {
                    continue;
                }
                n_judged += 1;
                let ok = match c {
                    CarouselSpec::DelayMs(d) => stops.get(n - 1).map(|s| starts[n].1 >= s.1 + d as i128 * 1000).unwrap_or(true),
                    CarouselSpec::IntervalMs(d) => starts[n].1 >= starts[n - 1].1 + d as i128 * 1000,
                };
                states.push(util::fnv(&format!("gap{:?}", c)));
                if !ok {
                    out.push(f(Violation::new("carousel_gap_too_short", format!(
                        "TOI {}: transfer {} starts at {} us; previous started {} us, stopped {:?} us; configured {:?}", toi, n, starts[n].1, starts[n - 1].1, stops.get(n - 1).map(|s| s.1), c))).witness(wit(json!({"obj": i}))));
                    break;
                }
            }
        }
        // (P) pacing, per transfer
        let nb_packets = (tl as u128).div_ceil(oti.e as u128) as i128;
        for (n, (sk, st)) in starts.iter().enumerate() {
            let end_k = stops.get(n).map(|s| s.0).unwrap_or(run.stream.len());
            let target: Option<i128> = match (t.target_us, t.deadline_us) {
                (Some(d), _) => Some(d as i128),
                (None, Some(dl)) => Some((dl - st).max(0)),
                _ => None,
            };
            let target = match target {
                Some(x) => x,
                None => continue,
            };
            if nb_packets == 0 {
                continue;
            }
            let tick = target as f64 / nb_packets as f64;
            let tp: Vec<(usize, i128)> = pk.iter().filter(|(k, _)| *k >= *sk && *k < end_k).cloned().collect();
            for (idx, (k, at)) in tp.iter().enumerate() {
                n_judged += 1;
                let due = *st as f64 + idx as f64 * tick;
                // never early (1 us + idx ns of float slack)
                if (*at as f64) < due - 1.0 - idx as f64 * 0.001 {
                    out.push(f(Violation::new("paced_packet_early", format!(
                        "TOI {} transfer {}: packet #{} (stream index {}) emitted at {} us, due at {:.1} us (transfer start {} us, target {} us over {} source packets)", toi, n, idx, k, at, due, st, target, nb_packets)))
                        .witness(wit(json!({"obj": i}))));
                    break;
                }
                // prompt: at the first poll instant at or after the due time
                if strict_prompt {
                    // first poll instant that is certainly not before the due time (1 us of float slack)
                    let first_poll = poll_us.iter().map(|p| *p as i128).find(|p| (*p as f64) >= due + 1.0 && *p >= *st);
                    if let Some(fp) = first_poll {
                        if *at > fp && (*at - fp) > 1 {
                            out.push(f(Violation::new("paced_packet_late", format!(
                                "TOI {} transfer {}: packet #{} emitted at {} us although it was due at {:.1} us and the sender was polled (drained) at {} us with nothing of higher priority pending", toi, n, idx, at, due, fp)))
                                .witness(wit(json!({"obj": i}))));
                            break;
                        }
                    }
                }
            }
            states.push(util::fnv(&format!("paced{}", tp.len().min(6))));
        }
    }
    (n_judged, states)
}

fn run_timing(spec: &SenderSpec, objs: &[ObjSpec], tm: &[Timing], script: &[(When, Op)], opts: &ScriptOpts, strict_prompt: bool, must_finish: &[usize], shape: &str, cr: &mut CaseResult) {
    let witness = json!({"sender": spec.json(), "objects": objs.iter().map(|o| o.json()).collect::<Vec<_>>(), "timing": format!("{:?}", tm), "script": format!("{:?}", script), "first_instants": opts.instants.iter().take(12).collect::<Vec<_>>()});
    match util::guarded(|| run_script(spec, objs, script, opts)) {
        Ok(Ok(run)) => {
            let poll: Vec<u64> = run.instants.iter().map(|x| if opts.us { *x } else { *x * 1000 }).collect();
            let (n, st) = judge(&run, tm, &poll, strict_prompt, &mut cr.violations);
            // degenerate inputs must not stall the others
            for &k in must_finish {
                if let Some(t) = run.tois[k] {
                    let done = run.transfers_of(t).iter().any(|x| x.1.is_some());
                    if !done {
                        cr.violations.push(Violation::new("sender_stalled", format!("object {} (TOI {}) was not transmitted within the horizon although nothing should hold it back", k, t))
                            .with("with_empty_paced", objs.iter().zip(tm.iter()).any(|(o, t)| o.data.is_empty() && (t.target_us.is_some() || t.deadline_us.is_some())))
                            .witness(witness.clone()));
                    }
                }
            }
            cr.count("timing_facts_judged", n);
            cr.count("packets", run.stream.len() as u64);
            cr.states = st;
            if n > 0 || !must_finish.is_empty() {
                cr.shape = Some(util::fnv(shape));
            }
            cr.sample = Some(json!({"timing": format!("{:?}", tm), "poll_period_or_first_instants": opts.instants.iter().take(6).collect::<Vec<_>>(), "us": opts.us, "packets": run.stream.len(), "facts": n}));
        }
        Ok(Err(e)) => {
            if e.contains("at one instant") {
                cr.violations.push(Violation::new("reads_do_not_terminate", e).witness(witness));
            } else if !e.starts_with("publish") {
                cr.inconclusive = Some(e);
            }
        }
        Err(p) => {
            let v = if p.is_step_budget() {
                Violation::new("hang", format!("step budget exhausted at {}", p.step_site())).with("site", p.step_site())
            } else {
                Violation::new("panic", format!("{} @ {}", p.msg.chars().take(160).collect::<String>(), p.short_loc())).with("site", p.file())
            };
            cr.violations.push(v
                .with("empty_object_paced", objs.iter().zip(tm.iter()).any(|(o, t)| o.data.is_empty() && (t.target_us.is_some() || t.deadline_us.is_some())))
                .witness(witness));
        }
    }
    limit(&mut cr.violations, 2);
}

fn schedule(rng: &mut Rng, kind: usize, horizon_us: u64) -> (Vec<u64>, bool) {
    // returns instants in microseconds
    let mut v = vec![];
    let mut t = 0u64;
    let period: u64 = [1u64, 1000, 7000, 100_000, 1_000_000, 10_000_000][kind % 6];
    let mode = kind / 6; // 0 fixed, 1 jittered, 2 bursts + gaps, 3 time standing still
    while t <= horizon_us && v.len() < 4000 {
        v.push(t);
        t += match mode {
            0 => period,
            1 => rng.range(1, 2 * period),
            2 => {
                if rng.chance(1, 10) {
                    period * rng.range(5, 40)
                } else {
                    rng.range(0, period / 10 + 1)
                }
            }
            _ => {
                if rng.chance(1, 3) {
                    period
                } else {
                    0
                }
            }
        };
    }
    (v, true)
}

fn main() {
    let prop = Property {
        id: "C14",
        level: "exploration",
        rule: "sender runs under polling schedules (fixed periods 1 us..10 s, jittered, bursts followed by gaps, time standing still; microsecond virtual clock) x start times before/at/after now x carousel delay/interval incl. 0 x target durations and deadlines incl. zero and past x object sizes incl. 0 and 1 symbol x trigger_transfer_at, also pacing and carousel on the same object with one read per poll; judged on (instant, packet) pairs and Start/Stop instants: never before the start time or trigger timestamp, carousel gaps never shorter than configured, paced packet i never before start + i * target / ceil(L/E), and - for a single paced object under drain polling - each due packet emitted at the first poll at or after its due time; degenerate inputs must neither panic nor trip the step budget nor prevent the other objects of the session from being transmitted; a case is one run, non-trivial when at least one timing fact was judged; distinct = (schedule kind, timing configuration)",
        assumptions: vec![
            "lateness under coarse polling is never a violation; promptness is only judged for an object that is alone in its session under drain polling".into(),
            "time never goes backwards in generated schedules".into(),
            "float slack of 1 us + i ns on pacing due times".into(),
        ],
        exhaustive: false,
        budget_quick_s: 150,
        budget_thorough_s: 1500,
    };
    run_property(prop, |ctx| {
        let mut gens = vec![];
        // ---- start time / trigger / carousel
        let n1 = ctx.tier.pick(3000usize, 500_000);
        gens.push(Gen::new("start_carousel_trigger", n1, move |ctx, i| {
            let mut rng = Rng::keyed(ctx.seed, "C14a", 0, i as u64);
            let kind = rng.below(24) as usize;
            let (inst, _) = schedule(&mut rng, kind, 30_000_000);
            let mut spec = SenderSpec::new(OtiSpec::new(Fec::NoCode, 4096, 8, 0));
            spec.full_fdt = rng.chance(1, 2);
            spec.fdt_carousel = CarouselSpec::DelayMs(5000);
            let nobj = rng.range(1, 3) as usize;
            let mut objs = vec![];
            let mut tm = vec![];
            let mut script = vec![];
            for k in 0..nobj {
                let len = *rng.pick(&[0usize, 5, 16, 100]);
                let mut o = ObjSpec::new(gen_bytes(&mut rng, len), &format!("file:///t/{}", k));
                o.oti = Some(OtiSpec::new(Fec::NoCode, 16, 2, 0));
                o.max_transfer_count = rng.range(1, 3) as u32;
                let start_ms = match rng.below(5) {
                    0 => None,
                    1 => Some(0u64),
                    2 => Some(rng.range(1, 20_000)),
                    3 => Some(rng.range(1, 50)),
                    _ => Some(3_600_000), // far future: never starts within the horizon
                };
                o.start_ms = start_ms;
                o.carousel = match rng.below(5) {
                    0 => Some(CarouselSpec::DelayMs(0)),
                    1 => Some(CarouselSpec::DelayMs(rng.range(1, 3000))),
                    2 => Some(CarouselSpec::IntervalMs(rng.range(0, 3000))),
                    _ => None,
                };
                let trig = if o.carousel.is_some() && rng.chance(1, 4) { Some((rng.range(5, 60) as usize, if rng.chance(1, 2) { Some(rng.range(0, 25_000)) } else { None })) } else { None };
                tm.push(Timing { start_us: start_ms.map(|m| m as i128 * 1000), trigger: trig, carousel: o.carousel, target_us: None, deadline_us: None });
                script.push((When::Start, Op::Add(k)));
                objs.push(o);
            }
            script.push((When::Start, Op::Publish));
            for (k, t) in tm.iter().enumerate() {
                if let Some((pk, ts)) = t.trigger {
                    script.push((When::Packets(pk), Op::Trigger(k, ts)));
                }
            }
            script.sort_by_key(|s| match s.0 { When::Start => 0, When::Packets(n) => 1 + n, When::TimeMs(_) => usize::MAX });
            let opts = ScriptOpts { instants: inst, drain: rng.chance(3, 4), max_packets: 3000, max_per_instant: 20_000, stop_when_empty: false, us: true };
            let mut cr = CaseResult::default();
            run_timing(&spec, &objs, &tm, &script, &opts, false, &[], &format!("a|{}|{:?}", kind, tm.iter().map(|t| (t.start_us.is_some(), t.carousel.is_some(), t.trigger.is_some())).collect::<Vec<_>>()), &mut cr);
            cr
        }));
        // ---- pacing: single object, drain polling => never early AND prompt
        let n2 = ctx.tier.pick(3000usize, 500_000);
        gens.push(Gen::new("pacing_single_object", n2, move |ctx, i| {
            let mut rng = Rng::keyed(ctx.seed, "C14b", 0, i as u64);
            let kind = rng.below(18) as usize; // no "standing still" bursts needed here but allowed below
            let target_us: u64 = *rng.pick(&[1u64, 1000, 10_000, 250_000, 2_000_000, 7_000_000]);
            let (inst, _) = schedule(&mut rng, kind, target_us * 2 + 3_000_000);
            let mut spec = SenderSpec::new(OtiSpec::new(Fec::NoCode, 4096, 8, 0));
            spec.full_fdt = rng.chance(1, 2);
            spec.fdt_carousel = CarouselSpec::DelayMs(3_600_000);
            let e = *rng.pick(&[8u16, 16]);
            let nsym = *rng.pick(&[1usize, 2, 5, 12, 40]);
            let parity = *rng.pick(&[0u32, 2]);
            let fec = if parity == 0 { Fec::NoCode } else { Fec::Rs28 };
            let olen = nsym * e as usize - rng.below(e as u64) as usize;
            let mut o = ObjSpec::new(gen_bytes(&mut rng, olen), "file:///p/0");
            // one case in four: the object travels content-encoded and compresses well - the pacing speaks of the packets
            // that are SENT (transfer length), not of the size of the content
            if rng.chance(1, 4) {
                let mut d = vec![b'a'; nsym * e as usize * 6];
                for (k, x) in d.iter_mut().enumerate() {
                    if k % 97 == 0 {
                        *x = (k / 97) as u8;
                    }
                }
                o = ObjSpec::new(d, "file:///p/0");
                o.cenc = *rng.pick(&[CencSpec::Gzip, CencSpec::Zlib, CencSpec::Deflate]);
            }
            o.oti = Some(OtiSpec::new(fec, e, 5, parity));
            let deadline = rng.chance(1, 3);
            let start_off = *rng.pick(&[0u64, 0, 500_000]);
            let tmg = if deadline {
                o.deadline_ms = Some(((start_off + target_us) / 1000) as i64);
                Timing { start_us: None, trigger: None, carousel: None, target_us: None, deadline_us: Some(((start_off + target_us) / 1000 * 1000) as i128) }
            } else {
                o.target_ms = Some(target_us / 1000);
                Timing { start_us: None, trigger: None, carousel: None, target_us: Some(target_us / 1000 * 1000), deadline_us: None }
            };
            if start_off > 0 {
                o.start_ms = Some(start_off / 1000);
            }
            let mut tmg = tmg;
            tmg.start_us = if start_off > 0 { Some(start_off as i128) } else { None };
            let script = vec![(When::Start, Op::Add(0)), (When::Start, Op::Publish)];
            let opts = ScriptOpts { instants: inst, drain: true, max_packets: 3000, max_per_instant: 20_000, stop_when_empty: true, us: true };
            let mut cr = CaseResult::default();
            run_timing(&spec, &[o], &[tmg], &script, &opts, true, &[], &format!("b|{}|{}|{}|{}|{}", kind, target_us, nsym, parity, deadline), &mut cr);
            cr
        }));
        // ---- pacing AND carousel on the same object, under coarse / irregular polling and with a limited number of reads
        // per poll: the delay between two transfers counts from the end of the previous one as the caller saw it, not
        // from where its pacing clock stood
        let n3 = ctx.tier.pick(3000usize, 400_000);
        gens.push(Gen::new("paced_carousel", n3, move |ctx, i| {
            let mut rng = Rng::keyed(ctx.seed, "C14pc", 0, i as u64);
            let kind = rng.below(24) as usize;
            let target_us: u64 = *rng.pick(&[0u64, 1000, 250_000, 2_000_000, 4_000_000]);
            let (inst, _) = schedule(&mut rng, kind, 30_000_000);
            let mut spec = SenderSpec::new(OtiSpec::new(Fec::NoCode, 4096, 8, 0));
            spec.full_fdt = rng.chance(1, 2);
            spec.fdt_carousel = CarouselSpec::DelayMs(3_600_000);
            let e = 16u16;
            let nsym = *rng.pick(&[1usize, 4, 12]);
            let mut o = ObjSpec::new(gen_bytes(&mut rng, nsym * e as usize), "file:///pc/0");
            o.oti = Some(OtiSpec::new(Fec::NoCode, e, 5, 0));
            o.max_transfer_count = rng.range(1, 2) as u32;
            let car = if rng.chance(3, 4) { CarouselSpec::DelayMs(*rng.pick(&[100u64, 500, 3000, 8000])) } else { CarouselSpec::IntervalMs(*rng.pick(&[500u64, 5000])) };
            o.carousel = Some(car);
            let tmg = if rng.chance(1, 3) {
                // a deadline: once it is past, every later cycle runs with a zero tick
                o.deadline_ms = Some((target_us / 1000) as i64);
                Timing { start_us: None, trigger: None, carousel: Some(car), target_us: None, deadline_us: Some((target_us / 1000 * 1000) as i128) }
            } else {
                o.target_ms = Some(target_us / 1000);
                Timing { start_us: None, trigger: None, carousel: Some(car), target_us: Some(target_us / 1000 * 1000), deadline_us: None }
            };
            let mut script = vec![(When::Start, Op::Add(0)), (When::Start, Op::Publish)];
            // one case in three: the object is removed at some packet index (first transfer with or without the
            // allow-immediate-stop option, or a later one); the packet that closes it is paced like any other
            let removal = rng.chance(1, 3);
            if removal {
                o.immediate_stop = *rng.pick(&[None, Some(true), Some(false)]);
                let at = rng.range(1, 3 * nsym as u64 + 2) as usize;
                script.push((When::Packets(at), Op::Remove(0)));
                if rng.chance(1, 2) {
                    script.push((When::Packets(at), Op::Publish));
                }
            }
            let mut opts = ScriptOpts { instants: inst, drain: rng.chance(1, 2), max_packets: 3000, max_per_instant: 20_000, stop_when_empty: false, us: true };
            if !opts.drain {
                opts.max_per_instant = 1;
            }
            let mut cr = CaseResult::default();
            run_timing(&spec, &[o], &[tmg], &script, &opts, false, &[], &format!("pc|{}|{}|{}|{:?}|{}", kind, target_us, nsym, car, removal), &mut cr);
            cr
        }));
        // ---- degenerate inputs next to a plain object that must still be transmitted
        let degenerate: Vec<(&str, usize, Option<u64>, Option<i64>, Option<CarouselSpec>, Option<u64>)> = vec![
            // (name, length, target ms, deadline ms (may be negative = before the epoch used), carousel, start ms)
            ("empty+duration", 0, Some(1000), None, None, None),
            ("empty+zero duration", 0, Some(0), None, None, None),
            ("empty+deadline", 0, None, Some(2000), None, None),
            ("empty+past deadline", 0, None, Some(-5000), None, None),
            ("zero duration", 100, Some(0), None, None, None),
            ("past deadline", 100, None, Some(-5000), None, None),
            ("deadline now", 100, None, Some(0), None, None),
            ("1 symbol+duration", 5, Some(500), None, None, None),
            ("zero carousel delay", 40, None, None, Some(CarouselSpec::DelayMs(0)), None),
            ("zero carousel interval", 40, None, None, Some(CarouselSpec::IntervalMs(0)), None),
            ("empty carousel zero delay", 0, None, None, Some(CarouselSpec::DelayMs(0)), None),
            ("start far in the future", 40, None, None, None, Some(4_000_000_000)),
            ("huge duration", 100, Some(u32::MAX as u64 * 1000), None, None, None),
            ("duration + carousel 0", 60, Some(300), None, Some(CarouselSpec::DelayMs(0)), None),
        ];
        let nd = degenerate.len();
        gens.push(Gen::new("degenerate", nd * 8, move |ctx, i| {
            let (name, len, target, deadline, carousel, start) = degenerate[i % nd].clone();
            let variant = i / nd;
            let mut rng = Rng::keyed(ctx.seed, "C14d", 0, i as u64);
            let mut spec = SenderSpec::new(OtiSpec::new(Fec::NoCode, 4096, 8, 0));
            spec.full_fdt = variant % 2 == 0;
            spec.queues = if variant % 4 < 2 { vec![(0, 2)] } else { vec![(0, 1), (3, 1)] };
            let mut d = ObjSpec::new(gen_bytes(&mut rng, len), "file:///d/degenerate");
            d.oti = Some(OtiSpec::new(if variant >= 4 { Fec::Rs28 } else { Fec::NoCode }, 16, 2, if variant >= 4 { 1 } else { 0 }));
            d.target_ms = target;
            d.deadline_ms = deadline;
            d.carousel = carousel;
            d.start_ms = start;
            d.priority = 0;
            let mut plain = ObjSpec::new(gen_bytes(&mut rng, 90), "file:///d/plain");
            plain.oti = Some(OtiSpec::new(Fec::NoCode, 16, 2, 0));
            plain.priority = spec.queues.last().unwrap().0;
            let tm = vec![
                Timing { start_us: start.map(|m| m as i128 * 1000), trigger: None, carousel, target_us: target.map(|m| m.saturating_mul(1000)), deadline_us: deadline.map(|m| m as i128 * 1000) },
                Timing { start_us: None, trigger: None, carousel: None, target_us: None, deadline_us: None },
            ];
            let script = vec![(When::Start, Op::Add(0)), (When::Start, Op::Add(1)), (When::Start, Op::Publish)];
            let opts = ScriptOpts { instants: (0..600u64).map(|k| k * 10_000).collect(), drain: true, max_packets: 5000, max_per_instant: 20_000, stop_when_empty: false, us: true };
            let mut cr = CaseResult::default();
            // a paced / carousel object of the higher queue legitimately delays the plain one only while it is ready;
            // with a 6 s horizon every finite case leaves room, except the huge-duration pacing in the same or a higher queue
            let must: Vec<usize> = if name == "huge duration" || name == "duration + carousel 0" || name.contains("zero carousel") { vec![] } else { vec![1] };
            run_timing(&spec, &[d, plain], &tm, &script, &opts, false, &must, &format!("d|{}|{}", name, variant), &mut cr);
            if cr.sample.is_some() {
                cr.sample = Some(json!({"degenerate": name, "variant": variant, "observed": cr.sample}));
            }
            cr
        }));
        // ---- clock near the Unix epoch / far future
        gens.push(Gen::new("extreme_clock", 6, move |_ctx, i| {
            let mut cr = CaseResult::default();
            let now = match i {
                0 => SystemTime::UNIX_EPOCH,
                1 => SystemTime::UNIX_EPOCH + Duration::from_micros(1),
                2 => SystemTime::UNIX_EPOCH + Duration::from_secs((1u64 << 32) - vh::wire::NTP_UNIX_OFFSET - 1),
                3 => SystemTime::UNIX_EPOCH + Duration::from_secs(1u64 << 33),
                4 => SystemTime::UNIX_EPOCH + Duration::from_secs(253_402_300_799),
                _ => SystemTime::UNIX_EPOCH - Duration::from_secs(10),
            };
            let r = util::guarded(|| {
                let spec = SenderSpec::new(OtiSpec::new(Fec::NoCode, 1400, 8, 0));
                let mut s = spec.sender()?;
                let mut o = ObjSpec::new(vec![7u8; 3000], "file:///x/clock");
                o.target_ms = Some(1000);
                o.cache = Some(CacheSpec::ExpiresSecs(100));
                let b = build_object(&o)?;
                s.add_object(0, b.desc).map_err(|e| format!("{:?}", e))?;
                let _ = s.publish(now);
                let mut n = 0;
                let mut t = now;
                for _ in 0..200 {
                    while let Some(_p) = util::with_budget(READ_BUDGET, || s.read(t)) {
                        n += 1;
                        if n > 1000 {
                            break;
                        }
                    }
                    t += Duration::from_millis(50);
                }
                Ok::<_, String>(n)
            });
            match r {
                Ok(Ok(n)) => {
                    cr.shape = Some(util::fnv(&format!("clock{}", i)));
                    cr.sample = Some(json!({"clock_case": i, "packets": n}));
                    cr.count("packets", n as u64);
                }
                Ok(Err(e)) => cr.inconclusive = Some(e),
                Err(p) => cr.violations.push(Violation::new(if p.is_step_budget() { "hang" } else { "panic" }, format!("sender with clock case {}: {} @ {}", i, p.msg.chars().take(160).collect::<String>(), p.short_loc()))
                    .with("site", if p.is_step_budget() { p.step_site() } else { p.file() }).with("clock_case", i as u64)),
            }
            cr
        }));
        gens
    });
}
