//! C15 - TOI allocation: non-zero, within the configured width, unique while
//! live, exactly the TOI on the wire and in the FDT; reusable only after release;
//! for any initial value incl. the random default and across wrap-around; handles
//! and sender usable across threads.
use flute::sender::{Sender, Toi};
use serde_json::json;
use std::collections::{BTreeMap, BTreeSet};
use std::sync::atomic::{AtomicU64, Ordering};
use std::sync::{Arc, Mutex};
use vh::report::*;

use vh::session::*;
use vh::util::{self, Rng};

fn assert_send<T: Send>() {}
fn assert_sync<T: Sync>() {}
#[allow(dead_code)]
fn compile_time_claims() {
    // "TOI handles and the sender can be moved and used across threads"
    assert_send::<Sender>();
    assert_send::<Box<Toi>>();
    assert_sync::<Toi>();
}

const WIDTHS: [u8; 6] = [16, 32, 48, 64, 80, 112];

fn maxv(w: u8) -> u128 {
    (1u128 << w) - 1
}

struct Model {
    w: u8,
    live: BTreeSet<u128>,
}

impl Model {
    fn check_new(&mut self, v: u128, what: &str, init: &str, trace: &[String]) -> Option<Violation> {
        let mk = |clause: &str, detail: String| {
            Some(Violation::new(clause, detail).with("width", self.w as u64).with("initial", init).with("via", what)
                .witness(json!({"width": self.w, "initial": init, "operations": trace})))
        };
        if v == 0 {
            return mk("toi_zero", format!("{} returned TOI 0", what));
        }
        if v > maxv(self.w) {
            return mk("toi_exceeds_width", format!("{} returned TOI {} which does not fit {} bits", what, v, self.w));
        }
        if self.live.contains(&v) {
            return mk("toi_not_unique", format!("{} returned TOI {} which is still reserved / attached to a live object", what, v));
        }
        self.live.insert(v);
        None
    }
}

fn initial_values(w: u8) -> Vec<(String, Option<u128>)> {
    vec![
        ("1".into(), Some(1)),
        ("0".into(), Some(0)),
        ("max-2".into(), Some(maxv(w) - 2)),
        ("max-1".into(), Some(maxv(w) - 1)),
        ("max".into(), Some(maxv(w))),
        ("2^w".into(), if w < 112 { Some(1u128 << w) } else { Some(1u128 << 112) }),
        ("u128::MAX".into(), Some(u128::MAX)),
        ("random".into(), None),
    ]
}

/// Run one operation sequence (ops as base-6 digits) against a fresh sender.
fn run_sequence(w: u8, init_name: &str, init: Option<u128>, ops: &[u8], out: &mut Vec<Violation>) -> (u64, u64) {
    run_sequence_tsi(w, 1, init_name, init, ops, out)
}

fn run_sequence_tsi(w: u8, tsi: u64, init_name: &str, init: Option<u128>, ops: &[u8], out: &mut Vec<Violation>) -> (u64, u64) {
    let mut spec = SenderSpec::new(OtiSpec::new(Fec::NoCode, 1400, 8, 0));
    spec.tsi = tsi;
    spec.toi_bits = w;
    spec.toi_initial = init;
    let mut trace: Vec<String> = vec![];
    let r = util::guarded(|| {
        let mut viol: Vec<Violation> = vec![];
        let mut sender = match spec.sender() {
            Ok(s) => util::LeakOnPanic::new(s),
            Err(_) => return (viol, 0, 0),
        };
        let mut m = Model { w, live: BTreeSet::new() };
        let mut handles: util::LeakOnPanic<Vec<Box<Toi>>> = util::LeakOnPanic::new(vec![]);
        let mut objects: Vec<u128> = vec![]; // TOIs attached to live objects
        let mut n_alloc = 0u64;
        let mut n_pk = 0u64;
        let mut now_ms = 0u64;
        for (step, op) in ops.iter().enumerate() {
            match op {
                0 => {
                    let h = util::with_budget(1_000_000, || sender.allocate_toi());
                    let v = h.get();
                    trace.push(format!("alloc -> {}", v));
                    n_alloc += 1;
                    if let Some(x) = m.check_new(v, "allocate_toi", init_name, &trace) {
                        viol.push(x);
                        { std::mem::forget(std::mem::take(&mut *handles)); return (viol, n_alloc, n_pk); }
                    }
                    handles.push(h);
                }
                1 => {
                    if !handles.is_empty() {
                        let h = handles.remove(0);
                        trace.push(format!("drop oldest handle {}", h.get()));
                        m.live.remove(&h.get());
                        drop(h);
                    }
                }
                2 => {
                    if let Some(h) = handles.pop() {
                        trace.push(format!("drop newest handle {}", h.get()));
                        m.live.remove(&h.get());
                        drop(h);
                    }
                }
                6 => {
                    // an object that add_object REFUSES (its own No-Code OTI of one byte per block cannot number 70 000
                    // blocks): whatever TOI was drawn for it is gone, nothing else may change
                    let mut o = ObjSpec::new(vec![1u8; 70_000], &format!("file:///toi/refused{}", step));
                    o.oti = Some(OtiSpec::new(Fec::NoCode, 1, 1, 0));
                    o.md5 = false;
                    let b = build_object(&o).unwrap();
                    match sender.add_object(0, b.desc) {
                        Ok(t) => trace.push(format!("add_object(oversized) unexpectedly accepted -> {}", t)),
                        Err(_) => trace.push("add_object(oversized) refused".into()),
                    }
                }
                3 | 4 | 7 => {
                    let o = ObjSpec::new(vec![step as u8; 40 + step], &format!("file:///toi/{}", step));
                    let mut b = build_object(&o).unwrap();
                    let expected = if *op == 7 && handles.len() >= 2 {
                        // the application changes its mind: a first reserved TOI is assigned, then a second one. The
                        // object carries the TOI assigned last; the first one is given back (its handle is dropped)
                        let first = handles.remove(0);
                        let second = handles.pop().unwrap();
                        let (v1, v2) = (first.get(), second.get());
                        b.desc.set_toi(first);
                        b.desc.set_toi(second);
                        trace.push(format!("set_toi({}) then set_toi({})", v1, v2));
                        m.live.remove(&v1);
                        Some(v2)
                    } else if (*op == 3 || *op == 7) && !handles.is_empty() {
                        let h = handles.remove(0);
                        let v = h.get();
                        b.desc.set_toi(h);
                        Some(v)
                    } else {
                        None
                    };
                    match sender.add_object(0, b.desc) {
                        Ok(t) => {
                            trace.push(format!("add_object({}) -> {}", if expected.is_some() { "with handle" } else { "implicit" }, t));
                            match expected {
                                Some(v) => {
                                    if v != t {
                                        viol.push(Violation::new("toi_handle_mismatch", format!("add_object returned {} for an object carrying handle {}", t, v)).with("width", w as u64).with("initial", init_name)
                                            .witness(json!({"operations": trace})));
                                        { std::mem::forget(std::mem::take(&mut *handles)); return (viol, n_alloc, n_pk); }
                                    }
                                }
                                None => {
                                    n_alloc += 1;
                                    if let Some(x) = m.check_new(t, "add_object", init_name, &trace) {
                                        viol.push(x);
                                        { std::mem::forget(std::mem::take(&mut *handles)); return (viol, n_alloc, n_pk); }
                                    }
                                }
                            }
                            objects.push(t);
                        }
                        Err(e) => trace.push(format!("add_object failed: {:?}", e)),
                    }
                }
                _ => {
                    // finish every object: publish, drain on the virtual clock, compare wire and FDT TOIs
                    if objects.is_empty() {
                        continue;
                    }
                    trace.push(format!("publish + drain ({} objects)", objects.len()));
                    let _ = sender.publish(util::at(now_ms));
                    let mut stream = vec![];
                    for _ in 0..60 {
                        let _ = drain(&mut sender, util::at(now_ms), 5000, &mut stream, None);
                        now_ms += 100;
                        if sender.nb_objects() == 0 {
                            break;
                        }
                    }
                    n_pk += stream.len() as u64;
                    let want: BTreeSet<u128> = objects.iter().copied().collect();
                    let wire: BTreeSet<u128> = stream.iter().filter(|p| p.toi() != 0).map(|p| p.toi()).collect();
                    if wire != want {
                        viol.push(Violation::new("toi_on_wire_differs", format!("objects were given TOIs {:?} but the packets carry TOIs {:?}", want, wire))
                            .with("width", w as u64).with("initial", init_name).with("wire_truncated", want.iter().any(|v| *v > maxv(112)))
                            .witness(json!({"operations": trace})));
                        { std::mem::forget(std::mem::take(&mut *handles)); return (viol, n_alloc, n_pk); }
                    }
                    // FDT listing
                    let mut listed: BTreeSet<u128> = BTreeSet::new();
                    for p in stream.iter().filter(|p| p.toi() == 0) {
                        let x = String::from_utf8_lossy(p.payload()).to_string();
                        for part in x.split("TOI=\"").skip(1) {
                            if let Some(t) = part.split('"').next().and_then(|s| s.parse::<u128>().ok()) {
                                listed.insert(t);
                            }
                        }
                    }
                    if !want.is_subset(&listed) {
                        viol.push(Violation::new("toi_in_fdt_differs", format!("objects were given TOIs {:?} but the FDT lists {:?}", want, listed))
                            .with("width", w as u64).with("initial", init_name).witness(json!({"operations": trace})));
                        { std::mem::forget(std::mem::take(&mut *handles)); return (viol, n_alloc, n_pk); }
                    }
                    if sender.nb_objects() == 0 {
                        for t in objects.drain(..) {
                            m.live.remove(&t);
                        }
                    }
                }
            }
        }
        (viol, n_alloc, n_pk)
    });
    match r {
        Ok((v, a, p)) => {
            out.extend(v);
            (a, p)
        }
        Err(p) => {
            let v = if p.is_step_budget() {
                Violation::new("hang", format!("step budget exhausted at {}", p.step_site())).with("site", p.step_site())
            } else {
                Violation::new("panic", format!("{} @ {}", p.msg, p.short_loc())).with("site", p.file())
            };
            out.push(v.with("width", w as u64).with("initial", init_name).witness(json!({"ops_digits": ops})));
            (0, 0)
        }
    }
}

static SEQ: AtomicU64 = AtomicU64::new(0);
static STILL: AtomicU64 = AtomicU64::new(0);

#[derive(Clone, Debug)]
enum TEv {
    Alloc { call: u64, ret: u64, v: u128, id: u64 },
    Drop { call: u64, ret: u64, id: u64 },
}

fn threaded(seed: u64, nthreads: usize, ops_per_thread: usize, w: u8, out: &mut Vec<Violation>) -> (u64, u64) {
    let mut spec = SenderSpec::new(OtiSpec::new(Fec::NoCode, 1400, 8, 0));
    spec.toi_bits = w;
    spec.toi_initial = Some(maxv(w) - 50);
    let sender = Arc::new(Mutex::new(spec.sender().unwrap()));
    let pool: Arc<Mutex<Vec<(u64, Box<Toi>)>>> = Arc::new(Mutex::new(vec![]));
    let log: Arc<Mutex<Vec<TEv>>> = Arc::new(Mutex::new(vec![]));
    let ids = Arc::new(AtomicU64::new(0));
    let r = util::guarded(|| {
        std::thread::scope(|s| {
            for t in 0..nthreads {
                let sender = sender.clone();
                let pool = pool.clone();
                let log = log.clone();
                let ids = ids.clone();
                s.spawn(move || {
                    let mut rng = Rng::keyed(seed, "C15t", t as u64, 0);
                    let mut mine: Vec<(u64, Box<Toi>)> = vec![];
                    let mut local: Vec<TEv> = vec![];
                    for _ in 0..ops_per_thread {
                        match rng.below(5) {
                            0 | 1 => {
                                let call = SEQ.fetch_add(1, Ordering::SeqCst);
                                let h = sender.lock().unwrap().allocate_toi();
                                let ret = SEQ.fetch_add(1, Ordering::SeqCst);
                                let id = ids.fetch_add(1, Ordering::SeqCst);
                                local.push(TEv::Alloc { call, ret, v: h.get(), id });
                                if rng.chance(1, 2) {
                                    mine.push((id, h));
                                } else {
                                    pool.lock().unwrap().push((id, h)); // handle moves to another thread
                                }
                            }
                            2 => {
                                if let Some((id, h)) = mine.pop() {
                                    let call = SEQ.fetch_add(1, Ordering::SeqCst);
                                    drop(h); // without the sender lock
                                    let ret = SEQ.fetch_add(1, Ordering::SeqCst);
                                    local.push(TEv::Drop { call, ret, id });
                                }
                            }
                            3 => {
                                let got = pool.lock().unwrap().pop();
                                if let Some((id, h)) = got {
                                    let call = SEQ.fetch_add(1, Ordering::SeqCst);
                                    drop(h);
                                    let ret = SEQ.fetch_add(1, Ordering::SeqCst);
                                    local.push(TEv::Drop { call, ret, id });
                                }
                            }
                            _ => {
                                if mine.len() > 40 {
                                    let (id, h) = mine.remove(0);
                                    let call = SEQ.fetch_add(1, Ordering::SeqCst);
                                    drop(h);
                                    let ret = SEQ.fetch_add(1, Ordering::SeqCst);
                                    local.push(TEv::Drop { call, ret, id });
                                }
                            }
                        }
                    }
                    log.lock().unwrap().extend(local);
                    // remaining handles die with the thread: no event needed (never reused before the end)
                    drop(mine);
                });
            }
        });
    });
    if let Err(p) = r {
        out.push(Violation::new("panic", format!("threaded allocation panicked: {} @ {}", p.msg, p.short_loc())).with("site", p.file()).with("threaded", true));
        return (0, 0);
    }
    let log = log.lock().unwrap().clone();
    let mut allocs: BTreeMap<u64, (u64, u64, u128)> = BTreeMap::new();
    let mut drops: BTreeMap<u64, (u64, u64)> = BTreeMap::new();
    for e in &log {
        match e {
            TEv::Alloc { call, ret, v, id } => {
                allocs.insert(*id, (*call, *ret, *v));
            }
            TEv::Drop { call, ret, id } => {
                drops.insert(*id, (*call, *ret));
            }
        }
    }
    let mut by_v: BTreeMap<u128, Vec<(u64, u64, u64)>> = BTreeMap::new(); // v -> (ret_alloc, drop_call or MAX, call_alloc)
    for (id, (call, ret, v)) in &allocs {
        if *v == 0 || *v > maxv(w) {
            out.push(Violation::new(if *v == 0 { "toi_zero" } else { "toi_exceeds_width" }, format!("threaded allocation returned {}", v)).with("threaded", true).with("width", w as u64));
        }
        let dc = drops.get(id).map(|d| d.0).unwrap_or(u64::MAX);
        by_v.entry(*v).or_default().push((*ret, dc, *call));
    }
    let mut reuse = 0u64;
    for (v, list) in &by_v {
        if list.len() > 1 {
            reuse += 1;
        }
        for a in list {
            for b in list {
                // b allocated entirely inside the definitely-live interval of a
                if a != b && b.2 > a.0 && b.0 < a.1 {
                    out.push(Violation::new("toi_not_unique", format!(
                        "threads: TOI {} was returned by an allocation spanning events [{}, {}] while an earlier handle with the same value was definitely live (allocated before event {}, dropped from event {})", v, b.2, b.0, a.0, a.1))
                        .with("threaded", true).with("width", w as u64));
                    return (allocs.len() as u64, reuse);
                }
            }
        }
    }
    (allocs.len() as u64, reuse)
}

fn main() {
    let prop = Property {
        id: "C15",
        level: "exploration",
        rule: "reference set model (Live) checked after every operation: (sequences) ALL operation sequences over {allocate, drop oldest handle, drop newest handle, add object with handle, add object implicitly, publish+drain until the objects are gone} up to depth d (6 quick, 8 thorough) for each TOI width 16..112 and initial values {1, 0, max-2, max-1, max, 2^w, u128::MAX, random default}; wire and FDT TOIs compared with the allocated values through the independent decoder; (rejected_adds) all sequences of depth 5 over {allocate, add refused by add_object, implicit add, drop} from the last values of every width; (inner_boundaries) allocation histories started 0-3 values before every inner 16-bit boundary 2^k < 2^w of the width, for five TSI values covering the TSI field classes, every allocated value attached, transmitted and compared on the wire and in the FDT; (wrap) 70 000 allocations across the 16-bit wrap with a sliding window of live handles and with all but a few values live, also while an object that was removed during its first transfer is still sending with its TOI; (threads) 2-8 real threads allocating through Arc<Mutex<Sender>> and dropping handles (moved between threads) without the lock, merged log ordered by a global sequence counter with call/return events; Send/Sync claims asserted at compile time; a case is one batch of sequences, non-trivial when allocations were observed; distinct = (width, initial, batch); reassigned_handles: a reserved TOI assigned to an object and replaced by another before add_object - the object carries the last one, the first is free again",
        assumptions: vec![
            "a handle drop is effective somewhere inside its call/return interval: reuse is only flagged when an allocation lies entirely inside the definitely-live interval of the same value".into(),
            "TOI 0 handles created internally for FDTs are not modelled".into(),
        ],
        exhaustive: true,
        budget_quick_s: 150,
        budget_thorough_s: 1500,
    };
    run_property(prop, |ctx| {
        let mut gens = vec![];
        let depth = ctx.tier.pick(6u32, 8);
        let total = 6usize.pow(depth);
        const CH: usize = 648;
        let inits = 8usize;
        let plan = WIDTHS.len() * inits * total.div_ceil(CH);
        gens.push(Gen::new("all_sequences", plan, move |ctx, i| {
            let chunks = total.div_ceil(CH);
            let c = i % chunks;
            let ii = (i / chunks) % inits;
            let w = WIDTHS[i / (chunks * inits)];
            let (iname, ival) = initial_values(w)[ii].clone();
            let mut cr = CaseResult::default();
            let (mut na, mut np) = (0, 0);
            for code in (c * CH)..((c + 1) * CH).min(total) {
                let mut ops = vec![];
                let mut x = code;
                for _ in 0..depth {
                    ops.push((x % 6) as u8);
                    x /= 6;
                }
                // the random default differs per draw: a different seed is of no use, every run draws anew
                let (a, p) = run_sequence(w, &iname, ival, &ops, &mut cr.violations);
                na += a;
                np += p;
                if distinct_sigs(&cr.violations) > 3 || cr.violations.len() > 50 {
                    break;
                }
            }
            let _ = ctx;
            cr.count("allocations", na);
            cr.count("packets_compared", np);
            if na > 0 {
                cr.shape = Some(util::fnv(&format!("{}|{}|{}", w, iname, c)));
            }
            cr.states = vec![util::fnv(&format!("{}|{}", w, iname))];
            if c == 0 {
                cr.sample = Some(json!({"width": w, "initial": iname, "depth": depth, "sequences": CH.min(total), "allocations": na}));
            }
            limit(&mut cr.violations, 2);
            cr
        }));
        // ---- allocation histories that walk across every inner 16-bit boundary of the configured width: the
        // values 2^k-2 .. 2^k+1 (k = 16, 32, .. < w) are the ones where the width of the TOI field on the wire
        // changes; each is allocated, attached, transmitted and compared, for the three TSI field classes
        let mut bplan: Vec<(u8, u32, u64)> = vec![];
        for w in WIDTHS {
            for k in (16..w as u32).step_by(16) {
                for tsi in [1u64, 0x1_0000, 0xFFFF_FFFF, 0x1_0000_0000, 0xFFFF_FFFF_FFFF] {
                    bplan.push((w, k, tsi));
                }
            }
        }
        let nb = bplan.len();
        gens.push(Gen::new("inner_boundaries", nb * 4, move |_ctx, i| {
            let (w, k, tsi) = bplan[i % nb];
            let back = (i / nb) as u128; // the allocator starts `back` values before 2^k
            let init = (1u128 << k) - back;
            let iname = format!("2^{}-{}", k, back);
            let mut cr = CaseResult::default();
            let (mut na, mut np) = (0, 0);
            // histories: allocate+attach one by one; allocate several, drop some, attach the rest; implicit only
            let histories: [&[u8]; 5] = [
                &[0, 3, 5, 0, 3, 5, 0, 3, 5, 0, 3, 5, 0, 3, 5],
                &[0, 0, 0, 0, 0, 3, 3, 3, 3, 3, 5],
                &[0, 0, 0, 1, 3, 2, 0, 0, 3, 3, 5],
                &[4, 4, 4, 4, 4, 5],
                &[0, 1, 0, 1, 0, 3, 5, 4, 5, 0, 3, 5],
            ];
            for h in histories {
                let (a, p) = run_sequence_tsi(w, tsi, &iname, Some(init), h, &mut cr.violations);
                na += a;
                np += p;
            }
            cr.count("allocations", na);
            cr.count("packets_compared", np);
            if na > 0 && np > 0 {
                cr.shape = Some(util::fnv(&format!("b|{}|{}|{}|{}", w, k, tsi, back)));
            }
            cr.states = vec![util::fnv(&format!("b|{}|{}", w, k))];
            if i % 37 == 0 {
                cr.sample = Some(json!({"width": w, "first_value": iname, "tsi": tsi, "histories": histories.len(), "allocations": na, "packets_compared": np}));
            }
            limit(&mut cr.violations, 2);
            cr
        }));
        // ---- histories with REFUSED add_object calls (error path) next to the wrap: all sequences of depth 5 over
        // {allocate, refused add, implicit add, drop oldest handle} for every width from the last values of the TOI space
        let ralpha: [u8; 4] = [0, 6, 4, 1];
        let rinits: Vec<(&'static str, fn(u8) -> u128)> = vec![("max-2", |w| maxv(w) - 2), ("max-1", |w| maxv(w) - 1), ("max", |w| maxv(w)), ("1", |_| 1)];
        let nri = rinits.len();
        let rinits2 = rinits.clone();
        gens.push(Gen::new("rejected_adds", WIDTHS.len() * nri, move |_ctx, i| {
            let w = WIDTHS[i / nri];
            let (iname, f) = rinits[i % nri];
            let init = f(w);
            let mut cr = CaseResult::default();
            let (mut na, mut np) = (0, 0);
            for code in 0..4usize.pow(5) {
                let mut ops = vec![];
                let mut x = code;
                for _ in 0..5 {
                    ops.push(ralpha[x % 4]);
                    x /= 4;
                }
                ops.push(5);
                let (a, p) = run_sequence(w, iname, Some(init), &ops, &mut cr.violations);
                na += a;
                np += p;
                if cr.violations.len() > 20 {
                    break;
                }
            }
            cr.count("allocations", na);
            cr.count("packets_compared", np);
            if na > 0 {
                cr.shape = Some(util::fnv(&format!("rej|{}|{}", w, iname)));
            }
            cr.states = vec![util::fnv(&format!("rej|{}", w))];
            cr.sample = Some(json!({"width": w, "initial": iname, "sequences": 1024, "allocations": na}));
            limit(&mut cr.violations, 2);
            cr
        }));
        // ---- a TOI assigned to an object and then replaced by another reserved TOI before add_object: all sequences of
        // depth 6 over {allocate, add with re-assigned handles, add with one handle, drop newest handle}
        let salpha: [u8; 4] = [0, 7, 3, 2];
        gens.push(Gen::new("reassigned_handles", WIDTHS.len() * nri, move |_ctx, i| {
            let w = WIDTHS[i / nri];
            let (iname, f) = rinits2[i % nri];
            let init = f(w);
            let mut cr = CaseResult::default();
            let (mut na, mut np) = (0, 0);
            for code in 0..4usize.pow(6) {
                let mut ops = vec![0u8, 0];
                let mut x = code;
                for _ in 0..6 {
                    ops.push(salpha[x % 4]);
                    x /= 4;
                }
                ops.push(5);
                // and once more around: what was given back is allocated again while the objects are gone
                ops.extend_from_slice(&[0, 0, 7, 5]);
                let (a, p) = run_sequence(w, iname, Some(init), &ops, &mut cr.violations);
                na += a;
                np += p;
                if cr.violations.len() > 20 {
                    break;
                }
            }
            cr.count("allocations", na);
            cr.count("packets_compared", np);
            if na > 0 {
                cr.shape = Some(util::fnv(&format!("reassign|{}|{}", w, iname)));
            }
            cr.states = vec![util::fnv(&format!("reassign|{}", w))];
            cr.sample = Some(json!({"width": w, "initial": iname, "sequences": 4096, "allocations": na}));
            limit(&mut cr.violations, 2);
            cr
        }));
        // ---- wrap-around with many live values
        gens.push(Gen::new("wrap_16bit", 18, move |ctx, i| {
            let mut cr = CaseResult::default();
            let mut rng = Rng::keyed(ctx.seed, "C15w", 0, i as u64);
            let mut spec = SenderSpec::new(OtiSpec::new(Fec::NoCode, 1400, 8, 0));
            spec.toi_bits = 16;
            spec.toi_initial = Some(*rng.pick(&[1u128, 65000, 65535, 32768]));
            let window = [1usize, 10, 1000, 30000, 65000, 65530][i % 6];
            let r = util::guarded(|| {
                let mut sender = util::LeakOnPanic::new(spec.sender().unwrap());
                let mut m = Model { w: 16, live: BTreeSet::new() };
                let mut q: util::LeakOnPanic<std::collections::VecDeque<Box<Toi>>> = util::LeakOnPanic::new(Default::default());
                let mut viol = vec![];
                let n = if window > 60000 { 66_000 } else { 70_000 };
                // cases 12-17: an object is added, its transfer begins, and remove_object is called while it is being sent
                // (a first transfer is not cancelled): it keeps emitting packets with its TOI, which therefore stays
                // 'attached to a live object' during the whole lap of allocations that follows
                let mut in_transfer: Option<u128> = None;
                if i >= 12 {
                    let o = ObjSpec::new(vec![7u8; 1400 * 40], "file:///toi/removed-in-transfer");
                    let b = build_object(&o).unwrap();
                    if let Ok(t) = sender.add_object(0, b.desc) {
                        let _ = sender.publish(util::at(0));
                        let mut got = 0;
                        for _ in 0..200 {
                            match sender.read(util::at(0)) {
                                Some(p) => {
                                    if vh::wire::decode(&p).map(|d| d.lct.toi == t).unwrap_or(false) {
                                        got += 1;
                                        if got == 3 {
                                            break;
                                        }
                                    }
                                }
                                None => break,
                            }
                        }
                        if got == 3 {
                            m.live.insert(t);
                            sender.remove_object(t);
                            in_transfer = Some(t);
                        }
                    }
                }
                for k in 0..n {
                    let h = util::with_budget(5_000_000, || sender.allocate_toi());
                    if let Some(x) = m.check_new(h.get(), "allocate_toi", "wrap", &[format!("allocation #{} with {} live handles", k, q.len())]) {
                        viol.push(x);
                        // two handles now carry the same value: releasing both is not something the allocator has to
                        // survive (a panic inside Drop while another handle unwinds aborts the process) - leak them
                        std::mem::forget(h);
                        std::mem::forget(std::mem::take(&mut *q));
                        break;
                    }
                    q.push_back(h);
                    while q.len() > window {
                        // release oldest or a random one
                        let idx = if i < 6 { 0 } else { rng.below(q.len() as u64) as usize };
                        let h = q.remove(idx).unwrap();
                        m.live.remove(&h.get());
                        drop(h);
                    }
                }
                // non-vacuity: the removed object is indeed still sending with its TOI after the lap
                let mut still = 0u64;
                if let (Some(t), true) = (in_transfer, viol.is_empty()) {
                    if let Some(p) = sender.read(util::at(0)) {
                        if vh::wire::decode(&p).map(|d| d.lct.toi == t).unwrap_or(false) {
                            still = 1;
                        }
                    }
                }
                STILL.fetch_add(still, std::sync::atomic::Ordering::Relaxed);
                (viol, n)
            });
            match r {
                Ok((v, n)) => {
                    cr.violations.extend(v);
                    cr.count("removed_objects_still_sending_after_the_lap", STILL.swap(0, std::sync::atomic::Ordering::Relaxed));
                    cr.count("allocations", n as u64);
                    cr.shape = Some(util::fnv(&format!("wrap{}", i)));
                    cr.sample = Some(json!({"width": 16, "live_window": window, "allocations": n}));
                }
                Err(p) => cr.violations.push(Violation::new(if p.is_step_budget() { "hang" } else { "panic" }, format!("{} @ {}", p.msg, p.short_loc())).with("site", if p.is_step_budget() { p.step_site() } else { p.file() }).with("window", window as u64)),
            }
            cr
        }));
        // ---- real threads
        let nt = ctx.tier.pick(12usize, 200);
        gens.push(Gen::new("threads", nt, move |ctx, i| {
            let mut cr = CaseResult::default();
            let nthreads = 2 + i % 7;
            let w = [16u8, 32, 112][i % 3];
            // interpreters (Miri) run a much smaller schedule
            let ops = std::env::var("VERIF_THREAD_OPS").ok().and_then(|s| s.parse().ok()).unwrap_or(ctx.tier.pick(4000usize, 20_000));
            let (n, reuse) = threaded(ctx.seed ^ i as u64, nthreads, ops, w, &mut cr.violations);
            cr.count("threaded_allocations", n);
            cr.count("values_allocated_more_than_once", reuse);
            if n > 0 {
                cr.shape = Some(util::fnv(&format!("thr{}|{}", nthreads, w)));
            }
            cr.states = vec![util::fnv(&format!("t{}", nthreads))];
            cr.sample = Some(json!({"threads": nthreads, "width": w, "ops_per_thread": ops, "allocations": n, "values_reused_after_release": reuse}));
            cr
        }));
        gens
    });
}
