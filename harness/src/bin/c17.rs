//! C17 - receiver memory is bounded by configuration, not by traffic.
//!
//! Every scenario runs in its own single-threaded child process under the
//! counting allocator; structural invariants come from the verif_stats() hook,
//! heap numbers from the allocator, release from real sleeps >= 10x the timeouts.
use flute::core::UDPEndpoint;
use flute::receiver::{Config as RxConfig, MultiReceiver};
use serde_json::{json, Value};
use std::time::Duration;
use vh::alloc;
use vh::hostile::{expires_in, wrap_fdt};
use flute::receiver::writer::{ObjectMetadata, ObjectWriter, ObjectWriterBuilder, ObjectWriterBuilderResult};
use vh::report::*;
use vh::util::{self, Rng};
use vh::wire::{self, Fti};

#[global_allocator]
static GLOBAL: alloc::Counting = alloc::Counting;

/// A writer that records nothing: the heap counters must show the receiver, not the monitor.
struct NullBuilder;
struct NullWriter;
impl ObjectWriterBuilder for NullBuilder {
    fn new_object_writer(&self, _e: &UDPEndpoint, _tsi: &u64, _toi: &u128, _m: &ObjectMetadata, _now: std::time::SystemTime) -> ObjectWriterBuilderResult {
        ObjectWriterBuilderResult::StoreObject(Box::new(NullWriter))
    }
    fn update_cache_control(&self, _e: &UDPEndpoint, _tsi: &u64, _toi: &u128, _m: &ObjectMetadata, _now: std::time::SystemTime) {}
    fn fdt_received(&self, _e: &UDPEndpoint, _tsi: &u64, _xml: &str, _exp: std::time::SystemTime, _m: &ObjectMetadata, _d: Duration, _now: std::time::SystemTime, _ext: Option<std::time::SystemTime>) {}
}
impl ObjectWriter for NullWriter {
    fn open(&self, _now: std::time::SystemTime) -> flute::error::Result<()> {
        Ok(())
    }
    fn write(&self, _sbn: u32, _data: &[u8], _now: std::time::SystemTime) -> flute::error::Result<()> {
        Ok(())
    }
    fn complete(&self, _now: std::time::SystemTime) {}
    fn error(&self, _now: std::time::SystemTime) {}
    fn interrupted(&self, _now: std::time::SystemTime) {}
    fn enable_md5_check(&self) -> bool {
        false
    }
}

#[derive(Clone, Debug)]
struct Scn {
    /// keep the session alive (no session timeout, a keep-alive packet before the cleanup)
    session_alive: bool,
    kind: &'static str,
    cache: Option<usize>,
    max_err: usize,
    timeout_ms: Option<u64>,
    scale: usize,
    fec: u8,
}

fn scenarios(thorough: bool) -> Vec<Scn> {
    let mut v = vec![];
    let caches: Vec<Option<usize>> = if thorough { vec![Some(1024), Some(64 << 10), Some(1 << 20), None] } else { vec![Some(1024), Some(64 << 10), Some(1 << 20)] };
    let scales: Vec<usize> = if thorough { vec![1, 4, 16, 48] } else { vec![1, 4] };
    for kind in ["cache_one_object", "cache_many_objects", "blocks_waiting", "fdt_ids_incomplete", "many_sessions", "error_list", "fdt_current", "object_packets_after_fdt_only_fti"] {
        for &cache in &caches {
            for &max_err in if thorough { &[0usize, 1, 16][..] } else { &[0usize, 16][..] } {
                for &timeout_ms in &[Some(5u64), None] {
                    for &scale in &scales {
                        for &fec in if kind == "blocks_waiting" { &[0u8, 5, 129, 6][..] } else { &[0u8][..] } {
                            // the error list and fdt_current scenarios do not depend on the cache size
                            if (kind == "error_list" || kind == "fdt_current" || kind == "many_sessions" || kind == "fdt_ids_incomplete") && cache != caches[0] {
                                continue;
                            }
                            v.push(Scn { session_alive: false, kind, cache, max_err, timeout_ms, scale, fec });
                            if timeout_ms.is_some() && (kind == "fdt_ids_incomplete" || kind == "cache_many_objects" || kind == "blocks_waiting") {
                                v.push(Scn { session_alive: true, kind, cache, max_err, timeout_ms, scale, fec });
                            }
                        }
                    }
                }
            }
        }
    }
    // packets that name source blocks far ahead inside a huge announced partitioning (in-band FTI, no FDT)
    for &fec in &[0u8, 5, 129] {
        for &cache in &[Some(1024usize), Some(64 << 10)] {
            for &scale in &scales {
                v.push(Scn { session_alive: false, kind: "far_sbn_in_partition", cache, max_err: 16, timeout_ms: Some(5), scale, fec });
            }
        }
    }
    // FDT instances that arrive completely and then fail to parse (a new instance id each): nothing of them may stay
    for &timeout_ms in &[Some(5u64), None] {
        for &scale in &scales {
            for session_alive in [false, true] {
                v.push(Scn { session_alive, kind: "fdt_ids_invalid_complete", cache: Some(1024), max_err: 16, timeout_ms, scale, fec: 0 });
            }
        }
    }
    // stalled objects while unrelated traffic (new FDT instances, new objects) keeps the session busy
    for &scale in &scales {
        for &max_err in &[0usize, 16] {
            v.push(Scn { session_alive: true, kind: "stalled_under_fdt_updates", cache: Some(64 << 10), max_err, timeout_ms: Some(20), scale, fec: 0 });
        }
    }
    v
}

fn obj_pkt(tsi: u64, toi: u128, fec: u8, fti: Option<&Fti>, sbn: u32, esi: u32, sbl: u16, payload: &[u8], b: bool) -> Vec<u8> {
    let mut l = wire::enc_lct(tsi, toi, fec);
    l.b = b;
    let exts: Vec<Vec<u8>> = fti.map(|f| vec![wire::ext_fti(f)]).unwrap_or_default();
    wire::encode(&l, &exts, &wire::payload_id(fec, sbn, esi, sbl, 8), payload)
}

struct Probe {
    max_cached: usize,
    max_cached_pkts: usize,
    max_blocks_bytes: usize,
    max_err_list: usize,
    max_fdt_current: usize,
    max_fdt_receivers: usize,
    max_objects: usize,
    max_sessions: usize,
    /// public API: MultiReceiver::nb_objects_error() - maximum seen, and whether it ever disagreed with the hook's lists
    max_api_err: usize,
    api_err_mismatch: Option<(usize, usize)>,
}

fn observe(rx: &MultiReceiver, p: &mut Probe) {
    let st = rx.verif_stats();
    let api = rx.nb_objects_error();
    let hook: usize = st.iter().map(|s| s.objects_error).sum();
    p.max_api_err = p.max_api_err.max(api);
    if api != hook && p.api_err_mismatch.is_none() {
        p.api_err_mismatch = Some((api, hook));
    }
    p.max_sessions = p.max_sessions.max(st.len());
    for s in &st {
        p.max_err_list = p.max_err_list.max(s.objects_error);
        p.max_fdt_current = p.max_fdt_current.max(s.fdt_current);
        p.max_fdt_receivers = p.max_fdt_receivers.max(s.fdt_receivers);
        p.max_objects = p.max_objects.max(s.objects.len());
        for o in &s.objects {
            p.max_cached = p.max_cached.max(o.cached_bytes);
            p.max_cached_pkts = p.max_cached_pkts.max(o.cached_packets);
            p.max_blocks_bytes = p.max_blocks_bytes.max(o.total_allocated_blocks_size);
        }
    }
}

fn child(args: &[String]) -> ! {
    // c17 --child <index> <seed> <tier>
    let idx: usize = args[2].parse().unwrap();
    let seed: u64 = args[3].parse().unwrap();
    let thorough = args[4] == "thorough";
    util::install_quiet_panic_hook();
    let s = scenarios(thorough)[idx].clone();
    let mut rng = Rng::keyed(seed, "C17", idx as u64, 0);
    let cache = s.cache.unwrap_or(10 << 20);
    let cfg = RxConfig {
        max_objects_error: s.max_err,
        session_timeout: if s.session_alive { None } else { s.timeout_ms.map(Duration::from_millis) },
        object_timeout: s.timeout_ms.map(Duration::from_millis),
        object_max_cache_size: s.cache,
        object_receive_once: true,
        enable_fdt_expiration_check: true,
    };
    let ep = UDPEndpoint::new(None, "224.0.0.1".into(), 3400);
    let now = util::at(1000);
    let mut viol: Vec<Value> = vec![];
    let mut add = |clause: &str, detail: String, extra: Value| {
        viol.push(json!({"clause": clause, "detail": detail, "extra": extra}));
    };
    let baseline = alloc::live();
    let builder = std::rc::Rc::new(NullBuilder);
    let mut rx = MultiReceiver::new(builder.clone(), Some(cfg), false);
    let mut p = Probe { max_cached: 0, max_cached_pkts: 0, max_blocks_bytes: 0, max_err_list: 0, max_fdt_current: 0, max_fdt_receivers: 0, max_objects: 0, max_sessions: 0, max_api_err: 0, api_err_mismatch: None };
    let psize = 1000usize;
    let payload = rng.bytes(psize);
    let mut pushes = 0u64;
    let mut live_marks: Vec<(u64, isize)> = vec![];
    let mut block_bytes = 0usize;
    // the slope test needs traffic that exceeds the configured bound several times over
    let mut saturated = false;
    // blocks_waiting: peak of the live heap while the blocks pile up, and the bytes of all blocks sent
    let mut bw_peak = 0isize;
    let mut bw_total = 0usize;
    let r = util::guarded(|| {
        match s.kind {
            // one object, FDT-only FTI, FDT never sent: packets are cached
            "cache_one_object" | "object_packets_after_fdt_only_fti" => {
                let mut win_peak = 0isize;
                let total = (cache / psize + 8) * 12 * s.scale.min(4);
                let total = total.min(if cache > (1 << 20) { 40_000 } else { 400_000 });
                saturated = total * psize > 3 * cache;
                for k in 0..total {
                    let toi = if s.kind == "cache_one_object" { 5 } else { 5 + (k / (cache / psize + 50)) as u128 };
                    let pk = obj_pkt(1, toi, 0, None, (k / 1000) as u32, (k % 1000) as u32, 0, &payload, false);
                    let _ = rx.push(&ep, &pk, now);
                    pushes += 1;
                    if k % 16 == 0 || k < 64 {
                        observe(&rx, &mut p);
                    }
                    // slope test on window PEAKS (an object that exceeds its cache is abandoned and a new one
                    // starts: the live heap is a sawtooth); both windows lie beyond the point where the bound
                    // is first reached
                    let first_mark = (total / 10).max(cache / psize * 3 / 2 + 16);
                    win_peak = win_peak.max(alloc::live() - baseline);
                    if k + 1 == first_mark || k + 1 == total {
                        live_marks.push((pushes, win_peak));
                        win_peak = 0;
                    }
                }
            }
            // many TOIs, a few cached packets each
            "cache_many_objects" => {
                let n = 300 * s.scale;
                for rep in 0..10 {
                    for t in 0..n {
                        let pk = obj_pkt(1, 100 + t as u128, 0, None, 0, rep as u32, 0, &payload[..200], false);
                        let _ = rx.push(&ep, &pk, now);
                        pushes += 1;
                    }
                    observe(&rx, &mut p);
                    if rep == 0 || rep == 9 {
                        live_marks.push((pushes, alloc::live() - baseline));
                    }
                }
            }
            // in-band FTI, block 0 never completes: later blocks are decoded and must wait
            "blocks_waiting" => {
                let e = 500usize;
                let k = 4usize; // symbols per block
                let fec = s.fec;
                block_bytes = e * k;
                let nblocks = (((cache / block_bytes) + 6) * 4).max(240);
                let nblocks = nblocks.min(if fec == 5 { 250 } else { 1800 });
                let l = (nblocks * k * e) as u64;
                let fti = Fti { fec, l, e: e as u16, b: k as u32, max_n: Some(k as u32 + 1), instance: Some(0), z: Some(nblocks.min(255) as u32), n: Some(1), al: Some(4), m: None, g: None };
                // FDT first so that the writer exists (blocks waiting = "decoded but unwritten")
                let xml = format!("<?xml version=\"1.0\"?><FDT-Instance xmlns=\"urn:IETF:metadata:2005:FLUTE:FDT\" Expires=\"{}\"><File TOI=\"9\" Content-Location=\"file:///m/b\" Content-Length=\"{}\" Transfer-Length=\"{}\"/></FDT-Instance>", expires_in(3600), l, l);
                for b in wrap_fdt(xml.as_bytes(), 1, 2, 1400, None, true) {
                    let _ = rx.push(&ep, &b, now);
                }
                let sym = rng.bytes(e);
                let nb = if fec == 6 { nblocks.min(255) } else { nblocks };
                saturated = nb * block_bytes > 3 * cache && nb / 10 * block_bytes > cache + 2 * block_bytes;
                for sbn in 1..nb {
                    for esi in 0..k {
                        let pk = obj_pkt(1, 9, fec, Some(&fti), sbn as u32, esi as u32, k as u16, &sym, false);
                        let _ = rx.push(&ep, &pk, now);
                        pushes += 1;
                    }
                    observe(&rx, &mut p);
                    bw_peak = bw_peak.max(alloc::live() - baseline);
                    if sbn == nb / 10 || sbn + 1 == nb {
                        live_marks.push((pushes, alloc::live() - baseline));
                    }
                }
                bw_total = nb * block_bytes;
            }
            // in-band FTI announces a partitioning in 2^16 (No-Code) or 2^24 blocks of one 16-byte symbol; no FDT.
            // A few packets name blocks close to the first one, the others name blocks far ahead - all of them
            // inside the announced partitioning. What the receiver holds per object must not follow the SBN.
            "far_sbn_in_partition" => {
                let fec = s.fec;
                let e = 16usize;
                let nblocks: u64 = if fec == 0 { 65_536 } else { 1 << 24 };
                let far: u32 = if fec == 0 { 60_000 } else { 1_000_000 * s.scale.min(4) as u32 };
                let fti = Fti { fec, l: nblocks * e as u64, e: e as u16, b: 1, max_n: Some(2), instance: Some(0), z: None, n: None, al: None, m: None, g: None };
                let ntoi = 4 * s.scale;
                let sym = rng.bytes(e);
                let mut accepted = 0u64;
                for t in 0..ntoi {
                    for sbn in [100u32, 2000, 4000] {
                        let pk = obj_pkt(1, 500 + t as u128, fec, Some(&fti), sbn, 0, 1, &sym, false);
                        if rx.push(&ep, &pk, now).is_ok() {
                            accepted += 1;
                        }
                        pushes += 1;
                    }
                }
                observe(&rx, &mut p);
                let held_near: usize = rx.verif_stats().iter().map(|x| x.objects.len()).sum();
                live_marks.push((pushes, alloc::live() - baseline));
                for t in 0..ntoi {
                    for j in 0..6u32 {
                        let pk = obj_pkt(1, 500 + t as u128, fec, Some(&fti), far + j * 1000, 0, 1, &sym, false);
                        let _ = rx.push(&ep, &pk, now);
                        pushes += 1;
                    }
                }
                observe(&rx, &mut p);
                let live = alloc::live() - baseline;
                live_marks.push((pushes, live));
                // per object: the cache / unwritten blocks bound plus half a MiB for everything else (the block window
                // of an object that stays inside the 4096 block limit was measured at 128-256 KiB)
                let allowed = (ntoi * (cache + 2 * e + (512 << 10))) as isize;
                if accepted == 0 || held_near == 0 {
                    add("scenario_vacuous", format!("no packet of the {} objects was accepted ({} objects held)", ntoi, held_near), json!(null));
                } else if live > allowed {
                    add("heap_follows_sbn", format!("{} bytes live after {} packets of 16 bytes for {} objects naming source blocks up to {} of {} announced (allowed {} = objects x (cache {} + 2 symbols + 512 KiB)): memory follows the block numbers in the traffic, not the configuration",
                        live, pushes, ntoi, far + 5000, nblocks, allowed, cache), json!({"marks": live_marks.clone(), "fec": fec}));
                }
            }
            // many FDT instance ids, each missing its last packet
            "fdt_ids_incomplete" => {
                let n = 400 * s.scale;
                let xml = format!("<?xml version=\"1.0\"?><FDT-Instance xmlns=\"urn:IETF:metadata:2005:FLUTE:FDT\" Expires=\"{}\"><File TOI=\"3\" Content-Location=\"file:///m/f\" Content-Length=\"3\"/>{}</FDT-Instance>", expires_in(3600), " ".repeat(3000));
                for id in 0..n {
                    let pk = wrap_fdt(xml.as_bytes(), 1, 1000 + id as u32, 1000, None, false);
                    for b in &pk[..pk.len() - 1] {
                        let _ = rx.push(&ep, b, now);
                        pushes += 1;
                    }
                    if id % 16 == 0 {
                        observe(&rx, &mut p);
                    }
                    if id + 1 == n / 10 || id + 1 == n {
                        live_marks.push((pushes, alloc::live() - baseline));
                    }
                }
            }
            // complete FDT instances (every symbol delivered) whose document is not an FDT-Instance; cleanup() as an
            // application timer would call it, every 50 instances
            "fdt_ids_invalid_complete" => {
                let n = 400 * s.scale;
                for id in 0..n {
                    let xml = match id % 4 {
                        0 => format!("<?xml version=\"1.0\"?><NotAnFdt Expires=\"{}\">{}</NotAnFdt>", expires_in(3600), "x".repeat(600)),
                        1 => format!("<?xml version=\"1.0\"?><FDT-Instance xmlns=\"urn:IETF:metadata:2005:FLUTE:FDT\" Expires=\"never\"><File TOI=\"3\" Content-Location=\"file:///m/f\"/>{}</FDT-Instance>", " ".repeat(600)),
                        2 => format!("<?xml version=\"1.0\"?><FDT-Instance Expires=\"{}\"><File TOI=\"3\" Content-Location=\"file:///m/f\" Content-Length=\"1\">{}", expires_in(3600), "y".repeat(600)),
                        _ => "\u{0}".repeat(700),
                    };
                    for b in wrap_fdt(xml.as_bytes(), 1, 5000 + id as u32, 1000, None, true) {
                        let _ = rx.push(&ep, &b, now);
                        pushes += 1;
                    }
                    if id % 50 == 49 {
                        rx.cleanup(now);
                        observe(&rx, &mut p);
                    }
                    if id + 1 == n / 10 || id + 1 == n {
                        live_marks.push((pushes, alloc::live() - baseline));
                    }
                }
            }
            "many_sessions" => {
                let n = 300 * s.scale;
                for t in 0..n {
                    let epx = UDPEndpoint::new(if t % 2 == 0 { None } else { Some(format!("10.0.0.{}", t % 250)) }, format!("224.0.{}.{}", (t / 250) % 250, t % 250), 3000 + (t % 7) as u16);
                    let pk = obj_pkt(1 + (t % 5) as u64, 7, 0, None, 0, 0, 0, &payload[..100], false);
                    let _ = rx.push(&epx, &pk, now);
                    pushes += 1;
                    if t % 32 == 0 {
                        observe(&rx, &mut p);
                    }
                }
                observe(&rx, &mut p);
                live_marks.push((pushes, alloc::live() - baseline));
            }
            // objects that end in error one after the other
            "error_list" => {
                let n = 200 * s.scale;
                let fti = Fti { fec: 0, l: 3000, e: 1000, b: 8, ..Default::default() };
                let xml_files: String = (0..n).map(|t| format!("<File TOI=\"{}\" Content-Location=\"file:///m/e{}\" Content-Length=\"3000\" Transfer-Length=\"3000\"/>", 50 + t, t)).collect();
                let xml = format!("<?xml version=\"1.0\"?><FDT-Instance xmlns=\"urn:IETF:metadata:2005:FLUTE:FDT\" Expires=\"{}\">{}</FDT-Instance>", expires_in(3600), xml_files);
                for b in wrap_fdt(xml.as_bytes(), 1, 4, 1400, None, true) {
                    let _ = rx.push(&ep, &b, now);
                }
                for t in 0..n {
                    // first symbol with the close-object flag: interrupted
                    let pk = obj_pkt(1, 50 + t as u128, 0, Some(&fti), 0, 0, 0, &payload, true);
                    let _ = rx.push(&ep, &pk, now);
                    pushes += 1;
                    observe(&rx, &mut p);
                }
                live_marks.push((pushes, alloc::live() - baseline));
            }
            // every quarter of the object timeout: a new complete FDT instance and a new object that stalls
            // (2 of its 3 symbols never arrive), then FDT updates only; cleanup() after every round.
            // Objects stalled for longer than the timeout must go although the session stays busy.
            "stalled_under_fdt_updates" => {
                let t_ms = s.timeout_ms.unwrap();
                let period = Duration::from_millis(t_ms / 4);
                let rounds = 40 * s.scale.min(4);
                let fti = Fti { fec: 0, l: 3000, e: 1000, b: 8, ..Default::default() };
                let mut max_held = 0usize;
                let mut held_series = vec![];
                for r in 0..rounds + 24 {
                    let with_object = r < rounds;
                    let xml = format!("<?xml version=\"1.0\"?><FDT-Instance xmlns=\"urn:IETF:metadata:2005:FLUTE:FDT\" Expires=\"{}\"><File TOI=\"{}\" Content-Location=\"file:///m/s{}\" Content-Length=\"3000\" Transfer-Length=\"3000\"/></FDT-Instance>", expires_in(3600), 1000 + r, r);
                    for b in wrap_fdt(xml.as_bytes(), 1, 100 + r as u32, 1400, None, true) {
                        let _ = rx.push(&ep, &b, now);
                        pushes += 1;
                    }
                    if with_object {
                        let pk = obj_pkt(1, 1000 + r as u128, 0, Some(&fti), 0, 0, 0, &payload, false);
                        let _ = rx.push(&ep, &pk, now);
                        pushes += 1;
                    }
                    std::thread::sleep(period);
                    rx.cleanup(now);
                    let held: usize = rx.verif_stats().iter().map(|x| x.objects.len()).sum();
                    max_held = max_held.max(held);
                    held_series.push(held);
                    observe(&rx, &mut p);
                    if r + 1 == rounds + 24 && held > 0 {
                        add("stalled_objects_kept_by_unrelated_traffic", format!("{} stalled object(s) still held after {} ms of FDT-only updates (object_timeout {} ms): every new FDT instance keeps them alive", held, 24 * t_ms / 4, t_ms), json!({"held_per_round": held_series.clone()}));
                    }
                }
                // at most timeout/period (+ scheduling slack) objects can be younger than the timeout
                if max_held > 14 {
                    add("stalled_objects_kept_by_unrelated_traffic", format!("{} stalled objects held at the same time with one new object every {} ms and object_timeout {} ms (at most 4-5 can be younger than the timeout; 14 allowed)", max_held, t_ms / 4, t_ms), json!({"held_per_round": held_series}));
                }
                live_marks.push((pushes, alloc::live() - baseline));
            }
            // many complete FDT instances
            _ => {
                saturated = true;
                let n = 60 * s.scale;
                for id in 0..n {
                    let xml = format!("<?xml version=\"1.0\"?><FDT-Instance xmlns=\"urn:IETF:metadata:2005:FLUTE:FDT\" Expires=\"{}\"><File TOI=\"{}\" Content-Location=\"file:///m/c{}\" Content-Length=\"3\"/></FDT-Instance>", expires_in(3600), 10 + id, id);
                    for b in wrap_fdt(xml.as_bytes(), 1, 10 + id as u32, 1400, None, true) {
                        let _ = rx.push(&ep, &b, now);
                        pushes += 1;
                    }
                    observe(&rx, &mut p);
                    if id + 1 == n / 10 || id + 1 == n {
                        live_marks.push((pushes, alloc::live() - baseline));
                    }
                }
            }
        }
    });
    if let Err(pn) = r {
        add("panic", format!("{} @ {}", pn.msg, pn.short_loc()), json!({"site": pn.file()}));
    }
    // ---- structural verdicts
    let pkt_overhead = 64;
    if p.max_cached > cache + psize + pkt_overhead {
        add("cache_limit", format!("an object held {} bytes of cached packets ({} packets), configured object_max_cache_size is {}", p.max_cached, p.max_cached_pkts, cache), json!({"max_cached": p.max_cached}));
    }
    if block_bytes > 0 && p.max_blocks_bytes > cache + 2 * block_bytes {
        add("blocks_limit", format!("decoded but unwritten blocks reached {} bytes, limit is cache {} + 2 blocks of {}", p.max_blocks_bytes, cache, block_bytes), json!({"max_blocks": p.max_blocks_bytes}));
    }
    // the same bound on the real heap: the counters above are the receiver's own bookkeeping, and a block that is
    // accounted in the wrong unit keeps them small while the memory goes. Allowance: the window of block
    // descriptors (up to 4097 x 32 B, capacity doubling) and fixed structures = 384 KiB
    // Calibration (unchanged tree, k = 4 symbols of 500 bytes): a waiting block costs its decoded bytes, its
    // symbols still held by the decoder and the decoder itself - 12 KB for the Reed-Solomon codec object - so
    // the allowance is (cache / block + 3) blocks x (2 x block + 16 KiB) + 384 KiB for the window of block descriptors
    // and the fixed structures; observed peaks stay below 70 % of it, an unbounded object exceeds it 2-5 times
    if block_bytes > 0 && s.cache.is_some() {
        let allowed = ((cache / block_bytes + 3) * (2 * block_bytes + (16 << 10)) + (384 << 10)) as isize;
        if bw_peak > allowed {
            add("blocks_heap", format!("live heap reached {} bytes while decoded blocks of one object waited ({} bytes of blocks sent), allowed (cache {} / block {} + 3) x (2 blocks + 16 KiB) + 384 KiB = {}; the receiver's own counter says {} bytes",
                bw_peak, bw_total, cache, block_bytes, allowed, p.max_blocks_bytes), json!({"peak": bw_peak, "counter": p.max_blocks_bytes}));
        }
    }
    // "beyond it the object is abandoned and counted in error": the public counter must say so
    if let Some((api, hook)) = p.api_err_mismatch {
        add("error_count_api", format!("nb_objects_error() returned {} while the sessions hold {} failed objects", api, hook), json!(null));
    }
    if s.kind == "cache_one_object" && saturated && s.max_err > 0 && p.max_api_err == 0 {
        add("abandoned_not_counted", format!("one object exceeded object_max_cache_size {} several times over and nb_objects_error() never left 0 (max_objects_error {})", cache, s.max_err), json!(null));
    }
    if p.max_err_list > s.max_err {
        add("error_list_limit", format!("list of failed objects reached {} entries, max_objects_error is {}", p.max_err_list, s.max_err), json!(null));
    }
    if p.max_fdt_current > 10 {
        add("fdt_current_limit", format!("{} complete FDT instances kept", p.max_fdt_current), json!(null));
    }
    // ---- slope: ten times more traffic of the same kind must not cost more heap
    //      (scenarios whose entity count grows with traffic are bounded by the timeout instead)
    if saturated && matches!(s.kind, "cache_one_object" | "blocks_waiting" | "fdt_current") && live_marks.len() >= 2 {
        let (n1, l1) = live_marks[0];
        let (n2, l2) = live_marks[live_marks.len() - 1];
        // both marks are beyond the point where the bound is reached: a plateau is expected
        let allowed = l1.max(0) + l1.max(0) / 4 + 2 * block_bytes as isize + (256 << 10);
        if l2 > allowed && n2 > n1 {
            add("heap_grows_with_traffic", format!("live heap of the receiver: {} bytes after {} packets, {} bytes after {} packets (allowed {}): grows with traffic, not bounded by the configuration", l1, n1, l2, n2, allowed), json!({"marks": live_marks}));
        }
    }
    // ---- the single-session API next to it: a Receiver for TSI 1 that hears one packet of its session and then, for
    // twelve timeouts, only datagrams of ANOTHER session on the same socket (and cleanup() calls): traffic that is not
    // its own, and housekeeping, are not activity - the session counts as expired
    if let (Some(ms), false, 2) = (s.timeout_ms, s.session_alive, idx % 3) {
        let r = util::guarded(|| {
            let cfg1 = RxConfig { session_timeout: Some(Duration::from_millis(ms)), object_timeout: Some(Duration::from_millis(ms)), ..Default::default() };
            let mut one = flute::receiver::Receiver::new(&ep, 1, std::rc::Rc::new(NullBuilder), Some(cfg1));
            let _ = one.push_data(&obj_pkt(1, 5, 0, None, 0, 0, 0, &[1, 2, 3, 4], false), now);
            let period = Duration::from_micros(ms * 1000 / 3).max(Duration::from_millis(1));
            let t_start = std::time::Instant::now();
            let mut k = 0u32;
            while t_start.elapsed() < Duration::from_millis(ms * 12 + 20) {
                std::thread::sleep(period);
                k += 1;
                let _ = one.push_data(&obj_pkt(2, 9, 0, None, 0, k, 0, &[9, 9, 9, 9], false), now + period * k);
                if k % 2 == 0 {
                    one.cleanup(now + period * k);
                }
            }
            one.is_expired()
        });
        match r {
            Ok(true) => {}
            Ok(false) => add("single_session_kept_alive_by_foreign_traffic", format!("a single-session Receiver (TSI 1, session_timeout {} ms) that heard nothing of its own session for {} ms - only datagrams of TSI 2 and cleanup() calls - does not report is_expired()", ms, ms * 12 + 20), json!(null)),
            Err(pn) => add("panic", format!("single-session receiver: {} @ {}", pn.msg, pn.short_loc()), json!({"site": pn.file()})),
        }
    }
    // ---- release after the timeouts
    let mut released = Value::Null;
    if let Some(ms) = s.timeout_ms {
        // an application typically calls cleanup() on a timer: once right after the traffic (nothing is due yet) ...
        let _ = util::guarded(|| rx.cleanup(now));
        if idx % 3 == 1 {
            // ... then, in one scenario out of three, on a period three times shorter than the timeouts for the whole
            // silence (housekeeping itself is not activity: it must not keep idle sessions alive) ...
            let period = Duration::from_micros(ms * 1000 / 3).max(Duration::from_millis(1));
            let t_start = std::time::Instant::now();
            let mut k = 0u32;
            while t_start.elapsed() < Duration::from_millis(ms * 12 + 20) {
                std::thread::sleep(period);
                k += 1;
                let _ = util::guarded(|| rx.cleanup(now + period * k));
            }
        } else {
            std::thread::sleep(Duration::from_millis(ms * 12 + 20));
        }
        // ... and again after the timeouts. Sessions kept alive: every other scenario sees one unrelated packet
        // before the second cleanup, the others see no packet at all between the two cleanups
        if s.session_alive && idx % 2 == 0 {
            let _ = rx.push(&ep, &obj_pkt(1, 77_777, 0, None, 0, 0, 0, &[1, 2, 3], false), now + Duration::from_secs(1));
        }
        let rr = util::guarded(|| rx.cleanup(now + Duration::from_secs(1)));
        if let Err(pn) = rr {
            add("panic", format!("cleanup: {} @ {}", pn.msg, pn.short_loc()), json!({"site": pn.file()}));
        }
        let st = rx.verif_stats();
        let objs: usize = st.iter().map(|x| x.objects.iter().filter(|o| o.toi != 77_777).count()).sum();
        let fdtr: usize = st.iter().map(|x| x.fdt_receivers).sum();
        let live_after = alloc::live() - baseline;
        released = json!({"sessions": st.len(), "objects": objs, "fdt_receivers": fdtr, "live_after": live_after});
        if !st.is_empty() && !s.session_alive {
            add("idle_sessions_not_released", format!("{} session(s) still present {} ms after the last packet (session_timeout {} ms) and {}", st.len(), ms * 12 + 20, ms, if idx % 3 == 1 { "a cleanup every third of the timeout" } else { "a cleanup" }), json!({"periodic_cleanup": idx % 3 == 1}));
        }
        if objs > 0 || (!s.session_alive && rx.nb_objects() > 0) {
            add("stalled_objects_not_released", format!("{} object(s) still held after the object timeout and a cleanup", objs.max(rx.nb_objects())), json!(null));
        }
        if fdtr > 0 {
            add("unfinished_fdt_not_released", format!("{} unfinished FDT instance(s) still held after the timeouts and a cleanup", fdtr), json!(null));
        }
        // hash maps keep the capacity of their high-water mark (about 60 bytes per object slot and 125 bytes per
        // session slot were measured): that is not memory "associated with" the released entities. A stalled
        // object or idle session that is really kept costs at least ten times more (>= 1.6 KB measured).
        let allowed = (192isize << 10) + 160 * (p.max_objects + p.max_sessions) as isize;
        if live_after > allowed {
            add("heap_not_released", format!("{} bytes still live after the timeouts and a cleanup (baseline + {} bytes allowed: 192 KiB + 160 bytes of container capacity per peak object/session)", live_after, allowed), json!({"kind": s.kind}));
        }
    }
    if s.timeout_ms.is_none() && s.kind == "fdt_ids_invalid_complete" {
        // no timeout configured: an instance that failed is not 'unfinished', a cleanup releases it all the same
        let _ = util::guarded(|| rx.cleanup(now + Duration::from_secs(1)));
        let st = rx.verif_stats();
        let fdtr: usize = st.iter().map(|x| x.fdt_receivers).sum();
        let live_after = alloc::live() - baseline;
        released = json!({"fdt_receivers": fdtr, "live_after": live_after});
        if fdtr > 0 {
            add("failed_fdt_not_released", format!("{} FDT instance(s) that failed to parse are still held after a cleanup (no object timeout configured)", fdtr), json!(null));
        }
        if live_after > (192isize << 10) + 160 * (p.max_objects + p.max_sessions) as isize {
            add("heap_not_released", format!("{} bytes still live after the cleanup", live_after), json!({"kind": s.kind}));
        }
    }
    drop(rx);
    drop(builder);
    let out = json!({"scenario": format!("{:?}", s), "pushes": pushes, "max_cached_bytes": p.max_cached, "max_block_bytes": p.max_blocks_bytes,
        "max_error_list": p.max_err_list, "max_nb_objects_error_api": p.max_api_err, "max_fdt_current": p.max_fdt_current, "max_fdt_receivers": p.max_fdt_receivers, "max_objects": p.max_objects, "max_sessions": p.max_sessions,
        "blocks_waiting_peak": bw_peak, "blocks_sent_bytes": bw_total, "live_marks": live_marks, "peak_live": alloc::peak() - baseline, "released": released, "violations": viol});
    println!("R {}", out);
    std::process::exit(0);
}

fn main() {
    let args: Vec<String> = std::env::args().collect();
    if args.get(1).map(|s| s.as_str()) == Some("--child") {
        child(&args);
    }
    let prop = Property {
        id: "C17",
        level: "exploration",
        rule: "traffic that keeps things undecodable, one scenario per single-threaded child process under the counting allocator: one object cached without FDT, many cached objects, decoded blocks waiting behind an incomplete block 0 (No-Code, RS28, RS28 under-specified, RaptorQ), FDT instance ids that never complete, FDT instances that arrive completely and do not parse, hundreds of idle sessions, objects failing one after the other, many complete FDT instances, objects stalling under FDT updates, packets naming source blocks far ahead inside an announced partitioning of 2^16 / 2^24 blocks; x cache size {1 KiB, 64 KiB, 1 MiB, default} x max_objects_error {0,1,16} x timeouts {5 ms, none} x traffic scale; oracle: structural invariants from verif_stats() after every push batch (cached bytes <= cache + 1 packet, waiting blocks <= cache + 2 blocks - on the hook's counter and, with a calibrated per-block allowance, on the real live heap -, error list <= max_objects_error, <= 10 complete FDTs), slope test on live heap (10x more traffic of the same kind costs no more than the configured bound), release after sleeping 12x the timeouts and one cleanup (no session, object or unfinished FDT left, heap back to baseline + 192 KiB); a case is one scenario, non-trivial when packets were pushed; distinct = scenario parameters; in one scenario out of three cleanup() runs on a period three times shorter than the timeouts during the whole silence; in another third a single-session Receiver that hears only another session's datagrams and cleanup() calls for twelve timeouts must report is_expired()",
        assumptions: vec![
            "heap numbers are process-wide counters of a single-threaded child; the monitoring writer stores no data".into(),
            "the number of simultaneously live objects / sessions within the timeout is a parameter of the bound, not a violation".into(),
            "release uses real sleeps of 12x the timeout + 20 ms: a loaded machine only makes them longer".into(),
        ],
        exhaustive: false,
        budget_quick_s: 200,
        budget_thorough_s: 2400,
    };
    run_property(prop, |ctx| {
        let n = scenarios(ctx.tier == Tier::Thorough).len();
        vec![Gen::new("scenarios", n, move |ctx, i| {
            let mut cr = CaseResult::default();
            let exe = std::env::current_exe().unwrap();
            let out = std::process::Command::new(&exe).args(["--child", &i.to_string(), &ctx.seed.to_string(), ctx.tier.name()]).output();
            let s = scenarios(ctx.tier == Tier::Thorough)[i].clone();
            let out = match out {
                Ok(o) => o,
                Err(e) => {
                    cr.inconclusive = Some(format!("cannot run child: {}", e));
                    return cr;
                }
            };
            let stdout = String::from_utf8_lossy(&out.stdout).to_string();
            let line = stdout.lines().find(|l| l.starts_with("R "));
            let base = |v: Violation| v.with("session_alive", s.session_alive).with("kind", s.kind).with("cache", s.cache.map(|c| c as u64).unwrap_or(0)).with("max_err", s.max_err as u64).with("timeout", s.timeout_ms.is_some()).with("fec", s.fec as u64);
            match line.and_then(|l| serde_json::from_str::<Value>(&l[2..]).ok()) {
                Some(r) => {
                    for v in r["violations"].as_array().cloned().unwrap_or_default() {
                        let mut x = base(Violation::new(v["clause"].as_str().unwrap_or("?"), format!("{:?}: {}", s, v["detail"].as_str().unwrap_or(""))));
                        if let Some(site) = v["extra"]["site"].as_str() {
                            x = x.with("site", site);
                        }
                        cr.violations.push(x.witness(json!({"scenario": format!("{:?}", s), "measurements": r})));
                    }
                    cr.count("pushes", r["pushes"].as_u64().unwrap_or(0));
                    if r["pushes"].as_u64().unwrap_or(0) > 0 {
                        cr.shape = Some(util::fnv(&format!("{:?}", s)));
                    }
                    cr.states = vec![util::fnv(s.kind)];
                    let mut rr = r.clone();
                    if let Some(o) = rr.as_object_mut() {
                        o.remove("violations");
                    }
                    cr.sample = Some(rr);
                }
                None => {
                    let code = out.status.code();
                    cr.violations.push(base(Violation::new("abort", format!("{:?}: child ended without result (exit {:?}): {}", s, code, String::from_utf8_lossy(&out.stderr).lines().last().unwrap_or(""))))
                        .witness(json!({"scenario": format!("{:?}", s)})));
                }
            }
            cr
        })]
    });
}
