//! C12 - transfer lifecycle: exact transfer counts, carousel until removed,
//! transfer counter = completed transfers on the wire, removal semantics, reads
//! terminate at a fixed instant, only FDT packets once no object remains.
use serde_json::{json, Value};
use std::collections::BTreeSet;
use vh::gen;
use vh::report::*;
use vh::scenario::*;
use vh::session::*;
use vh::util::{self, Rng};

fn complete_transfer(run: &ScriptRun, toi: u128, part: &Part, start: usize, end: usize) -> bool {
    let mut have: BTreeSet<(u32, u32)> = BTreeSet::new();
    for p in run.stream[start..end].iter().filter(|p| p.toi() == toi) {
        if (p.dec.sbn as u128) < part.n && (p.dec.esi as u128) < part.k(p.dec.sbn as u128) {
            have.insert((p.dec.sbn, p.dec.esi));
        }
    }
    if part.t == 0 {
        // empty object: its lone packet
        return run.stream[start..end].iter().any(|p| p.toi() == toi);
    }
    have.len() as u128 == part.t
}

fn judge(run: &ScriptRun, horizon_ok: bool, strict_horizon: bool, out: &mut Vec<Violation>) -> (u64, Vec<u64>) {
    let mut states = vec![];
    let mut n_tr = 0u64;
    let wit = |extra: Value| json!({"run": run.json(), "detail": extra, "sub_events": run.sub_events.iter().map(|(i, e)| format!("{}:{}", i, match e { SubEv::Start(t, _) => format!("Start({})", t), SubEv::Stop(t, _) => format!("Stop({})", t) })).collect::<Vec<_>>(), "stream": run.summary(120)});
    let last = run.samples.last();
    // model: when does each object leave the sender
    let mut gone_at: Vec<Option<usize>> = vec![None; run.objs.len()];
    for (i, obj) in run.objs.iter().enumerate() {
        let toi = match run.tois[i] {
            Some(t) => t,
            None => continue,
        };
        let oti = run.oti_of(i);
        let tl = run.transfer_len[i].unwrap_or(0);
        let part = ref_partition(oti.b as u128, tl as u128, oti.e as u128);
        let transfers = run.transfers_of(toi);
        let removed_op = run.ops.iter().find(|o| o.op == Op::Remove(i) && o.ok);
        let removed_at = removed_op.map(|o| o.pkt_index);
        // start events of this object in order, with their instants
        let start_times: Vec<std::time::SystemTime> = run.sub_events.iter().filter_map(|(_, e)| match e { SubEv::Start(t, at) if *t == toi => Some(*at), _ => None }).collect();
        let stop_times: Vec<std::time::SystemTime> = run.sub_events.iter().filter_map(|(_, e)| match e { SubEv::Stop(t, at) if *t == toi => Some(*at), _ => None }).collect();
        // an event precedes the removal iff earlier in virtual time, or same instant and lower packet index
        // (at equal instant and index the driver runs the operation before the read raising the event)
        let ev_before_op = |t: std::time::SystemTime, idx: usize| removed_op.map(|o| t < o.t || (t == o.t && idx < o.pkt_index)).unwrap_or(false);
        let complete: Vec<bool> = transfers.iter().map(|(s, e)| e.map(|e| complete_transfer(run, toi, &part, *s, e)).unwrap_or(false)).collect();
        let n_complete = complete.iter().filter(|c| **c).count();
        n_tr += transfers.len() as u64;
        let f = |v: Violation| v.with("carousel", format!("{:?}", obj.carousel.map(|c| match c { CarouselSpec::DelayMs(0) => "delay0", CarouselSpec::DelayMs(_) => "delay", CarouselSpec::IntervalMs(_) => "interval" })))
            .with("transfers", obj.max_transfer_count).with("immediate_stop", obj.immediate_stop == Some(true)).with("full_fdt", run.spec.full_fdt).with("fec", oti.fec.name());
        match removed_at {
            None => {
                if obj.carousel.is_none() {
                    if transfers.len() > obj.max_transfer_count as usize {
                        out.push(f(Violation::new("too_many_transfers", format!("toi {}: {} transfers started, max_transfer_count {}", toi, transfers.len(), obj.max_transfer_count))).witness(wit(json!({"obj": i}))));
                    }
                    // the count is judged when the object has left the sender (is_added false at the end);
                    // in the controlled grid (ample horizon) it must have left
                    let gone = last.and_then(|s| s.per_obj.iter().find(|x| x.0 == i).map(|x| !x.2)).unwrap_or(false);
                    if horizon_ok && strict_horizon && transfers.is_empty() && obj.start_ms.is_none() && (!run.spec.full_fdt || run.ops.iter().any(|o| o.op == Op::Publish && o.ok)) {
                        out.push(f(Violation::new("never_transmitted", format!("toi {}: accepted, published, never removed, no start time - but not a single transfer started over the whole horizon; is_added at the end: {}", toi, !gone))).witness(wit(json!({"obj": i}))));
                    }
                    if horizon_ok && !gone && !transfers.is_empty() && strict_horizon {
                        out.push(f(Violation::new("never_finishes", format!("toi {}: still in the sender after the whole horizon ({} of {} transfers complete)", toi, n_complete, obj.max_transfer_count))).witness(wit(json!({"obj": i}))));
                    }
                    if gone {
                        if n_complete != obj.max_transfer_count as usize {
                            out.push(f(Violation::new("transfer_count", format!("toi {}: {} complete transfers on the wire, max_transfer_count {} ({} started)", toi, n_complete, obj.max_transfer_count, transfers.len()))).witness(wit(json!({"obj": i}))));
                        } else {
                            gone_at[i] = transfers.last().and_then(|t| t.1);
                            if let Some(s) = last {
                                if let Some((_, _, is_added, _)) = s.per_obj.iter().find(|x| x.0 == i) {
                                    if *is_added {
                                        out.push(f(Violation::new("still_added_after_last_transfer", format!("toi {}: is_added() still true after its {} transfers", toi, n_complete))).witness(wit(json!({"obj": i}))));
                                    }
                                }
                            }
                        }
                    }
                    states.push(util::fnv(&format!("count{}of{}", n_complete, obj.max_transfer_count)));
                } else {
                    // carousel: retransmitted until removed
                    if horizon_ok && strict_horizon && transfers.len() >= 1 && n_complete < 3 {
                        out.push(f(Violation::new("carousel_stops", format!("toi {}: carousel object transmitted only {} times over the horizon", toi, n_complete))).witness(wit(json!({"obj": i}))));
                    }
                    if let Some(s) = last {
                        if let Some((_, _, is_added, _)) = s.per_obj.iter().find(|x| x.0 == i) {
                            if !*is_added {
                                out.push(f(Violation::new("carousel_object_disappeared", format!("toi {}: carousel object no longer in the sender although never removed", toi))).witness(wit(json!({"obj": i}))));
                            }
                        }
                    }
                    states.push(util::fnv(&format!("carousel{}", n_complete.min(5))));
                }
            }
            Some(r) => {
                gone_at[i] = Some(r);
                let after: Vec<(usize, &SPkt)> = run.stream.iter().enumerate().filter(|(k, p)| *k >= r && p.toi() == toi).collect();
                let started = |k: usize| ev_before_op(start_times[k], transfers[k].0);
                let stopped = |k: usize| transfers[k].1.map(|e| stop_times.get(k).map(|t| ev_before_op(*t, e)).unwrap_or(false)).unwrap_or(false);
                let running = (0..transfers.len()).find(|k| started(*k) && !stopped(*k));
                let started_before = (0..transfers.len()).any(|k| started(k));
                let completed_before = (0..transfers.len()).filter(|k| complete[*k] && stopped(*k)).count();
                let kind;
                if !started_before && running.is_none() {
                    kind = "never_started";
                    // a transfer whose Start event came at index r exactly but with no packet yet counts as not started
                    if !after.is_empty() {
                        out.push(f(Violation::new("removed_before_start_but_sent", format!("toi {}: removed at packet index {} before any packet, yet {} packet(s) emitted afterwards", toi, r, after.len()))).with("kind", kind).witness(wit(json!({"obj": i}))));
                    }
                } else if completed_before == 0 && obj.immediate_stop != Some(true) && running.is_some() {
                    kind = "first_transfer_must_finish";
                    let (s, e) = transfers[running.unwrap()];
                    let fin = e.map(|e| complete_transfer(run, toi, &part, s, e)).unwrap_or(false);
                    // a transfer still running at the end of a non-strict horizon (starved by a
                    // higher priority queue, single-read polling) is not judged
                    if !fin && horizon_ok && (e.is_some() || strict_horizon) {
                        out.push(f(Violation::new("first_transfer_cut", format!("toi {}: removed at packet index {} during its first transfer (immediate stop not allowed) but that transfer was not completed", toi, r))).with("kind", kind).witness(wit(json!({"obj": i}))));
                    }
                    if transfers.len() > running.unwrap() + 1 {
                        out.push(f(Violation::new("transfer_after_removal", format!("toi {}: a new transfer started after the removal at packet index {}", toi, r))).with("kind", kind).witness(wit(json!({"obj": i}))));
                    }
                } else {
                    kind = "stop_now";
                    if after.len() > 1 {
                        out.push(f(Violation::new("packets_after_removal", format!("toi {}: {} packets after the removal at packet index {} (at most one, carrying the close-object flag, is allowed)", toi, after.len(), r))).with("kind", kind).with("in_transfer", running.is_some()).witness(wit(json!({"obj": i}))));
                    } else if after.len() == 1 && !after[0].1.dec.lct.b {
                        out.push(f(Violation::new("last_packet_without_close_flag", format!("toi {}: the packet emitted after the removal (index {}) does not carry the close-object flag", toi, after[0].0))).with("kind", kind).with("in_transfer", running.is_some()).witness(wit(json!({"obj": i}))));
                    }
                }
                states.push(util::fnv(&format!("removed|{}|{}", kind, after.len().min(3))));
            }
        }
        // transfer counter at quiescent points
        for s in run.samples.iter().filter(|s| s.quiescent) {
            if let Some((_, _, true, Some(n))) = s.per_obj.iter().find(|x| x.0 == i) {
                let seen = transfers.iter().zip(complete.iter()).filter(|((_, e), c)| **c && e.map(|e| e <= s.pkt_index).unwrap_or(false)).count() as u64;
                if *n != seen {
                    out.push(f(Violation::new("transfer_counter", format!("toi {}: nb_transfers() = {} at packet index {} but {} complete transfers were seen on the wire", toi, n, s.pkt_index, seen))).witness(wit(json!({"obj": i}))));
                    break;
                }
            }
        }
    }
    // nb_objects and FDT-only tail
    if let Some(s) = last {
        let model: usize = (0..run.objs.len()).filter(|i| run.tois[*i].is_some() && gone_at[*i].map(|g| g > s.pkt_index).unwrap_or(true)).count();
        let all_decided = (0..run.objs.len()).all(|i| run.tois[i].is_none() || gone_at[i].is_some() || run.objs[i].carousel.is_some());
        if all_decided && horizon_ok && s.nb_objects != model {
            out.push(Violation::new("nb_objects", format!("nb_objects() = {} at the end, model says {}", s.nb_objects, model)).with("full_fdt", run.spec.full_fdt).witness(wit(json!(null))));
        }
    }
    // after the last object left: only TOI 0 — except the single close-object packet of removed objects (judged above)
    let all_gone = (0..run.objs.len()).filter(|i| run.tois[*i].is_some()).all(|i| gone_at[i].is_some());
    if all_gone {
        let g = gone_at.iter().flatten().max().copied().unwrap_or(0);
        let removed_tois: Vec<u128> = run.ops.iter().filter_map(|o| if let Op::Remove(i) = o.op { if o.ok { run.tois[i] } else { None } } else { None }).collect();
        for (k, p) in run.stream.iter().enumerate().skip(g) {
            if p.toi() != 0 && !removed_tois.contains(&p.toi()) {
                out.push(Violation::new("object_packet_after_all_gone", format!("packet {} (TOI {}) although no object remains since index {}", k, p.toi(), g)).witness(wit(json!(null))));
                break;
            }
        }
    }
    (n_tr, states)
}

fn run_case(spec: &SenderSpec, objs: &[ObjSpec], script: &[(When, Op)], opts: &ScriptOpts, shape: &str, strict_horizon: bool, cr: &mut CaseResult) {
    let witness = json!({"sender": spec.json(), "objects": objs.iter().map(|o| o.json()).collect::<Vec<_>>(), "script": format!("{:?}", script)});
    match util::guarded(|| run_script(spec, objs, script, opts)) {
        Ok(Ok(run)) => {
            if run.ops.iter().any(|o| o.op == Op::Publish && !o.ok) {
                return;
            }
            let horizon_ok = run.stream.len() < opts.max_packets;
            let (ntr, st) = judge(&run, horizon_ok, strict_horizon, &mut cr.violations);
            cr.count("transfers", ntr);
            cr.count("packets", run.stream.len() as u64);
            cr.count("state_samples", run.samples.len() as u64);
            cr.states = st;
            if ntr > 0 {
                cr.shape = Some(util::fnv(shape));
            }
            cr.sample = Some(json!({"sender": run.spec.json(), "objects": run.objs.iter().map(|o| json!({"transfers": o.max_transfer_count, "carousel": format!("{:?}", o.carousel), "immediate_stop": o.immediate_stop})).collect::<Vec<_>>(),
                "ops": run.ops.iter().map(|o| format!("{:?}@{}", o.op, o.pkt_index)).collect::<Vec<_>>(), "transfers_seen": ntr, "packets": run.stream.len()}));
        }
        Ok(Err(e)) => {
            if e.contains("at one instant") {
                cr.violations.push(Violation::new("reads_do_not_terminate", e).witness(witness));
            } else if !e.starts_with("publish") {
                cr.inconclusive = Some(e);
            }
        }
        Err(p) => cr.violations.push(Violation::new(if p.is_step_budget() { "hang" } else { "panic" }, format!("{} @ {}", p.msg, p.short_loc())).with("site", if p.is_step_budget() { p.step_site() } else { p.file() }).witness(witness)),
    }
    limit(&mut cr.violations, 3);
}

fn main() {
    let prop = Property {
        id: "C12",
        level: "exploration",
        rule: "scripted sender runs on a virtual clock judged against a per-object lifecycle model built from Start/StopTransfer events, the independent stream decoder and state samples (nb_objects, is_added, nb_transfers after every operation and every drain): (grid) max_transfer_count 1..5 x carousel none/delay 0/1 ms/1 s/interval x immediate-stop x FEC x publish mode with removal at EVERY packet index of the first two transfers; (random) several objects and queues, removals, trigger_transfer_at, both polling disciplines; a case is one script, non-trivial when at least one transfer was observed; distinct = (configuration, removal index) / discretised script shape",
        assumptions: vec![
            "a complete transfer = all source symbols of all blocks inside one Start/Stop window".into(),
            "the transfer counter is compared at quiescent points (after a drain returned None); no pacing in these workloads".into(),
            "carousel lower bound (>= 3 transfers) only when the horizon leaves room for it".into(),
        ],
        exhaustive: true,
        budget_quick_s: 150,
        budget_thorough_s: 1500,
    };
    run_property(prop, |ctx| {
        let mut gens = vec![];
        // ---- grid with removal at every packet index
        #[derive(Clone)]
        struct G {
            fec: Fec,
            transfers: u32,
            carousel: Option<CarouselSpec>,
            imm: Option<bool>,
            full: bool,
            remove_at: Option<usize>,
            republish: bool,
        }
        let mut grid: Vec<G> = vec![];
        let fecs: Vec<Fec> = ctx.tier.pick(vec![Fec::NoCode, Fec::Rs28], vec![Fec::NoCode, Fec::Rs28, Fec::RaptorQ, Fec::Rs28Us]);
        for fec in fecs {
            for transfers in [1u32, 2, 3, 5] {
                for carousel in [None, Some(CarouselSpec::DelayMs(0)), Some(CarouselSpec::DelayMs(1)), Some(CarouselSpec::DelayMs(1000)), Some(CarouselSpec::IntervalMs(300))] {
                    for imm in [None, Some(true), Some(false)] {
                        for full in [true, false] {
                            grid.push(G { fec, transfers, carousel, imm, full, remove_at: None, republish: false });
                            // 7 symbols + parity per transfer: indices over the first two transfers + margins
                            for r in 0..26 {
                                grid.push(G { fec, transfers, carousel, imm, full, remove_at: Some(r), republish: r % 2 == 0 });
                            }
                        }
                    }
                }
            }
        }
        let n_grid = grid.len();
        gens.push(Gen::new("grid_removal_every_index", n_grid, move |ctx, i| {
            let g = grid[i].clone();
            let mut rng = Rng::keyed(ctx.seed, "C12g", 0, 7);
            let mut spec = SenderSpec::new(OtiSpec::new(Fec::NoCode, 4096, 8, 0));
            spec.full_fdt = g.full;
            spec.interleave = 2;
            spec.fdt_carousel = CarouselSpec::DelayMs(2000);
            let mut o = ObjSpec::new(gen_bytes(&mut rng, 53), "file:///l/o.bin");
            o.oti = Some(OtiSpec::new(g.fec, 8, 3, if g.fec == Fec::NoCode { 0 } else { 1 }));
            o.max_transfer_count = g.transfers;
            o.carousel = g.carousel;
            o.immediate_stop = g.imm;
            let mut script = vec![(When::Start, Op::Add(0)), (When::Start, Op::Publish)];
            if let Some(r) = g.remove_at {
                script.push((When::Packets(r), Op::Remove(0)));
                if g.republish {
                    script.push((When::Packets(r), Op::Publish));
                }
            }
            let mut opts = ScriptOpts::every(100, 120);
            opts.stop_when_empty = g.carousel.is_none() || g.remove_at.is_some();
            opts.max_packets = 3000;
            let mut cr = CaseResult::default();
            run_case(&spec, &[o], &script, &opts, &format!("g{}", i), true, &mut cr);
            cr
        }));
        // ---- ObjectsBeingTransferred mode with a session OTI that cannot carry every FDT size (Raptor: an FDT of
        //      2-3 symbols cannot be encoded): the automatic publish of an object starting while others are on the
        //      wire fails, its start is cancelled and must be retried - every object is still transmitted exactly
        //      its configured number of times and leaves the sender
        let n_tp = ctx.tier.pick(600usize, 12_000);
        gens.push(Gen::new("transient_publish_failure", n_tp, move |ctx, i| {
            let mut rng = Rng::keyed(ctx.seed, "C12t", 0, i as u64);
            let nobj = rng.range(2, 4) as usize;
            let obj_oti = OtiSpec::new(Fec::NoCode, 64, 8, 0);
            let mut objs = vec![];
            let mut script = vec![];
            for k in 0..nobj {
                let len = rng.range(100, 900) as usize;
                let mut o = ObjSpec::new(gen_bytes(&mut rng, len), &format!("file:///transient-publish-failure/object-number-{}.bin", k));
                o.oti = Some(obj_oti.clone());
                o.max_transfer_count = rng.range(1, 2) as u32;
                objs.push(o);
                script.push((When::Start, Op::Add(k)));
            }
            // size of an FDT instance listing ONE of these objects (measured on a No-Code probe session): the symbol
            // size is chosen so that such an instance is one symbol (always encodable) while instances listing two or
            // three objects are 2-3 symbols, which Raptor cannot encode
            let mut probe = SenderSpec::new(OtiSpec::new(Fec::NoCode, 8192, 8, 0));
            probe.full_fdt = false;
            let l1 = match util::guarded(|| emit(&probe, &objs[..1], &EmitOpts::default())) {
                Ok(Ok(em)) => em.stream.iter().filter(|p| p.toi() == 0).filter_map(|p| p.dec.fti.as_ref().map(|f| f.l)).max().unwrap_or(0),
                _ => 0,
            };
            let mut cr = CaseResult::default();
            if l1 == 0 || l1 > 3000 {
                cr.inconclusive = Some("probe session gave no FDT".into());
                return cr;
            }
            let e = (((l1 + [24u64, 100, 300][i % 3]) + 3) / 4 * 4) as u16;
            let mut fdt_oti = OtiSpec::new(Fec::Raptor, e, 64, 1);
            fdt_oti.al = 4;
            let mut spec = SenderSpec::new(fdt_oti);
            spec.full_fdt = false;
            spec.fdt_carousel = CarouselSpec::DelayMs(2000);
            spec.queues = vec![(0, rng.range(2, 3) as u32)];
            let mut opts = ScriptOpts::every(100, 300);
            opts.stop_when_empty = true;
            opts.max_packets = 6000;
            run_case(&spec, &objs, &script, &opts, &format!("tp{}|{}|{}", e, nobj, spec.queues[0].1), true, &mut cr);
            for v in cr.violations.iter_mut() {
                v.sig.insert("transient_publish_failure".into(), json!(true));
            }
            cr
        }));
        // ---- random scripts
        let n = ctx.tier.pick(8000usize, 250_000);
        gens.push(Gen::new("random_scripts", n, move |ctx, i| {
            let mut rng = Rng::keyed(ctx.seed, "C12r", 0, i as u64);
            let o = gen::GenOpts { max_objects: 5, max_symbols: 16, sources: false, realistic_every: 0, cenc: false, transfers_max: 5, ..Default::default() };
            let (mut spec, mut objs) = gen::gen_session(&mut rng, &o);
            spec.fdt_carousel = CarouselSpec::DelayMs(*rng.pick(&[500u64, 2000]));
            // short FDT lifetimes (renewal decisions at the same instant as the publication must not loop)
            spec.fdt_duration_s = *rng.pick(&[1u64, 1, 2, 5, 3600, 3600]);
            let mut script: Vec<(When, Op)> = vec![];
            let mut pk = 0usize;
            for (k, ob) in objs.iter_mut().enumerate() {
                ob.max_transfer_count = rng.range(1, 5) as u32;
                ob.carousel = match rng.below(6) {
                    0 => Some(CarouselSpec::DelayMs(0)),
                    1 => Some(CarouselSpec::DelayMs(rng.range(1, 400))),
                    2 => Some(CarouselSpec::IntervalMs(rng.range(1, 800))),
                    _ => None,
                };
                ob.immediate_stop = *rng.pick(&[None, Some(true), Some(false)]);
                let w = if k == 0 { When::Start } else { When::Packets(pk) };
                script.push((w.clone(), Op::Add(k)));
                script.push((w, Op::Publish));
                pk += rng.range(0, 40) as usize;
            }
            let nrem = rng.below(objs.len() as u64 + 1);
            let mut removed = vec![];
            for _ in 0..nrem {
                let r = rng.below(objs.len() as u64) as usize;
                if removed.contains(&r) {
                    continue;
                }
                removed.push(r);
                pk += rng.range(0, 60) as usize;
                script.push((When::Packets(pk), Op::Remove(r)));
                if rng.chance(1, 2) {
                    script.push((When::Packets(pk), Op::Publish));
                }
            }
            // a second removal of an object that is already gone must change nothing
            if !removed.is_empty() && rng.chance(1, 4) {
                let r = *rng.pick(&removed);
                pk += rng.range(0, 30) as usize;
                script.push((When::Packets(pk), Op::Remove(r)));
            }
            // 0-3 triggers, immediate or at an instant up to 2 s after the epoch (past or future when executed)
            let ntrig = if rng.chance(1, 3) { rng.range(1, 3) } else { 0 };
            for _ in 0..ntrig {
                let t = rng.below(objs.len() as u64) as usize;
                pk += rng.range(0, 30) as usize;
                let at = if rng.chance(1, 2) { None } else { Some(rng.below(2000)) };
                script.push((When::Packets(pk), Op::Trigger(t, at)));
            }
            // script order must follow packet thresholds
            let mut last = 0usize;
            for s in script.iter_mut() {
                if let When::Packets(x) = &mut s.0 {
                    if *x < last {
                        *x = last;
                    }
                    last = *x;
                }
            }
            let mut opts = ScriptOpts::every(*rng.pick(&[50u64, 100, 500]), 200);
            opts.drain = rng.chance(4, 5);
            let any_carousel_left = objs.iter().enumerate().any(|(k, o)| o.carousel.is_some() && !removed.contains(&k));
            opts.stop_when_empty = !any_carousel_left;
            opts.max_packets = 6000;
            let shape = format!("r|{}|n{}|rem{}|q{}|d{}|c{}", spec.full_fdt, objs.len(), removed.len(), spec.queues.len(), opts.drain, objs.iter().filter(|o| o.carousel.is_some()).count());
            let mut cr = CaseResult::default();
            // the transfer-count verdicts need the drain discipline (single reads may not reach the end)
            if !opts.drain {
                opts.instants = (0..4000u64).map(|k| k * 20).collect();
            }
            // poll instants at an arbitrary phase of the second (Expires is in whole seconds)
            let phase = rng.below(1000);
            for x in opts.instants.iter_mut() {
                *x += phase;
            }
            run_case(&spec, &objs, &script, &opts, &shape, false, &mut cr);
            cr
        }));
        // ---- trigger_transfer_at(toi, None / Some(t)) at arbitrary packet indices - while the object is being sent, while it
        // waits for a slot behind another object, between two of its transfers - with an ample horizon, so that the
        // lifecycle clauses are judged strictly: counted objects are sent exactly n times and leave, carousel objects go on
        let n_tg = ctx.tier.pick(2500usize, 200_000);
        gens.push(Gen::new("trigger_scripts", n_tg, move |ctx, i| {
            let mut rng = Rng::keyed(ctx.seed, "C12tg", 0, i as u64);
            let mut cr = CaseResult::default();
            let mut spec = SenderSpec::new(OtiSpec::new(Fec::NoCode, 1024, 8, 0));
            spec.full_fdt = rng.chance(1, 2);
            spec.fdt_carousel = CarouselSpec::DelayMs(3_600_000);
            spec.fdt_duration_s = 3600;
            spec.queues = vec![(0, rng.range(1, 2) as u32)];
            let nobj = rng.range(1, 3) as usize;
            let mut objs = vec![];
            let mut script = vec![];
            let mut per = 0usize;
            for k in 0..nobj {
                let len = rng.range(10, 70) as usize;
                let mut o = ObjSpec::new(gen_bytes(&mut rng, len), &format!("file:///tg/{}", k));
                o.oti = Some(OtiSpec::new(Fec::NoCode, 16, 2, 0));
                o.max_transfer_count = rng.range(1, 3) as u32;
                if k == 0 && rng.chance(1, 3) {
                    o.carousel = Some(CarouselSpec::DelayMs(*rng.pick(&[0u64, 100, 400])));
                }
                per += len.div_ceil(16) * o.max_transfer_count as usize;
                script.push((When::Start, Op::Add(k)));
                objs.push(o);
            }
            script.push((When::Start, Op::Publish));
            let ntrig = rng.range(1, 3);
            let mut pk = 0usize;
            for _ in 0..ntrig {
                pk += rng.range(0, per as u64 / 2 + 2) as usize;
                let t = rng.below(nobj as u64) as usize;
                // immediate, or at an instant of the first two seconds (past or future when it is executed)
                let at = if rng.chance(2, 3) { None } else { Some(rng.below(2000)) };
                script.push((When::Packets(pk), Op::Trigger(t, at)));
            }
            let any_carousel = objs.iter().any(|o| o.carousel.is_some());
            let mut opts = ScriptOpts::every(100, 150);
            opts.drain = rng.chance(3, 4);
            opts.stop_when_empty = !any_carousel;
            opts.max_packets = 20_000;
            let shape = format!("tg|{}|{}|{}|{}", nobj, any_carousel, ntrig, spec.full_fdt);
            run_case(&spec, &objs, &script, &opts, &shape, true, &mut cr);
            cr
        }));
        // ---- a stream source whose rewind fails ONCE (a transient I/O error of the caller's Read + Seek) at the start of
        // one transfer. What the sender does with that one attempt is its business and is not judged (the unchanged tree
        // counts it as a transfer); what the lifecycle clauses still demand is that the object is not stranded: a
        // carousel object goes on being retransmitted, a counted object still leaves the sender.
        let n_sf = ctx.tier.pick(600usize, 40_000);
        gens.push(Gen::new("transient_source_failure", n_sf, move |ctx, i| {
            let mut rng = Rng::keyed(ctx.seed, "C12sf", 0, i as u64);
            let mut cr = CaseResult::default();
            let mut spec = SenderSpec::new(OtiSpec::new(Fec::NoCode, 1024, 8, 0));
            spec.full_fdt = rng.chance(1, 2);
            spec.fdt_carousel = CarouselSpec::DelayMs(3_600_000);
            spec.queues = vec![(0, rng.below(3) as u32)];
            let carousel = rng.chance(1, 2);
            let transfers = rng.range(2, 4) as u32;
            let fail_at = rng.range(1, transfers as u64 + 1) as usize;
            let len = rng.range(10, 60) as usize;
            let mut o = ObjSpec::new(gen_bytes(&mut rng, len), "file:///sf/0");
            o.oti = Some(OtiSpec::new(Fec::NoCode, 16, 2, 0));
            o.md5 = false;
            o.source = SourceSpec::SeekFailsOnce(fail_at);
            o.max_transfer_count = if carousel { 1 } else { transfers };
            if carousel {
                o.carousel = Some(CarouselSpec::DelayMs(*rng.pick(&[0u64, 100, 300])));
            }
            let mut objs = vec![o];
            let mut script = vec![(When::Start, Op::Add(0))];
            // sometimes a plain second object shares the queue
            if rng.chance(1, 2) {
                let mut p = ObjSpec::new(gen_bytes(&mut rng, 40), "file:///sf/1");
                p.oti = Some(OtiSpec::new(Fec::NoCode, 16, 2, 0));
                objs.push(p);
                script.push((When::Start, Op::Add(1)));
            }
            script.push((When::Start, Op::Publish));
            let mut opts = ScriptOpts::every(100, 80);
            opts.stop_when_empty = !carousel;
            opts.max_packets = 5000;
            let run = match util::guarded(|| run_script(&spec, &objs, &script, &opts)) {
                Ok(Ok(r)) => r,
                Ok(Err(_)) => return cr,
                Err(p) => {
                    cr.violations.push(Violation::new(if p.is_step_budget() { "hang" } else { "panic" }, format!("{} @ {}", p.msg, p.short_loc())).with("site", if p.is_step_budget() { p.step_site() } else { p.file() }).with("gen", "transient_source_failure"));
                    return cr;
                }
            };
            let toi = match run.tois[0] {
                Some(t) => t,
                None => return cr,
            };
            let log: Vec<String> = run.seek_logs[0].as_ref().map(|l| l.lock().unwrap().clone()).unwrap_or_default();
            let failed = log.iter().any(|l| l.contains("fails"));
            let part = ref_partition(2, len as u128, 16);
            // complete transfers of the object on the wire
            let mut complete = vec![];
            for (s0, e0) in run.transfers_of(toi) {
                let e0 = e0.unwrap_or(run.stream.len());
                let have: std::collections::BTreeSet<(u32, u32)> = run.stream[s0..e0].iter().filter(|p| p.toi() == toi).map(|p| (p.dec.sbn, p.dec.esi)).collect();
                if have.len() as u128 == part.t {
                    complete.push(s0);
                }
            }
            let last = run.samples.last();
            let still_added = last.map(|s| s.per_obj.iter().any(|(k, _, added, _)| *k == 0 && *added)).unwrap_or(false);
            let wit = json!({"sender": run.spec.json(), "carousel": carousel, "transfers": transfers, "failing_seek": fail_at, "source_log": log.iter().take(40).collect::<Vec<_>>(), "complete_transfers_at": complete, "stream": run.summary(40)});
            if failed {
                if carousel {
                    // the horizon (8 s) holds dozens of cycles: at least two complete transfers must follow the failure
                    let fail_idx = log.iter().position(|l| l.contains("fails")).unwrap_or(0);
                    let passes_after = log[fail_idx..].iter().filter(|l| l.starts_with("seek_start(0)")).count();
                    if still_added && passes_after < 2 {
                        cr.violations.push(Violation::new("carousel_object_stranded", format!("carousel object (TOI {}): its stream failed to rewind once (seek #{}); it is still added but was read again only {} time(s) during the rest of the run ({} complete transfers on the wire in all)", toi, fail_at, passes_after, complete.len()))
                            .with("carousel", true).witness(wit));
                    }
                } else if still_added {
                    cr.violations.push(Violation::new("counted_object_never_leaves", format!("object with max_transfer_count {} (TOI {}): its stream failed to rewind once (seek #{}); at the end of the run (sender idle) it is still added - {} complete transfers on the wire", transfers, toi, fail_at, complete.len()))
                        .with("carousel", false).witness(wit));
                }
            }
            cr.count("runs_with_an_injected_seek_failure", failed as u64);
            cr.count("complete_transfers", complete.len() as u64);
            if failed {
                cr.shape = Some(util::fnv(&format!("sf|{}|{}|{}|{}", carousel, transfers, fail_at, objs.len())));
            }
            cr.states = vec![util::fnv(&format!("sf|{}|{}", carousel, still_added))];
            if i % 97 == 0 {
                cr.sample = Some(json!({"carousel": carousel, "transfers": transfers, "failing_seek": fail_at, "failure_injected": failed, "complete_transfers": complete.len(), "still_added_at_end": still_added}));
            }
            cr
        }));
        gens
    });
}
