//! C13 - scheduling: strict queue priority, FIFO admission inside a queue,
//! bounded file multiplexing with round-robin alternation, bounded block
//! interleaving with blocks opened in increasing order.
use serde_json::{json, Value};
use std::collections::{BTreeMap, BTreeSet};
use vh::report::*;
use vh::scenario::*;
use vh::session::*;
use vh::util::{self, Rng};

struct ObjView {
    /// position of the Add operation in the executed operation log
    add_pos: usize,
    i: usize,
    toi: u128,
    queue: u32,
    /// index from which the object is ready to be scheduled
    ready_from: usize,
    pkts: Vec<usize>,
    start: Option<usize>,
    stop: Option<usize>,
    /// sent more than once (transfer count > 1 or carousel): between two transfers it waits in the queue again, so
    /// it is left out of the clauses that reason on "first packet .. last packet"
    repeating: bool,
    /// packet index at which remove_object was called for it (a removed object is no longer 'ready')
    removed_at: Option<usize>,
}

fn judge(run: &ScriptRun, out: &mut Vec<Violation>) -> (u64, Vec<u64>) {
    let mut states: BTreeSet<u64> = BTreeSet::new();
    let wit = |extra: Value| json!({"run": run.json(), "detail": extra, "stream": run.stream.iter().enumerate().map(|(k, p)| format!("{}:t{}b{}e{}", k, p.toi(), p.dec.sbn, p.dec.esi)).collect::<Vec<_>>()});
    let mut objs: Vec<ObjView> = vec![];
    for (i, o) in run.objs.iter().enumerate() {
        let toi = match run.tois[i] {
            Some(t) => t,
            None => continue,
        };
        let add = run.ops.iter().find(|x| matches!(x.op, Op::Add(k) if k == i)).map(|x| x.pkt_index).unwrap_or(0);
        let add_pos = run.ops.iter().position(|x| matches!(x.op, Op::Add(k) if k == i)).unwrap_or(0);
        let ready_from = if run.spec.full_fdt {
            match run.ops.iter().skip(add_pos).find(|x| x.op == Op::Publish && x.ok) {
                Some(p) => p.pkt_index,
                None => usize::MAX,
            }
        } else {
            add
        };
        let tr = run.transfers_of(toi);
        objs.push(ObjView {
            add_pos,
            i,
            toi,
            queue: o.priority,
            ready_from,
            pkts: run.stream.iter().enumerate().filter(|(_, p)| p.toi() == toi).map(|(k, _)| k).collect(),
            start: tr.first().map(|t| t.0),
            stop: tr.first().and_then(|t| t.1),
            repeating: o.max_transfer_count > 1 || o.carousel.is_some(),
            removed_at: run.ops.iter().find(|x| matches!(x.op, Op::Remove(k) if k == i)).map(|x| x.pkt_index),
        });
    }
    let mux = |q: u32| run.spec.queues.iter().find(|x| x.0 == q).map(|x| x.1.max(1)).unwrap_or(1) as usize;
    let base = |v: Violation| v.with("queues", run.spec.queues.len() as u64).with("full_fdt", run.spec.full_fdt).with("interleave", run.spec.interleave);
    // (P) strict priority
    let mut p_reported = false;
    for a in &objs {
        for &n in &a.pkts {
            for b in &objs {
                if b.queue < a.queue && !b.repeating && b.removed_at.is_none() && b.ready_from <= n && b.pkts.last().map(|l| *l > n).unwrap_or(true) && !p_reported {
                    // b is ready (announced/added before n) and still has packets to send after n - or is never sent at all
                    out.push(base(Violation::new("priority_inversion", format!(
                        "packet {} belongs to TOI {} (queue {}) while TOI {} of the higher-priority queue {} was ready since index {} and still had packets to send ({})",
                        n, a.toi, a.queue, b.toi, b.queue, b.ready_from, match b.pkts.iter().find(|k| **k > n) { Some(k) => format!("its next packet is at index {}", k), None => "it is never transmitted".to_string() })))
                        .with("high_never_sent", b.pkts.is_empty())
                        .witness(wit(json!({"low": a.i, "high": b.i}))));
                    p_reported = true;
                }
            }
        }
    }
    // (F) FIFO admission inside a queue: first packets in add order (add order = object index order per queue here)
    let mut by_q: BTreeMap<u32, Vec<&ObjView>> = BTreeMap::new();
    for o in objs.iter().filter(|o| !o.repeating && o.removed_at.is_none()) {
        by_q.entry(o.queue).or_default().push(o);
    }
    // an object that was made ready, was not removed, and is never transmitted although the run went on until the
    // sender had nothing left to send (the packet budget was not exhausted)
    if run.stream.len() < 19_000 {
        if let Some(o) = objs.iter().find(|o| !o.repeating && o.removed_at.is_none() && o.ready_from != usize::MAX && o.pkts.is_empty()) {
            out.push(base(Violation::new("ready_never_sent", format!("TOI {} (queue {}) was ready since packet index {} and was never transmitted ({} packets in the run)", o.toi, o.queue, o.ready_from, run.stream.len())))
                .with("after_a_removal", objs.iter().any(|x| x.removed_at.is_some())).witness(wit(json!({"obj": o.i}))));
        }
    }
    for (q, list) in &by_q {
        // an object that was made ready and never starts although one made ready after it, in the same queue, does
        for a in list.iter().filter(|o| o.pkts.is_empty() && o.ready_from != usize::MAX) {
            if let Some(b) = list.iter().find(|b| !b.pkts.is_empty() && (b.ready_from, b.add_pos) > (a.ready_from, a.add_pos)) {
                out.push(base(Violation::new("admission_skipped", format!("queue {}: TOI {} (ready since index {}) is never transmitted while TOI {}, made ready after it (index {}), is", q, a.toi, a.ready_from, b.toi, b.ready_from)))
                    .witness(wit(json!({"queue": q, "skipped": a.i, "served": b.i}))));
                break;
            }
        }
        // "start" = admission = the public StartTransfer event. The order of the FIRST PACKETS may differ by a
        // round-robin step when two objects are admitted in the same scheduling round (both wait behind the
        // FDT instance their admission published): that is the alternation clause's business, not this one's.
        let start_seq = |o: &ObjView| run.sub_events.iter().position(|(_, e)| matches!(e, SubEv::Start(t, _) if *t == o.toi)).unwrap_or(usize::MAX);
        let mut order: Vec<&&ObjView> = list.iter().filter(|o| !o.pkts.is_empty()).collect();
        order.sort_by_key(|o| (start_seq(o), o.pkts[0]));
        // expected: by (ready_from, add order)
        let mut want: Vec<&&ObjView> = list.iter().filter(|o| !o.pkts.is_empty()).collect();
        want.sort_by_key(|o| (o.ready_from, o.add_pos));
        let got: Vec<usize> = order.iter().map(|o| o.i).collect();
        let exp: Vec<usize> = want.iter().map(|o| o.i).collect();
        if got != exp {
            out.push(base(Violation::new("admission_order", format!("queue {}: objects start (StartTransfer events) in order {:?}, they were made ready in order {:?}", q, got, exp))).witness(wit(json!({"queue": q}))));
        }
        // (X) multiplex bound
        let m = mux(*q);
        let mut events: Vec<(usize, i32)> = vec![];
        for o in list {
            if let (Some(s), Some(_)) = (o.pkts.first(), o.pkts.last()) {
                // in transmission on the wire: from its first packet to its last packet
                events.push((*s, 1));
                events.push((*o.pkts.last().unwrap() + 1, -1));
            }
        }
        events.sort();
        let mut cur = 0i32;
        let mut peak = 0i32;
        for (_, d) in &events {
            cur += d;
            peak = peak.max(cur);
        }
        states.insert(util::fnv(&format!("mux{}peak{}", m, peak)));
        if peak as usize > m {
            out.push(base(Violation::new("multiplex_bound", format!("queue {}: {} objects in transmission at once, multiplex_files allows {}", q, peak, m))).with("multiplex", m as u64).witness(wit(json!({"queue": q}))));
        }
        // fairness: between two consecutive packets of A, every B in transmission across the whole gap has a packet
        for a in list {
            for w in a.pkts.windows(2) {
                let (i, j) = (w[0], w[1]);
                for b in list {
                    if b.i == a.i || b.pkts.is_empty() {
                        continue;
                    }
                    let across = b.pkts[0] < i && *b.pkts.last().unwrap() > j;
                    if across && !b.pkts.iter().any(|k| *k > i && *k < j) {
                        out.push(base(Violation::new("round_robin", format!(
                            "queue {}: TOI {} sends at indices {} and {} while TOI {}, in transmission across that whole interval, sends nothing in between", q, a.toi, i, j, b.toi)))
                            .with("multiplex", m as u64).witness(wit(json!({"a": a.i, "b": b.i}))));
                        break;
                    }
                }
            }
        }
    }
    // (I) block interleaving
    let il = run.spec.interleave as usize;
    for o in objs.iter().filter(|o| !o.repeating) {
        let mut first: BTreeMap<u32, usize> = BTreeMap::new();
        let mut last: BTreeMap<u32, usize> = BTreeMap::new();
        for &k in &o.pkts {
            let sbn = run.stream[k].dec.sbn;
            first.entry(sbn).or_insert(k);
            last.insert(sbn, k);
        }
        let mut prev = None;
        let mut order: Vec<(usize, u32)> = first.iter().map(|(s, k)| (*k, *s)).collect();
        order.sort();
        for (_, sbn) in &order {
            if let Some(p) = prev {
                if *sbn < p {
                    out.push(base(Violation::new("block_order", format!("TOI {}: block {} first appears after block {}", o.toi, sbn, p))).witness(wit(json!({"obj": o.i}))));
                    break;
                }
            }
            prev = Some(*sbn);
        }
        let mut peak = 0;
        for &k in &o.pkts {
            let open = first.iter().filter(|(s, f)| **f <= k && last[*s] >= k).count();
            peak = peak.max(open);
        }
        states.insert(util::fnv(&format!("il{}peak{}", il, peak)));
        if peak > il {
            out.push(base(Violation::new("interleave_window", format!("TOI {}: {} source blocks open at once, interleave_blocks is {}", o.toi, peak, il))).witness(wit(json!({"obj": o.i}))));
        }
        let _ = (o.start, o.stop);
    }
    (objs.iter().map(|o| o.pkts.len() as u64).sum(), states.into_iter().collect())
}

/// Carousel objects of a higher-priority queue: once the carousel delay of such an object is over (counted from the
/// end of its last transfer, or from its start for IntervalBetweenStartTimes) it is ready again, and no packet of a
/// lower-priority object may be emitted until its next transfer has started. Times are the virtual instants of the
/// reads; "over" is strict (the sender polls at discrete instants).
fn judge_carousel_ready(run: &ScriptRun, out: &mut Vec<Violation>) -> u64 {
    let mut judged = 0u64;
    let us = |t: std::time::SystemTime| util::since_t0_us(t) as i128;
    for (i, o) in run.objs.iter().enumerate() {
        let (toi, car) = match (run.tois[i], o.carousel) {
            (Some(t), Some(c)) => (t, c),
            _ => continue,
        };
        if o.max_transfer_count > 1 || run.ops.iter().any(|x| matches!(x.op, Op::Remove(k) if k == i)) {
            continue;
        }
        // (start index, start time, stop index, stop time) of every finished transfer
        let mut trs: Vec<(usize, i128, Option<(usize, i128)>)> = vec![];
        for (idx, e) in &run.sub_events {
            match e {
                SubEv::Start(t, at) if *t == toi => trs.push((*idx, us(*at), None)),
                SubEv::Stop(t, at) if *t == toi => {
                    if let Some(l) = trs.last_mut() {
                        if l.2.is_none() {
                            l.2 = Some((*idx, us(*at)));
                        }
                    }
                }
                _ => {}
            }
        }
        for j in 0..trs.len() {
            let (stop_idx, stop_t) = match trs[j].2 {
                Some(x) => x,
                None => continue,
            };
            let (reference, d_us) = match car {
                CarouselSpec::DelayMs(ms) => (stop_t, ms as i128 * 1000),
                CarouselSpec::IntervalMs(ms) => (trs[j].1, ms as i128 * 1000),
            };
            let next_start = trs.get(j + 1).map(|t| t.0).unwrap_or(run.stream.len());
            for k in stop_idx..next_start.min(run.stream.len()) {
                let p = &run.stream[k];
                if p.toi() == 0 {
                    continue;
                }
                let low = match run.tois.iter().position(|t| *t == Some(p.toi())) {
                    Some(x) => x,
                    None => continue,
                };
                if run.objs[low].priority <= o.priority {
                    continue;
                }
                judged += 1;
                if us(p.t) - reference > d_us {
                    out.push(Violation::new("carousel_ready_preempted", format!(
                        "packet {} (t = {} ms) belongs to TOI {} of queue {} while the carousel object TOI {} of the higher-priority queue {} was ready again: its delay {:?} was over since {} ms and its next transfer {}",
                        k, us(p.t) / 1000, p.toi(), run.objs[low].priority, toi, o.priority, car, (reference + d_us) / 1000,
                        match trs.get(j + 1) { Some(t) => format!("starts at packet index {}", t.0), None => "never starts".to_string() }))
                        .with("carousel", format!("{:?}", car)).with("full_fdt", run.spec.full_fdt)
                        .witness(json!({"run": run.json(), "high": i, "low": low, "packet": k})));
                    return judged;
                }
            }
        }
    }
    judged
}

fn run_case(spec: &SenderSpec, objs: &[ObjSpec], script: &[(When, Op)], shape: &str, cr: &mut CaseResult) {
    run_case_horizon(spec, objs, script, shape, 400, cr)
}

fn run_case_horizon(spec: &SenderSpec, objs: &[ObjSpec], script: &[(When, Op)], shape: &str, instants: usize, cr: &mut CaseResult) {
    let witness = json!({"sender": spec.json(), "objects": objs.iter().map(|o| json!({"len": o.data.len(), "prio": o.priority})).collect::<Vec<_>>(), "script": format!("{:?}", script)});
    let mut opts = ScriptOpts::every(100, instants);
    opts.max_packets = 20_000;
    // workloads with carousel objects never run empty
    opts.stop_when_empty = !objs.iter().any(|o| o.carousel.is_some());
    match util::guarded(|| run_script(spec, objs, script, &opts)) {
        Ok(Ok(run)) => {
            if run.ops.iter().any(|o| o.op == Op::Publish && !o.ok) {
                return;
            }
            let (n, st) = judge(&run, &mut cr.violations);
            cr.count("object_packets", n);
            cr.states = st;
            if n > 0 {
                cr.shape = Some(util::fnv(shape));
            }
            cr.sample = Some(json!({"queues": run.spec.queues, "interleave": run.spec.interleave, "objects": run.objs.iter().map(|o| json!({"len": o.data.len(), "prio": o.priority})).collect::<Vec<_>>(),
                "toi_order_on_wire": run.stream.iter().filter(|p| p.toi() != 0).map(|p| p.toi() as u64).collect::<Vec<_>>().iter().take(60).collect::<Vec<_>>()}));
        }
        Ok(Err(e)) => {
            if !e.starts_with("publish") {
                cr.inconclusive = Some(e);
            }
        }
        Err(p) => cr.violations.push(Violation::new(if p.is_step_budget() { "hang" } else { "panic" }, format!("{} @ {}", p.msg, p.short_loc())).with("site", if p.is_step_budget() { p.step_site() } else { p.file() }).witness(witness)),
    }
    limit(&mut cr.violations, 2);
}

fn size_of(kind: usize, e: usize, b: usize) -> usize {
    match kind {
        0 => 0,
        1 => e - 1,
        2 => e * b,
        _ => e * (2 * b + 1) + 3, // 3 unequal blocks
    }
}

fn main() {
    let prop = Property {
        id: "C13",
        level: "exploration",
        rule: "small grid enumerated completely: 1..3 queues x 1..3 objects per queue x object size pattern (sizes from {0, 1 symbol, 1 block, 3 unequal blocks}, rotated) x multiplex_files 0..3 x interleave_blocks 1..4 x publish mode with all objects added before the first read; two-queue workloads with a high-priority object added at EVERY packet index of the low-priority transmission; seeded random larger workloads (<= 6 queues, <= 20 objects); workloads in which objects that are sent several times (transfer count 2-3, carousel) are re-queued around single-transfer objects added and published at different packet indices / times. Four stream invariants judged on the independently decoded stream: strict priority (no lower-queue packet while a ready higher-queue object still has packets - or is never sent at all), FIFO admission, multiplex bound and round-robin alternation, interleave window and increasing block opening; a case is one workload, non-trivial when object packets were observed; distinct = workload parameters; carousel_ready: carousel objects (delay / interval 150 ms .. 2.3 s) in the high-priority queue, long objects in the low one, 1-3 reads per poll every 30-170 ms - between the end of a round and the start of the next no low-priority packet is emitted later than the round's reference instant + delay; fdt_too_small_for_the_slots: ObjectsBeingTransferred mode, 2-3 multiplex slots, a session OTI that cannot carry an instance listing two objects - start order = add order",
        assumptions: vec![
            "single-transfer objects use no start time or pacing, so ready = added (and published in full-FDT mode) with packets left; objects sent several times are judged as senders only".into(),
            "round-robin is judged through a sound consequence (an object in transmission across a whole gap of another sends inside the gap), not the rotation order".into(),
        ],
        exhaustive: true,
        budget_quick_s: 150,
        budget_thorough_s: 1500,
    };
    run_property(prop, |ctx| {
        let mut gens = vec![];
        // ---- exhaustive small grid
        let mut grid: Vec<(usize, usize, usize, u32, u8, bool)> = vec![];
        for nq in 1..=3usize {
            for per in 1..=3usize {
                for pattern in 0..4usize {
                    for m in 0..=3u32 {
                        for il in 1..=4u8 {
                            for full in [true, false] {
                                grid.push((nq, per, pattern, m, il, full));
                            }
                        }
                    }
                }
            }
        }
        let n_grid = grid.len();
        gens.push(Gen::new("grid", n_grid, move |ctx, i| {
            let (nq, per, pattern, m, il, full) = grid[i];
            let mut rng = Rng::keyed(ctx.seed, "C13g", 0, 3);
            let (e, b) = (8usize, 2usize);
            let mut spec = SenderSpec::new(OtiSpec::new(Fec::NoCode, 4096, 8, 0));
            spec.full_fdt = full;
            spec.interleave = il;
            spec.queues = (0..nq).map(|q| (q as u32 * 3, m)).collect();
            spec.fdt_carousel = CarouselSpec::DelayMs(3_600_000);
            let mut objs = vec![];
            let mut script = vec![];
            for q in 0..nq {
                for k in 0..per {
                    let kind = (pattern + k + q) % 4;
                    let mut o = ObjSpec::new(gen_bytes(&mut rng, size_of(kind, e, b)), &format!("file:///q{}/o{}", q, k));
                    o.oti = Some(OtiSpec::new(if (q + k) % 2 == 0 { Fec::NoCode } else { Fec::Rs28 }, e as u16, b as u32, if (q + k) % 2 == 0 { 0 } else { 1 }));
                    // queues are filled lowest priority first so that the add order does not help
                    o.priority = ((nq - 1 - q) * 3) as u32;
                    script.push((When::Start, Op::Add(objs.len())));
                    objs.push(o);
                }
            }
            script.push((When::Start, Op::Publish));
            let mut cr = CaseResult::default();
            run_case(&spec, &objs, &script, &format!("g{}", i), &mut cr);
            cr
        }));
        // ---- high-priority object added at every packet index of a low-priority transmission
        let n_idx = ctx.tier.pick(40usize, 120);
        gens.push(Gen::new("late_high_priority", n_idx * 2 * 3, move |ctx, i| {
            let r = i % n_idx;
            let full = (i / n_idx) % 2 == 0;
            let m = (i / (n_idx * 2)) as u32; // multiplex of both queues 0,1,2
            let mut rng = Rng::keyed(ctx.seed, "C13l", 0, 5);
            let mut spec = SenderSpec::new(OtiSpec::new(Fec::NoCode, 4096, 8, 0));
            spec.full_fdt = full;
            spec.interleave = 2;
            spec.queues = vec![(0, m), (5, m)];
            spec.fdt_carousel = CarouselSpec::DelayMs(3_600_000);
            let mut objs = vec![];
            let mut script = vec![];
            for k in 0..3 {
                let mut o = ObjSpec::new(gen_bytes(&mut rng, 8 * 14 + k), &format!("file:///low/{}", k));
                o.oti = Some(OtiSpec::new(Fec::Rs28, 8, 3, 1));
                o.priority = 5;
                script.push((When::Start, Op::Add(objs.len())));
                objs.push(o);
            }
            script.push((When::Start, Op::Publish));
            let mut o = ObjSpec::new(gen_bytes(&mut rng, 8 * 9), "file:///high/0");
            o.oti = Some(OtiSpec::new(Fec::NoCode, 8, 4, 0));
            o.priority = 0;
            script.push((When::Packets(r), Op::Add(objs.len())));
            script.push((When::Packets(r), Op::Publish));
            objs.push(o);
            let mut cr = CaseResult::default();
            run_case(&spec, &objs, &script, &format!("l{}", i), &mut cr);
            cr
        }));
        // ---- random larger workloads
        let n = ctx.tier.pick(4000usize, 1_500_000);
        gens.push(Gen::new("random", n, move |ctx, i| {
            let mut rng = Rng::keyed(ctx.seed, "C13r", 0, i as u64);
            let nq = rng.range(1, 6) as usize;
            let mut spec = SenderSpec::new(OtiSpec::new(Fec::NoCode, 4096, 8, 0));
            spec.full_fdt = rng.chance(1, 2);
            spec.interleave = rng.range(1, 5) as u8;
            spec.queues = (0..nq).map(|q| (q as u32 * 2 + rng.below(2) as u32, rng.below(5) as u32)).collect();
            spec.fdt_carousel = CarouselSpec::DelayMs(3_600_000);
            let nobj = rng.range(1, 20) as usize;
            let mut objs = vec![];
            let mut script = vec![];
            let mut pk = 0usize;
            for k in 0..nobj {
                let e = *rng.pick(&[4u16, 8, 16]);
                let b = rng.range(1, 4) as u32;
                let fec = *rng.pick(&[Fec::NoCode, Fec::Rs28, Fec::RaptorQ]);
                let len = rng.below(e as u64 * b as u64 * 4) as usize;
                let mut o = ObjSpec::new(gen_bytes(&mut rng, len), &format!("file:///r/{}", k));
                let mut oti = OtiSpec::new(fec, e, b, if fec == Fec::NoCode { 0 } else { rng.range(0, 2) as u32 });
                if fec == Fec::Rs28 {
                    oti.parity = oti.parity.max(1);
                }
                o.oti = Some(oti);
                o.priority = rng.pick(&spec.queues).0;
                let w = if k < 3 || rng.chance(1, 2) { When::Start } else { When::Packets(pk) };
                if w != When::Start {
                    pk += rng.range(0, 25) as usize;
                }
                script.push((w.clone(), Op::Add(k)));
                if rng.chance(1, 2) || k + 1 == nobj {
                    script.push((w, Op::Publish));
                }
                objs.push(o);
            }
            // run_script executes in script order: Start entries first
            script.sort_by_key(|s| match s.0 {
                When::Start => 0,
                When::Packets(n) => 1 + n,
                When::TimeMs(_) => usize::MAX,
            });
            let mut cr = CaseResult::default();
            run_case(&spec, &objs, &script, &format!("r|{}|{}|{}|{}", nq, nobj.min(8), spec.interleave, spec.full_fdt), &mut cr);
            cr
        }));
        // ---- objects that are sent several times (transfer count 2-3, carousel) wait in the queue again between two
        // transfers, possibly BEHIND objects that were added but are not announced yet; single-transfer objects are
        // added and published at different moments around them. The single-transfer objects are judged as before
        // (priority - also when the ready object is never sent at all -, admission, multiplex, round-robin).
        let n2 = ctx.tier.pick(6000usize, 400_000);
        gens.push(Gen::new("requeue_then_publish", n2, move |ctx, i| {
            let mut rng = Rng::keyed(ctx.seed, "C13q", 0, i as u64);
            let mut spec = SenderSpec::new(OtiSpec::new(Fec::NoCode, 4096, 8, 0));
            spec.full_fdt = rng.chance(3, 4);
            spec.interleave = rng.range(1, 3) as u8;
            let nq = rng.range(1, 3) as usize;
            spec.queues = (0..nq).map(|q| (q as u32, rng.below(3) as u32)).collect();
            spec.fdt_carousel = CarouselSpec::DelayMs(3_600_000);
            let mut objs = vec![];
            let mut script: Vec<(When, Op)> = vec![];
            // repeating objects first, published at once
            let nrep = rng.range(1, 3) as usize;
            for k in 0..nrep {
                let len = rng.range(1, 40) as usize;
                let mut o = ObjSpec::new(gen_bytes(&mut rng, len), &format!("file:///q/rep{}", k));
                o.oti = Some(OtiSpec::new(Fec::NoCode, 8, 2, 0));
                o.priority = rng.pick(&spec.queues).0;
                if rng.chance(1, 2) {
                    o.max_transfer_count = rng.range(2, 4) as u32;
                } else {
                    o.carousel = Some(CarouselSpec::DelayMs(*rng.pick(&[100u64, 300, 1000])));
                    o.max_transfer_count = rng.range(1, 2) as u32;
                }
                script.push((When::Start, Op::Add(k)));
                objs.push(o);
            }
            script.push((When::Start, Op::Publish));
            // single-transfer objects: added at some packet index, published some packets later (several adds may share a publish)
            let nsingle = rng.range(1, 5) as usize;
            let mut pk = rng.range(0, 6) as usize;
            let mut t_ms = 0u64;
            let by_time = rng.chance(1, 3);
            for k in 0..nsingle {
                let len = rng.range(1, 60) as usize;
                let mut o = ObjSpec::new(gen_bytes(&mut rng, len), &format!("file:///q/s{}", k));
                o.oti = Some(OtiSpec::new(Fec::NoCode, 8, 2, 0));
                o.priority = rng.pick(&spec.queues).0;
                objs.push(o);
                let w = if by_time { t_ms += *rng.pick(&[0u64, 100, 200, 500]); When::TimeMs(t_ms) } else { pk += rng.range(0, 8) as usize; When::Packets(pk) };
                script.push((w, Op::Add(nrep + k)));
                if rng.chance(1, 2) || k + 1 == nsingle {
                    let w = if by_time { t_ms += *rng.pick(&[0u64, 100, 200, 500]); When::TimeMs(t_ms) } else { pk += rng.range(0, 8) as usize; When::Packets(pk) };
                    script.push((w, Op::Publish));
                }
            }
            // remove_object at an odd moment: one object in three workloads, at some packet index (often while it is
            // being sent); what is left must still be served
            let mut removal = false;
            if !by_time && rng.chance(1, 3) {
                let r = rng.below(objs.len() as u64) as usize;
                let at = rng.range(0, pk as u64 + 12) as usize;
                script.push((When::Packets(at), Op::Remove(r)));
                if rng.chance(1, 2) {
                    script.push((When::Packets(at), Op::Publish));
                }
                script.sort_by_key(|s| match s.0 {
                    When::Start => 0,
                    When::Packets(n) => 1 + n,
                    When::TimeMs(_) => usize::MAX,
                });
                removal = true;
            }
            let mut cr = CaseResult::default();
            run_case_horizon(&spec, &objs, &script, &format!("q|{}|{}|{}|{}|{}|{}", nq, nrep, nsingle, spec.full_fdt, by_time, removal), 120, &mut cr);
            cr
        }));
        // ---- ObjectsBeingTransferred mode with a session OTI too small for an FDT instance that lists two (or three)
        // objects at once: a free multiplex slot selects the next object, the instance announcing it cannot be
        // published, the selection is undone and tried again later. The objects still start in the order they were added.
        let n4 = ctx.tier.pick(600usize, 40_000);
        gens.push(Gen::new("fdt_too_small_for_the_slots", n4, move |ctx, i| {
            let mut rng = Rng::keyed(ctx.seed, "C13f", 0, i as u64);
            // Reed-Solomon, one symbol per block, at most 255 blocks: 2040 or 4080 bytes of FDT
            let e = *rng.pick(&[8u16, 16]);
            let mut oti = OtiSpec::new(Fec::Rs28, e, 1, 1);
            oti.inband_fti = true;
            let mut spec = SenderSpec::new(oti);
            spec.full_fdt = false;
            spec.interleave = rng.range(1, 3) as u8;
            spec.queues = vec![(0, rng.range(2, 4) as u32)];
            spec.fdt_carousel = CarouselSpec::DelayMs(3_600_000);
            let nobj = rng.range(3, 7) as usize;
            // a File entry of roughly 0.4 .. 0.6 of the limit: one fits, two or three do not
            let pad = (e as usize * 255) * rng.range(30, 50) as usize / 100;
            let mut objs = vec![];
            let mut script = vec![];
            for k in 0..nobj {
                let len = 8 * rng.range(1, 9) as usize - rng.below(8) as usize;
                let mut o = ObjSpec::new(gen_bytes(&mut rng, len.max(1)), &format!("file:///small-fdt/{}/{}", "p".repeat(pad.saturating_sub(330).max(1)), k));
                o.oti = Some(OtiSpec::new(Fec::NoCode, 8, 4, 0));
                o.priority = 0;
                script.push((When::Start, Op::Add(k)));
                objs.push(o);
            }
            let mut cr = CaseResult::default();
            run_case_horizon(&spec, &objs, &script, &format!("f|{}|{}|{}|{}", e, nobj, spec.queues[0].1, spec.interleave), 200, &mut cr);
            cr
        }));
        // ---- carousel objects in a higher-priority queue, a long transmission in a lower one, a few packets per poll and
        // polls every 30-170 ms: when the carousel delay (150 ms .. 2.3 s, both repeat modes) of the high-priority object
        // is over, it goes first again
        let n3 = ctx.tier.pick(1500usize, 60_000);
        gens.push(Gen::new("carousel_ready", n3, move |ctx, i| {
            let mut rng = Rng::keyed(ctx.seed, "C13c", 0, i as u64);
            let mut spec = SenderSpec::new(OtiSpec::new(Fec::NoCode, 4096, 8, 0));
            spec.full_fdt = rng.chance(1, 2);
            spec.interleave = rng.range(1, 3) as u8;
            let m = rng.below(3) as u32;
            spec.queues = vec![(0, m), (4, rng.below(3) as u32)];
            spec.fdt_carousel = CarouselSpec::DelayMs(3_600_000);
            let mut objs = vec![];
            let mut script: Vec<(When, Op)> = vec![];
            let nhigh = rng.range(1, 3) as usize;
            for k in 0..nhigh {
                let len = rng.range(1, 40) as usize;
                let mut o = ObjSpec::new(gen_bytes(&mut rng, len), &format!("file:///c/high{}", k));
                o.oti = Some(OtiSpec::new(Fec::NoCode, 8, 2, 0));
                o.priority = 0;
                let ms = *rng.pick(&[150u64, 250, 450, 1000, 1200, 1500, 2300]);
                o.carousel = Some(if rng.chance(1, 2) { CarouselSpec::DelayMs(ms) } else { CarouselSpec::IntervalMs(ms) });
                script.push((When::Start, Op::Add(objs.len())));
                objs.push(o);
            }
            let nlow = rng.range(1, 3) as usize;
            for k in 0..nlow {
                let len = rng.range(600, 1600) as usize;
                let mut o = ObjSpec::new(gen_bytes(&mut rng, len), &format!("file:///c/low{}", k));
                o.oti = Some(OtiSpec::new(Fec::NoCode, 8, 4, 0));
                o.priority = 4;
                script.push((When::Start, Op::Add(objs.len())));
                objs.push(o);
            }
            script.push((When::Start, Op::Publish));
            let step = *rng.pick(&[30u64, 50, 100, 170]);
            // a few reads (1-3) per poll instant, one packet each
            let per = rng.range(1, 4) as usize;
            let mut opts = ScriptOpts::every(step, 1);
            opts.instants = (0..300u64).flat_map(|n| std::iter::repeat(n * step).take(per)).collect();
            opts.drain = false;
            opts.max_packets = 4000;
            opts.stop_when_empty = false;
            let mut cr = CaseResult::default();
            match util::guarded(|| run_script(&spec, &objs, &script, &opts)) {
                Ok(Ok(run)) => {
                    let (n, st) = judge(&run, &mut cr.violations);
                    // the run ends at its horizon with low-priority objects still waiting: "never sent" means nothing here
                    cr.violations.retain(|v| v.clause != "ready_never_sent");
                    let judged = judge_carousel_ready(&run, &mut cr.violations);
                    cr.count("object_packets", n);
                    cr.count("low_priority_packets_judged_against_a_waiting_carousel_object", judged);
                    let rounds: usize = (0..nhigh).map(|k| run.tois[k].map(|t| run.transfers_of(t).len()).unwrap_or(0)).sum();
                    cr.count("carousel_rounds_of_high_priority_objects", rounds as u64);
                    cr.states = st;
                    if judged > 0 {
                        cr.shape = Some(util::fnv(&format!("c|{}|{}|{}|{}|{}", nhigh, nlow, step, per, spec.full_fdt)));
                    }
                }
                Ok(Err(e)) => cr.inconclusive = Some(e),
                Err(p) => cr.violations.push(Violation::new(if p.is_step_budget() { "hang" } else { "panic" }, format!("{} @ {}", p.msg, p.short_loc())).with("site", if p.is_step_budget() { p.step_site() } else { p.file() })),
            }
            limit(&mut cr.violations, 2);
            cr
        }));
        gens
    });
}
