//! C04 - untrusted input: no packet sequence can panic, hang or blow up the
//! receiver; a rejected packet leaves it usable.
//!
//! Hostile sequences are executed in crash-isolated single-threaded child
//! processes (`c04 --child ...`) under a counting/capping allocator and the step
//! budget; the parent attributes aborts to the sequence in flight.
use serde_json::{json, Value};
use std::io::{BufRead, BufReader, Write};
use std::process::{Command, Stdio};
use vh::alloc;
use vh::hostile::*;
use vh::report::*;
use vh::scenario::{emit, EmitOpts};
use vh::session::{Fec, ObjSpec, OtiSpec, SPkt, SenderSpec, ALL_FEC};
use vh::util::{self, hex, Rng};
use vh::wire::{self, Fti};

#[global_allocator]
static GLOBAL: alloc::Counting = alloc::Counting;

const CLASSES: [&str; 13] = ["tiny", "short", "subst", "field_fti", "field_fti_any", "field_misc", "fdtxml", "fdt_oti", "fdt_id_reuse", "budget", "long_symbol", "toi_reuse_after_error", "sequence"];

struct World {
    seed: u64,
    thorough: bool,
    corpus: Vec<CorpusEntry>,
}

fn class_size(w: &World, class: &str) -> u64 {
    match class {
        "tiny" => 256,
        "short" => 4 * 4 * 2 * 4 * 2 * 4 * 7 * 8 / 64, // 64 headers per sequence
        "subst" => {
            let reps = if w.thorough { 255 } else { 8 };
            w.corpus.iter().map(|c| subst_positions(c, w.thorough).len() as u64 * reps).sum::<u64>().div_ceil(SUBST_BATCH)
        }
        "field_fti" => w.corpus.iter().map(|c| fti_extremes(obj_fec(c)).len() as u64 * 2).sum(),
        "field_fti_any" => w.corpus.len() as u64 * fti_any_per(w),
        "field_misc" => w.corpus.len() as u64 * MISC_EDITS,
        "fdtxml" => w.corpus.len() as u64 * if w.thorough { 1200 } else { 40 },
        "fdt_oti" => if w.thorough { 120_000 } else { 2400 },
        "fdt_id_reuse" => if w.thorough { 6000 } else { 320 },
        "budget" => if w.thorough { 120 } else { 30 },
        "long_symbol" => if w.thorough { 96 } else { 24 },
        "toi_reuse_after_error" => w.corpus.len() as u64 * 6,
        "sequence" => if w.thorough { 1_500_000 } else { 6000 },
        _ => 0,
    }
}

fn fti_any_per(w: &World) -> u64 {
    if w.thorough { 3000 } else { 180 }
}

const SUBST_BATCH: u64 = 1;
const MISC_EDITS: u64 = 166;

fn obj_fec(c: &CorpusEntry) -> u8 {
    c.em.stream.iter().find(|p| p.toi() != 0).map(|p| p.dec.lct.cp).unwrap_or(0)
}

/// (packet index, byte offset) pairs subject to substitution
fn subst_positions(c: &CorpusEntry, thorough: bool) -> Vec<(usize, usize)> {
    let mut out = vec![];
    let n = c.em.stream.len();
    let mut chosen: Vec<usize> = vec![];
    if thorough {
        chosen.extend(0..n);
    } else {
        // first FDT packet, first 3 object packets, last packet
        let mut seen_obj = 0;
        for (k, p) in c.em.stream.iter().enumerate() {
            if p.toi() == 0 && !chosen.iter().any(|x| c.em.stream[*x].toi() == 0) {
                chosen.push(k);
            } else if p.toi() != 0 && seen_obj < 3 {
                chosen.push(k);
                seen_obj += 1;
            }
        }
        if !chosen.contains(&(n - 1)) {
            chosen.push(n - 1);
        }
    }
    for k in chosen {
        let p = &c.em.stream[k];
        let end = (p.dec.payload_off + 2).min(p.bytes.len());
        for off in 0..end {
            out.push((k, off));
        }
    }
    out
}

fn rep_values(orig: u8, thorough: bool, j: u64) -> u8 {
    if thorough {
        // all values different from the original
        let v = j as u8;
        if v >= orig {
            v.wrapping_add(1)
        } else {
            v
        }
    } else {
        [0u8, 1, 0x7f, 0x80, 0xff, orig ^ 1, orig.wrapping_add(1), orig.wrapping_sub(1)][j as usize % 8]
    }
}

fn session_bytes(c: &CorpusEntry) -> Vec<Vec<u8>> {
    c.em.stream.iter().map(|p| p.bytes.clone()).collect()
}

fn first_obj_pkt(c: &CorpusEntry) -> (usize, &SPkt) {
    c.em.stream.iter().enumerate().find(|(_, p)| p.toi() != 0).unwrap()
}

/// Random access to sequence `k` of a class: (description, TSI of the session, packets)
fn gen_seq(w: &World, class: &str, k: u64) -> Option<(Value, u64, Vec<Vec<u8>>)> {
    let mut rng = Rng::keyed(w.seed, class, 0, k);
    match class {
        "tiny" => {
            let b = k as u8;
            let mut seq: Vec<Vec<u8>> = vec![];
            if b == 0 {
                seq.push(vec![]);
            }
            seq.push(vec![b]);
            for x in 0..=255u8 {
                seq.push(vec![b, x]);
            }
            for x in 0..=255u8 {
                for y in 0..=255u8 {
                    seq.push(vec![b, x, y]);
                }
            }
            Some((json!({"class": "tiny", "first_byte": b, "strings": seq.len()}), 1, seq))
        }
        "short" => {
            // mixed radix over header fields, 64 headers per sequence
            let mut seq = vec![];
            for j in 0..64u64 {
                let mut x = k * 64 + j;
                let mut take = |n: u64| {
                    let v = x % n;
                    x /= n;
                    v
                };
                let v = [1u8, 2, 0, 15][take(4) as usize];
                let c = take(4) as u8;
                let s = take(2) as u8;
                let o = take(4) as u8;
                let h = take(2) as u8;
                let ab = take(4) as u8;
                let hdr_len = [0u8, 1, 2, 3, 4, 5, 255][take(7) as usize];
                let cp = [0u8, 1, 2, 5, 6, 129, 3, 255][take(8) as usize];
                for len in [4usize, 5, 8, 12, 16, 20, 24, 40] {
                    let mut b = vec![(v << 4) | (c << 2), (s << 7) | (o << 5) | (h << 4) | ab, hdr_len, cp];
                    let fill = rng.bytes(len - 4);
                    b.extend(fill);
                    seq.push(b.clone());
                    // same with HDR_LEN made consistent with the length
                    if len % 4 == 0 {
                        b[2] = (len / 4) as u8;
                        seq.push(b);
                    }
                }
            }
            Some((json!({"class": "short", "block": k}), 1, seq))
        }
        "subst" => {
            let reps = if w.thorough { 255 } else { 8 };
            let mut idx = k;
            for c in &w.corpus {
                let pos = subst_positions(c, w.thorough);
                let n = pos.len() as u64 * reps;
                if idx < n {
                    let (pk, off) = pos[(idx / reps) as usize];
                    let j = idx % reps;
                    let mut seq = session_bytes(c);
                    let orig = seq[pk][off];
                    let v = rep_values(orig, w.thorough, j);
                    seq[pk][off] = v;
                    return Some((json!({"class": "subst", "session": c.name, "packet": pk, "offset": off, "orig": orig, "value": v}), c.em.spec.tsi, seq));
                }
                idx -= n;
            }
            None
        }
        "field_fti" => {
            let mut idx = k;
            for c in &w.corpus {
                let fec = obj_fec(c);
                let ex = fti_extremes(fec);
                let n = ex.len() as u64 * 2;
                if idx < n {
                    let f = &ex[(idx / 2) as usize];
                    let fdt_first = idx % 2 == 0;
                    let (fi, fp) = first_obj_pkt(c);
                    let toi = fp.toi();
                    let mut seq = vec![];
                    if fdt_first {
                        for p in c.em.stream.iter().filter(|p| p.toi() == 0) {
                            seq.push(p.bytes.clone());
                        }
                    }
                    let mut r = Rebuild::from(fp);
                    r.set_ext(wire::HET_FTI, Some(wire::ext_fti(f)));
                    seq.push(r.encode());
                    // the other packets of the object, each with the hostile FTI too
                    for (k2, p) in c.em.stream.iter().enumerate() {
                        if k2 != fi && p.toi() == toi {
                            let mut r = Rebuild::from(p);
                            if k2 % 2 == 0 {
                                r.set_ext(wire::HET_FTI, Some(wire::ext_fti(f)));
                            }
                            seq.push(r.encode());
                        }
                    }
                    if !fdt_first {
                        for p in c.em.stream.iter().filter(|p| p.toi() == 0) {
                            seq.push(p.bytes.clone());
                        }
                    }
                    return Some((json!({"class": "field_fti", "session": c.name, "fti": format!("{:?}", f), "fdt_first": fdt_first}), c.em.spec.tsi, seq));
                }
                idx -= n;
            }
            None
        }
        // EXT_FTI extremes of EVERY scheme id (also the ones the session does not use and the one flute does
        // not implement, FEC 2 with its m / G word), with the codepoint and payload id rewritten to match,
        // on the FDT packets (TOI 0) or on the object packets
        "field_fti_any" => {
            let per = fti_any_per(w);
            let c = w.corpus.get((k / per) as usize)?;
            let j = k % per;
            let fec = [0u8, 1, 2, 5, 6, 129][(j % 6) as usize];
            let ex = fti_extremes(fec);
            let f = if fec == 2 && (j / 6) % 2 == 0 {
                let sweep: Vec<&Fti> = ex.iter().filter(|f| !matches!(f.m, Some(0) | Some(8))).collect();
                (*sweep[rng.below(sweep.len() as u64) as usize]).clone()
            } else {
                ex[rng.below(ex.len() as u64) as usize].clone()
            };
            let on_fdt = (j / 12) % 2 == 0;
            let (_, fp) = first_obj_pkt(c);
            let toi = fp.toi();
            let mut seq = vec![];
            for p in c.em.stream.iter() {
                let hit = if on_fdt { p.toi() == 0 } else { p.toi() == toi };
                if hit {
                    let mut r = Rebuild::from(p);
                    r.lct.cp = fec;
                    r.set_ext(wire::HET_FTI, Some(wire::ext_fti(&f)));
                    r.pid = wire::payload_id(fec, p.dec.sbn, p.dec.esi, p.dec.sbl.unwrap_or(f.b as u16), f.m.unwrap_or(8));
                    seq.push(r.encode());
                } else {
                    seq.push(p.bytes.clone());
                }
            }
            Some((json!({"class": "field_fti_any", "session": c.name, "fti": format!("{:?}", f), "on_fdt": on_fdt}), c.em.spec.tsi, seq))
        }
        "field_misc" => {
            let c = &w.corpus[(k / MISC_EDITS) as usize];
            let e = k % MISC_EDITS;
            let fec = obj_fec(c);
            let mut seq = session_bytes(c);
            let (fi, fp) = first_obj_pkt(c);
            let fdt_i = c.em.stream.iter().position(|p| p.toi() == 0).unwrap_or(0);
            let mut r = Rebuild::from(fp);
            let mut rf = Rebuild::from(&c.em.stream[fdt_i]);
            let big: [u32; 12] = [0, 1, 2, 3, 4, 7, 255, 256, 65535, 65536, (1 << 24) - 1, u32::MAX];
            let what: String;
            let m = match fec {
                _ => 8,
            };
            match e {
                0..=11 => {
                    let sbn = big[e as usize];
                    r.pid = wire::payload_id(fec, sbn, 0, 3, m);
                    if fec == 129 {
                        r.pid[0..4].copy_from_slice(&sbn.to_be_bytes());
                    }
                    what = format!("sbn={}", sbn);
                    seq[fi] = r.encode();
                }
                12..=23 => {
                    let esi = big[(e - 12) as usize];
                    r.pid = wire::payload_id(fec, 0, esi, 3, m);
                    what = format!("esi={}", esi);
                    seq[fi] = r.encode();
                }
                24..=29 => {
                    let sbl = [0u16, 1, 2, 255, 32768, 65535][(e - 24) as usize];
                    r.pid = wire::payload_id(fec, 0, 0, sbl, m);
                    if fec != 129 {
                        // raw 8-byte payload id on a 4-byte scheme and vice versa
                        r.pid = wire::payload_id(129, 0, 0, sbl, m);
                    }
                    what = format!("sbl={}", sbl);
                    seq[fi] = r.encode();
                }
                30..=41 => {
                    let sizes = [0usize, 1, 2, 15, 17, 31, 32, 33, 100, 1500, 9000, 65000];
                    let sz = sizes[(e - 30) as usize];
                    // every packet of the object gets the odd payload size
                    let toi = fp.toi();
                    for (k2, p) in c.em.stream.iter().enumerate() {
                        if p.toi() == toi {
                            let mut r2 = Rebuild::from(p);
                            r2.payload = rng.bytes(sz);
                            seq[k2] = r2.encode();
                        }
                    }
                    what = format!("payload_size={}", sz);
                }
                42..=49 => {
                    let cps = [0u8, 1, 2, 5, 6, 129, 3, 200];
                    let cp = cps[(e - 42) as usize];
                    let toi = fp.toi();
                    for (k2, p) in c.em.stream.iter().enumerate() {
                        if p.toi() == toi && k2 % 2 == 0 {
                            let mut r2 = Rebuild::from(p);
                            r2.lct.cp = cp;
                            seq[k2] = r2.encode();
                        }
                    }
                    what = format!("codepoint={} on half of the object packets", cp);
                }
                50..=57 => {
                    // flags anywhere
                    let which = e - 50;
                    for (k2, p) in c.em.stream.iter().enumerate() {
                        let mut r2 = Rebuild::from(p);
                        match which {
                            0 => r2.lct.b = true,
                            1 => r2.lct.a = k2 == fi,
                            2 => r2.lct.a = k2 == fdt_i,
                            3 => r2.lct.b = p.toi() == 0,
                            4 => {
                                r2.lct.a = true;
                                r2.lct.b = true;
                            }
                            5 => r2.lct.v = 2,
                            6 => r2.lct.psi = 3,
                            _ => r2.lct.res = 3,
                        }
                        seq[k2] = r2.encode();
                    }
                    what = format!("flags variant {}", which);
                }
                58..=69 => {
                    // HDR_LEN vs real length on the FDT and on the object packet
                    let deltas = [-128i32, -3, -2, -1, 1, 2, 3, 10, 100, 250];
                    let which = ((e - 58) % 10) as usize;
                    let tgt = if e - 58 >= 10 { fdt_i } else { fi };
                    let mut b = seq[tgt].clone();
                    b[2] = (b[2] as i32 + deltas[which]).clamp(0, 255) as u8;
                    what = format!("hdr_len {:+} on packet {}", deltas[which], tgt);
                    seq[tgt] = b;
                }
                70..=89 => {
                    // HEL of each extension
                    let hels = [0u8, 1, 2, 5, 63, 64, 65, 128, 200, 255];
                    let which = ((e - 70) % 10) as usize;
                    let use_fdt = e - 70 >= 10;
                    let src = if use_fdt { &mut rf } else { &mut r };
                    let mut done = false;
                    for ex in src.exts.iter_mut() {
                        if ex[0] < 128 {
                            ex[1] = hels[which];
                            done = true;
                            break;
                        }
                    }
                    if !done {
                        src.exts.insert(0, vec![10, hels[which], 0, 0]);
                    }
                    // encode without fixing HDR_LEN: the extension now lies about its length
                    let enc = src.encode();
                    if use_fdt {
                        seq[fdt_i] = enc;
                    } else {
                        seq[fi] = enc;
                    }
                    what = format!("HEL={} ({})", hels[which], if use_fdt { "fdt pkt" } else { "object pkt" });
                }
                90..=101 => {
                    // EXT_FDT variants
                    let v = e - 90;
                    let ext = match v {
                        0 => wire::ext_fdt(0, 1),
                        1 => wire::ext_fdt(15, 1),
                        2 => wire::ext_fdt(2, 0xFFFFF),
                        3 => wire::ext_fdt(1, 0),
                        4 => vec![192, 0, 0],
                        _ => wire::ext_fdt(2, rng.below(1 << 20) as u32),
                    };
                    if v == 6 {
                        rf.set_ext(wire::HET_FDT, None);
                    } else if v == 7 {
                        // EXT_FDT on an object packet
                        r.set_ext(wire::HET_FDT, Some(wire::ext_fdt(2, 5)));
                        seq[fi] = r.encode();
                    } else if ext.len() == 4 {
                        rf.set_ext(wire::HET_FDT, Some(ext));
                    }
                    if v == 8 {
                        rf.exts.push(wire::ext_fdt(2, 99));
                    }
                    seq[fdt_i] = rf.encode();
                    what = format!("EXT_FDT variant {}", v);
                }
                102..=117 => {
                    // EXT_TIME: use bits vs length
                    let v = (e - 102) as u8;
                    let use_hi = (v & 0x0F) << 4;
                    for words in [0usize, 1, 2, 3] {
                        let mut t = vec![wire::HET_TIME, 1 + words as u8, use_hi, 0];
                        t.extend(rng.bytes(4 * words));
                        let mut r2 = rf.clone();
                        r2.set_ext(wire::HET_TIME, Some(t));
                        seq.insert(fdt_i, r2.encode());
                    }
                    what = format!("EXT_TIME use bits {:#x} with 0..3 words", use_hi);
                }
                118..=125 => {
                    let cv = [4u8, 5, 127, 128, 255, 0, 1, 3][(e - 118) as usize];
                    r.set_ext(wire::HET_CENC, Some(wire::ext_cenc(cv)));
                    seq[fi] = r.encode();
                    let mut rf2 = rf.clone();
                    rf2.set_ext(wire::HET_CENC, Some(wire::ext_cenc(cv)));
                    seq[fdt_i] = rf2.encode();
                    what = format!("EXT_CENC={}", cv);
                }
                126..=141 => {
                    // FDT instance FTI extremes (the FDT is always in band)
                    let ex = fti_extremes(0);
                    let f = &ex[rng.below(ex.len() as u64) as usize];
                    rf.set_ext(wire::HET_FTI, Some(wire::ext_fti(f)));
                    seq[fdt_i] = rf.encode();
                    what = format!("FDT FTI {:?}", f);
                }
                160..=165 => {
                    // codepoint of another scheme AND a packet cut inside / just after the FEC payload id: the length
                    // test of the parser follows the codepoint, the object follows its own OTI (payload ids of 4 and 8 bytes)
                    let cp = [0u8, 1, 2, 5, 6, 129][(e - 160) as usize];
                    let cut = |b: &Vec<u8>| -> Vec<Vec<u8>> {
                        let hdr = (b[2] as usize * 4).min(b.len());
                        (0..=12usize).map(|extra| {
                            let mut x = b[..(hdr + extra).min(b.len())].to_vec();
                            x[3] = cp;
                            x
                        }).collect()
                    };
                    let obj_cuts = cut(&seq[fi]);
                    let fdt_cuts = cut(&seq[fdt_i]);
                    // after the first packet of the object (OTI known in-band or from the FDT) ...
                    for (n, x) in obj_cuts.iter().enumerate() {
                        seq.insert(fi + 1 + n, x.clone());
                    }
                    // ... and before it (OTI known from the FDT only, when the FDT comes first)
                    for (n, x) in obj_cuts.iter().enumerate() {
                        seq.insert(fi + n, x.clone());
                    }
                    // the same on the FDT instance, in the middle of its packets
                    for (n, x) in fdt_cuts.iter().enumerate() {
                        seq.insert(fdt_i + 1 + n, x.clone());
                    }
                    what = format!("codepoint={} on copies cut 0..12 bytes after the LCT header", cp);
                }
                _ => {
                    // TOI / TSI width classes and huge values
                    let v = e - 142;
                    let tois: [u128; 6] = [0, 1, u64::MAX as u128, (1u128 << 112) - 1, (1u128 << 96) + 5, 0xFFFF];
                    let mut r2 = r.clone();
                    let toi = tois[(v % 6) as usize];
                    let classes = wire::classes_for(r2.lct.tsi, toi);
                    let cls = classes[(v / 6) as usize % classes.len()];
                    r2.lct.s = cls.0;
                    r2.lct.o = cls.1;
                    r2.lct.h = cls.2;
                    r2.lct.toi = toi;
                    r2.lct.c = (v % 4) as u8;
                    seq.insert(fi, r2.encode());
                    what = format!("toi={} class={:?} C={}", toi, cls, v % 4);
                }
            }
            Some((json!({"class": "field_misc", "session": c.name, "edit": what}), c.em.spec.tsi, seq))
        }
        // FEC OTI delivered by the FDT only (attributes at instance or File level, extremes of every field and of the
        // base64 scheme-specific info) for EVERY scheme id, followed by object packets of that codepoint without EXT_FTI
        "fdt_oti" => {
            use base64::Engine;
            let fec = [0u8, 1, 2, 5, 6, 129][(k % 6) as usize];
            let e = *rng.pick(&[0u64, 1, 4, 16, 1400, 65535, 65536]);
            let b = *rng.pick(&[0u64, 1, 2, 4, 255, 256, 8192, 65535, 65536, u32::MAX as u64, 1 << 40]);
            let max_n = *rng.pick(&[0u64, 1, b.saturating_sub(1), b, b.saturating_add(1), 255, 65535, u32::MAX as u64]);
            let l = *rng.pick(&[0u64, 1, 100, 65535, 1 << 20, 1 << 32, (1u64 << 48) - 1, u64::MAX]);
            let ssi: Option<Vec<u8>> = match rng.below(6) {
                0 => None,
                1 => Some(vec![]),
                2 => {
                    let n = rng.range(1, 7) as usize;
                    Some(rng.bytes(n))
                }
                _ => Some(match fec {
                    2 => vec![*rng.pick(&[0u8, 1, 2, 8, 16, 31, 32, 33, 64, 200, 255]), *rng.pick(&[0u8, 1, 2, 255])],
                    6 => vec![*rng.pick(&[0u8, 1, 2, 255]), 0, *rng.pick(&[0u8, 1, 255]), *rng.pick(&[0u8, 1, 3, 4, 8, 255])],
                    1 => vec![*rng.pick(&[0u8, 255]), *rng.pick(&[0u8, 1, 2, 255]), *rng.pick(&[0u8, 1, 255]), *rng.pick(&[0u8, 1, 3, 4, 255])],
                    _ => rng.bytes(2),
                }),
            };
            let mut attrs = format!(" FEC-OTI-FEC-Encoding-ID=\"{}\" FEC-OTI-Encoding-Symbol-Length=\"{}\" FEC-OTI-Maximum-Source-Block-Length=\"{}\"", fec, e, b);
            if rng.chance(3, 4) {
                attrs.push_str(&format!(" FEC-OTI-Max-Number-of-Encoding-Symbols=\"{}\"", max_n));
            }
            if rng.chance(1, 3) {
                attrs.push_str(&format!(" FEC-OTI-FEC-Instance-ID=\"{}\"", rng.pick(&[0u64, 1, 65535, 65536])));
            }
            if let Some(x) = &ssi {
                attrs.push_str(&format!(" FEC-OTI-Scheme-Specific-Info=\"{}\"", base64::engine::general_purpose::STANDARD.encode(x)));
            }
            let at_file = rng.chance(1, 2);
            let tsi = 77u64;
            let toi = 9u128;
            let tl = if rng.chance(1, 4) { String::new() } else { format!(" Transfer-Length=\"{}\"", l) };
            let xml = format!("<?xml version=\"1.0\"?><FDT-Instance xmlns=\"urn:IETF:metadata:2005:FLUTE:FDT\" Expires=\"{}\"{}><File TOI=\"{}\" Content-Location=\"file:///h/o\" Content-Length=\"{}\"{}{}/></FDT-Instance>",
                expires_in(3600), if at_file { "" } else { attrs.as_str() }, toi, l, tl, if at_file { attrs.as_str() } else { "" });
            let mut seq = wrap_fdt(xml.as_bytes(), tsi, 4000 + (k % 1000) as u32, 1400, None, rng.chance(1, 2));
            let m = ssi.as_ref().and_then(|x| x.first().copied()).unwrap_or(8);
            let psize = (e as usize).clamp(0, 1400);
            let payload = rng.bytes(psize.max(1));
            let mut objs = vec![];
            for (sbn, esi) in [(0u32, 0u32), (0, 1), (1, 0), (0, b.min(70000) as u32), (255, 255), (65535, 1), (0, 0)] {
                let lct = wire::enc_lct(tsi, toi, fec);
                let sz = if rng.chance(1, 5) { rng.range(0, payload.len() as u64) as usize } else { payload.len() };
                objs.push(wire::encode(&lct, &[], &wire::payload_id(fec, sbn, esi, b.min(65535) as u16, m), &payload[..sz]));
            }
            if rng.chance(1, 4) {
                let mut s2 = objs.clone();
                s2.extend(seq);
                seq = s2;
            } else {
                seq.extend(objs);
            }
            Some((json!({"class": "fdt_oti", "fec": fec, "attrs": attrs, "at_file_level": at_file, "L": l}), tsi, seq))
        }
        // one datagram of a block carries a payload far LONGER than the announced symbol size (extended / forged), the
        // other K-1 symbols of the block are honest: what the receiver allocates when the block completes must follow what
        // was received and announced (K x E), not the one long payload times K
        // one hostile datagram makes an object fail (the receiver remembers two failed objects), then the complete valid
        // session for the SAME TSI and TOI is pushed (a sender that starts again, the next carousel round): it is delivered
        "toi_reuse_after_error" => {
            let c = &w.corpus[(k / 6) as usize];
            let v = k % 6;
            let (fi, fp) = first_obj_pkt(c);
            let toi = fp.toi();
            let oi = c.em.obj_index_of(toi)?;
            let fdt: Vec<Vec<u8>> = c.em.stream.iter().filter(|p| p.toi() == 0).map(|p| p.bytes.clone()).collect();
            let mut seq = vec![expect_marker(c.em.spec.tsi, toi, &c.em.objs[oi].data)];
            let mut r = Rebuild::from(fp);
            let what;
            match v {
                0 | 1 => {
                    // a copy of the first data packet with the close-object flag set (before / after the FDT)
                    r.lct.b = true;
                    if v == 1 {
                        seq.extend(fdt.clone());
                    }
                    seq.push(r.encode());
                    what = "first data packet with the close-object flag";
                }
                2 | 3 => {
                    // a data packet whose EXT_FTI is absurd (transfer length 2^48-1, block length 2^32-1)
                    let f = Fti { fec: obj_fec(c), l: (1u64 << 48) - 1, e: 1400, b: u32::MAX, max_n: Some(u32::MAX), instance: Some(0), z: Some(255), n: Some(1), al: Some(4), m: Some(8), g: Some(1) };
                    r.set_ext(wire::HET_FTI, Some(wire::ext_fti(&f)));
                    if v == 3 {
                        seq.extend(fdt.clone());
                    }
                    seq.push(r.encode());
                    what = "data packet with an absurd EXT_FTI";
                }
                _ => {
                    // after the FDT: a data packet naming a source block far outside the object / an oversized symbol
                    seq.extend(fdt.clone());
                    if v == 4 {
                        r.pid = wire::payload_id(obj_fec(c), 60_000, 0, 3, 8);
                        if obj_fec(c) == 129 {
                            r.pid[0..4].copy_from_slice(&0x00FF_FFFFu32.to_be_bytes());
                        }
                        what = "data packet naming a block far outside the object";
                    } else {
                        r.payload = rng.bytes(9000);
                        r.lct.b = true;
                        what = "oversized symbol with the close-object flag";
                    }
                    seq.push(r.encode());
                }
            }
            let _ = fi;
            // the complete valid session
            seq.extend(session_bytes(c));
            Some((json!({"class": "toi_reuse_after_error", "session": c.name, "hostile": what, "variant": v}), c.em.spec.tsi, seq))
        }
        "long_symbol" => {
            let fec = [0u8, 0, 5, 129][(k % 4) as usize];
            let kk = [512usize, 2048, 255, 255][(k % 4) as usize];
            let e = 16usize;
            let long = [1400usize, 60_000][((k / 4) % 2) as usize];
            let long_esi = [0usize, kk - 1, kk / 2][((k / 8) % 3) as usize];
            let tsi = 60 + (k % 4);
            let toi: u128 = 21;
            let l = (kk * e) as u64;
            let fti = Fti { fec, l, e: e as u16, b: kk as u32, max_n: Some(kk as u32 + if fec == 0 { 0 } else { 0 }), instance: Some(0), z: Some(1), n: Some(1), al: Some(1), m: None, g: None };
            let mut seq = vec![budget_marker(1 << 20, 4 << 20)];
            let order: Vec<usize> = if (k / 24) % 2 == 0 { (0..kk).collect() } else { (0..kk).rev().collect() };
            for esi in order {
                let mut lct = wire::enc_lct(tsi, toi, fec);
                lct.b = false;
                let sz = if esi == long_esi { long } else { e };
                seq.push(wire::encode(&lct, &[wire::ext_fti(&fti)], &wire::payload_id(fec, 0, esi as u32, kk as u16, 8), &vec![(esi % 251) as u8; sz]));
            }
            Some((json!({"class": "long_symbol", "fec": fec, "K": kk, "E": e, "long_payload": long, "at_esi": long_esi}), tsi, seq))
        }
        // "without allocating beyond the configured limits": well-formed packets of ONE large object of every scheme
        // that stays undecodable / unwritable (no FDT, first block withheld, one symbol of every block withheld), with a
        // small object_max_cache_size; the live heap may grow by the calibrated allowance of the C17 check, no more
        "budget" => {
            let fec = ALL_FEC[(k % 5) as usize];
            let variant = (k / 5) % 3;
            let big = (k / 15) % 2 == 1;
            // inside each scheme's block-count limit (flute: 255 blocks for RS GF(2^8) and RaptorQ) and with an FDT the
            // session OTI can carry (Raptor refuses blocks of 2-3 symbols)
            let (e, b) = match fec {
                Fec::Rs28 | Fec::RaptorQ => (1024u16, 16u32),
                Fec::Raptor => (256, 16),
                _ => (512, 8),
            };
            let mut oti = OtiSpec::new(fec, e, b, if fec == Fec::NoCode { 0 } else { 2 });
            oti.inband_fti = true;
            let mut spec = SenderSpec::new(oti);
            spec.tsi = 70 + (k % 5);
            let len = if big { 3_000_000 } else { 1_200_000 } + (k as usize % 7) * 333;
            let obj = ObjSpec::new(rng.bytes(len), &format!("file:///budget/{}", k));
            let em = emit(&spec, &[obj], &EmitOpts { max_packets: 20_000, ..Default::default() }).ok()?;
            if em.tois[0].is_none() {
                return None;
            }
            let block = e as usize * b as usize;
            let cache = 64usize << 10;
            let allowed = (cache / block + 3) * (2 * block + (16 << 10)) + (512 << 10);
            let mut seq = vec![budget_marker(cache as u32, allowed as u32)];
            for p in &em.stream {
                let keep = match variant {
                    0 => p.toi() != 0,                                         // FDT never arrives
                    1 => p.toi() == 0 || p.dec.sbn != 0,                       // block 0 never arrives
                    _ => p.toi() == 0 || (p.dec.esi != 0 && p.dec.esi < b),    // one source symbol and all repair of every block missing
                };
                if keep {
                    seq.push(p.bytes.clone());
                }
            }
            let vname = ["no_fdt", "block0_withheld", "symbol_of_every_block_withheld"][variant as usize];
            Some((json!({"class": "budget", "fec": fec.name(), "variant": vname, "object_bytes": len, "cache": cache, "allowed_growth": allowed, "packets": seq.len()}), spec.tsi, seq))
        }
        // an FDT instance that fails to decode (complete but malformed), then cleanup() as applications call it, then a
        // valid session on the same TSI that reuses the instance id: "a rejected packet leaves the receiver usable"
        "fdt_id_reuse" => {
            let tsi = 88u64;
            let id = 1 + (k % 7) as u32 * 1000;
            let bad: Vec<u8> = match k % 8 {
                0 => b"<?xml version=\"1.0\"?><FDT-Instance Expires=\"".to_vec(),
                1 => rng.bytes(300),
                2 => format!("<?xml version=\"1.0\"?><NotAnFdt Expires=\"{}\"/>", expires_in(3600)).into_bytes(),
                3 => format!("<?xml version=\"1.0\"?><FDT-Instance xmlns=\"urn:IETF:metadata:2005:FLUTE:FDT\" Expires=\"{}\"><File TOI=\"abc\" Content-Location=\"file:///x\"/></FDT-Instance>", expires_in(3600)).into_bytes(),
                4 => format!("<?xml version=\"1.0\"?><FDT-Instance xmlns=\"urn:IETF:metadata:2005:FLUTE:FDT\" Expires=\"not a number\"><File TOI=\"5\" Content-Location=\"file:///x\"/></FDT-Instance>").into_bytes(),
                5 => vec![],
                6 => b"\xff\xfe<\x00F\x00D\x00T\x00".to_vec(),
                _ => format!("<?xml version=\"1.0\"?><FDT-Instance xmlns=\"urn:IETF:metadata:2005:FLUTE:FDT\" Expires=\"{}\"><File TOI=\"5\" Content-Location=\"file:///x\" Content-Length=\"1\"></FDT-Instance>", expires_in(3600)).into_bytes(),
            };
            // sometimes announced as gzip although it is not
            let cenc = if (k / 8) % 3 == 0 { Some(3u8) } else { None };
            let mut seq = vec![MARKER_REUSE_FDT_ID.to_vec()];
            seq.extend(wrap_fdt(&bad, tsi, id, if (k / 24) % 2 == 0 { 1400 } else { 64 }, cenc, rng.chance(1, 2)));
            for _ in 0..(1 + (k / 48) % 3) {
                seq.push(MARKER_CLEANUP.to_vec());
            }
            Some((json!({"class": "fdt_id_reuse", "fdt_id": id, "bad_fdt": String::from_utf8_lossy(&bad).chars().take(200).collect::<String>(), "announced_gzip": cenc.is_some()}), tsi, seq))
        }
        "fdtxml" => {
            let per = if w.thorough { 1200 } else { 40 };
            let c = &w.corpus[(k / per) as usize];
            let views = vh::small::fdt_views(&c.em);
            let xml = views.iter().find_map(|v| v.xml.clone())?;
            let muts = xml_mutations(&xml, &mut rng, 3);
            let (mut what, mut x) = muts[rng.below(muts.len() as u64) as usize].clone();
            // directed: the FDT announces other lengths than the in-band FTI of the packets did (smaller, larger, zero)
            if k % 4 == 3 {
                let set = |xml: &str, attr: &str, val: &str| -> Option<String> {
                    let pat = format!(" {}=\"", attr);
                    let p = xml.find(&pat)? + pat.len();
                    let e = xml[p..].find('"')? + p;
                    Some(format!("{}{}{}", &xml[..p], val, &xml[e..]))
                };
                let cur: u64 = xml.split(" Transfer-Length=\"").nth(1).or_else(|| xml.split(" Content-Length=\"").nth(1)).and_then(|s| s.split('"').next()).and_then(|s| s.parse().ok()).unwrap_or(100);
                let v = match rng.below(7) { 0 => 0, 1 => 1, 2 => cur / 2, 3 => cur.saturating_sub(1), 4 => cur + 1, 5 => cur * 3 + 7, _ => 10 }.to_string();
                let mut y = xml.clone();
                for a in ["Transfer-Length", "Content-Length"] {
                    if let Some(z) = set(&y, a, &v) {
                        y = z;
                    }
                }
                what = format!("lengths={}", v);
                x = y;
            }
            let e = *rng.pick(&[8192usize, 1400, 64, 7]);
            let fdt_id = 9000 + (k % 1000) as u32;
            let mut seq = wrap_fdt(x.as_bytes(), c.em.spec.tsi, fdt_id, e, if rng.chance(1, 8) { Some(3) } else { None }, rng.chance(1, 2));
            // FDT first / the whole object first / the (rewritten) FDT arriving in the middle of the object: values the
            // receiver derived from the first packets (in-band FTI) meet different ones from the FDT
            let order = if k % 4 == 3 { 3 } else { rng.below(4) };
            let obj_first = order == 2;
            let objs: Vec<Vec<u8>> = c.em.stream.iter().filter(|p| p.toi() != 0).map(|p| p.bytes.clone()).collect();
            if obj_first {
                let mut s2 = objs.clone();
                s2.extend(seq);
                seq = s2;
            } else if order == 3 && objs.len() >= 2 {
                let j = rng.range(1, objs.len() as u64 - 1) as usize;
                let mut s2: Vec<Vec<u8>> = objs[..j].to_vec();
                s2.extend(seq);
                s2.extend(objs[j..].iter().cloned());
                seq = s2;
            } else {
                seq.extend(objs);
            }
            Some((json!({"class": "fdtxml", "session": c.name, "mutation": what, "E": e, "object_first": obj_first, "fdt_in_the_middle_of_the_object": order == 3, "xml_head": x.chars().take(600).collect::<String>()}), c.em.spec.tsi, seq))
        }
        "sequence" => {
            let c = &w.corpus[rng.below(w.corpus.len() as u64) as usize];
            let c2 = &w.corpus[rng.below(w.corpus.len() as u64) as usize];
            let mut seq = session_bytes(c);
            if rng.chance(1, 3) {
                // interleave a second session (same TSI: TOIs collide on purpose)
                let other = session_bytes(c2);
                let mut merged = vec![];
                let (mut a, mut b) = (seq.into_iter(), other.into_iter());
                loop {
                    let x = if rng.chance(1, 2) { a.next().or_else(|| b.next()) } else { b.next().or_else(|| a.next()) };
                    match x {
                        Some(x) => merged.push(x),
                        None => break,
                    }
                }
                seq = merged;
            }
            let nops = rng.range(1, 10);
            let mut ops = vec![];
            for _ in 0..nops {
                if seq.is_empty() {
                    break;
                }
                let i = rng.below(seq.len() as u64) as usize;
                match rng.below(8) {
                    0 | 1 => {
                        if !seq[i].is_empty() {
                            let hdr = (seq[i].get(2).copied().unwrap_or(0) as usize * 4 + 8).min(seq[i].len());
                            let p = if rng.chance(3, 4) { rng.below(hdr as u64) as usize } else { rng.below(seq[i].len() as u64) as usize };
                            seq[i][p] ^= 1 << rng.below(8);
                            ops.push(format!("flip {}@{}", i, p));
                        }
                    }
                    2 => {
                        let l = rng.below(seq[i].len() as u64 + 1) as usize;
                        seq[i].truncate(l);
                        ops.push(format!("truncate {} to {}", i, l));
                    }
                    3 => {
                        let nb = rng.range(1, 64) as usize;
                        let extra = rng.bytes(nb);
                        seq[i].extend(extra);
                        ops.push(format!("extend {}", i));
                    }
                    4 => {
                        let j = rng.below(seq.len() as u64) as usize;
                        let cut_a = rng.below(seq[i].len() as u64 + 1) as usize;
                        let cut_b = rng.below(seq[j].len() as u64 + 1) as usize;
                        let mut s = seq[i][..cut_a].to_vec();
                        s.extend_from_slice(&seq[j][cut_b..]);
                        seq[i] = s;
                        ops.push(format!("splice {}[..{}]+{}[{}..]", i, cut_a, j, cut_b));
                    }
                    5 => {
                        let x = seq[i].clone();
                        let times = rng.range(1, 20);
                        for _ in 0..times {
                            seq.insert(i, x.clone());
                        }
                        ops.push(format!("repeat {} x{}", i, times));
                    }
                    6 => {
                        seq.remove(i);
                        ops.push(format!("drop {}", i));
                    }
                    _ => {
                        let j = rng.below(seq.len() as u64) as usize;
                        seq.swap(i, j);
                        ops.push(format!("swap {} {}", i, j));
                    }
                }
            }
            Some((json!({"class": "sequence", "session": c.name, "ops": ops}), c.em.spec.tsi, seq))
        }
        _ => None,
    }
}

fn viol_json(v: &Violation) -> Value {
    json!({"clause": v.clause, "sig": v.sig, "detail": v.detail, "witness": v.witness})
}

fn child_main(args: &[String]) -> ! {
    // c04 --child <class> <shard> <nshards> <seed> <tier> <from>
    let class = args[2].as_str();
    let shard: u64 = args[3].parse().unwrap();
    let nshards: u64 = args[4].parse().unwrap();
    let seed: u64 = args[5].parse().unwrap();
    let thorough = args[6] == "thorough";
    let from: u64 = args[7].parse().unwrap();
    util::install_quiet_panic_hook();
    let w = World { seed, thorough, corpus: corpus(seed, !thorough) };
    let n = class_size(&w, class);
    let endpoint = flute::core::UDPEndpoint::new(None, "224.0.0.1".to_string(), 3400);
    alloc::CAP.store(256 << 20, std::sync::atomic::Ordering::Relaxed);
    alloc::LIVE_CAP.store(3 << 30, std::sync::atomic::Ordering::Relaxed);
    let stdout = std::io::stdout();
    let mut tot = SeqStats::default();
    let mut shapes: Vec<u64> = vec![];
    let mut kinds: std::collections::BTreeSet<u64> = Default::default();
    let mut nseq = 0u64;
    let mut sample: Option<Value> = None;
    let mut k = shard;
    while k < n {
        if k >= from {
            if let Some((desc, tsi, seq)) = gen_seq(&w, class, k) {
                {
                    let mut o = stdout.lock();
                    let _ = writeln!(o, "P {}", k);
                    let _ = o.flush();
                }
                let mut viol = vec![];
                alloc::ENFORCE.store(true, std::sync::atomic::Ordering::Relaxed);
                let st = run_sequence(&endpoint, &seq, tsi, seed ^ k, &|| desc.clone(), &mut viol);
                alloc::ENFORCE.store(false, std::sync::atomic::Ordering::Relaxed);
                nseq += 1;
                tot.pushes += st.pushes;
                tot.ok += st.ok;
                tot.err += st.err;
                tot.writers += st.writers;
                tot.max_delta = tot.max_delta.max(st.max_delta);
                tot.peak = tot.peak.max(st.peak);
                tot.max_req = tot.max_req.max(st.max_req);
                tot.steps = tot.steps.max(st.steps);
                for e in &st.err_kinds {
                    kinds.insert(*e);
                }
                if st.pushes > 0 {
                    shapes.push(util::fnv(&format!("{}|{}", class, k)));
                }
                if sample.is_none() && nseq == 2 {
                    sample = Some(json!({"sequence": desc, "pushes": st.pushes, "ok": st.ok, "err": st.err, "first_packet": seq.first().map(|b| hex(&b[..b.len().min(80)]))}));
                }
                let mut o = stdout.lock();
                for v in viol.iter().take(4) {
                    let _ = writeln!(o, "V {} {}", k, viol_json(v));
                }
            }
        }
        k += nshards;
    }
    let mut o = stdout.lock();
    let _ = writeln!(o, "S {}", json!({"sequences": nseq, "pushes": tot.pushes, "ok": tot.ok, "err": tot.err, "writers": tot.writers,
        "max_delta": tot.max_delta, "peak": tot.peak, "max_req": tot.max_req, "max_steps": tot.steps,
        "shapes": shapes.len(), "err_kinds": kinds.iter().collect::<Vec<_>>(), "sample": sample}));
    let _ = o.flush();
    std::process::exit(0);
}

fn describe(seed: u64, thorough: bool, class: &str, k: u64) -> Value {
    let w = World { seed, thorough, corpus: corpus(seed, !thorough) };
    match gen_seq(&w, class, k) {
        Some((d, _, seq)) => json!({"desc": d, "packets": seq.iter().take(40).map(|b| hex(&b[..b.len().min(300)])).collect::<Vec<_>>(), "n_packets": seq.len()}),
        None => json!(null),
    }
}

/// Parent side: run one shard of one class in child processes, restarting after aborts.
fn run_shard(ctx: &Ctx, class: &'static str, shard: u64, nshards: u64) -> CaseResult {
    let mut cr = CaseResult::default();
    let exe = std::env::current_exe().unwrap();
    let mut from = 0u64;
    let mut restarts = 0;
    loop {
        let mut child = match Command::new(&exe)
            .args(["--child", class, &shard.to_string(), &nshards.to_string(), &ctx.seed.to_string(), ctx.tier.name(), &from.to_string()])
            .stdout(Stdio::piped())
            .stderr(Stdio::piped())
            .spawn()
        {
            Ok(c) => c,
            Err(e) => {
                cr.inconclusive = Some(format!("cannot spawn child: {}", e));
                return cr;
            }
        };
        let out = child.stdout.take().unwrap();
        let mut err = child.stderr.take().unwrap();
        let errh = std::thread::spawn(move || {
            let mut s = String::new();
            let _ = std::io::Read::read_to_string(&mut err, &mut s);
            s
        });
        let mut in_flight: Option<u64> = None;
        let mut done = false;
        for line in BufReader::new(out).lines() {
            let line = match line {
                Ok(l) => l,
                Err(_) => break,
            };
            if let Some(rest) = line.strip_prefix("P ") {
                in_flight = rest.trim().parse().ok();
            } else if let Some(rest) = line.strip_prefix("V ") {
                let mut it = rest.splitn(2, ' ');
                let k: u64 = it.next().unwrap_or("0").parse().unwrap_or(0);
                if let Ok(v) = serde_json::from_str::<Value>(it.next().unwrap_or("null")) {
                    let mut viol = Violation::new(v["clause"].as_str().unwrap_or("?"), v["detail"].as_str().unwrap_or("").to_string());
                    if let Some(sig) = v["sig"].as_object() {
                        viol.sig = sig.clone();
                    }
                    viol.sig.insert("class".into(), json!(class));
                    viol.witness = json!({"class": class, "sequence_index": k, "seed": ctx.seed, "tier": ctx.tier.name(), "w": v["witness"]});
                    if cr.violations.len() < 40 {
                        cr.violations.push(viol);
                    }
                }
            } else if let Some(rest) = line.strip_prefix("S ") {
                if let Ok(s) = serde_json::from_str::<Value>(rest) {
                    cr.count("sequences", s["sequences"].as_u64().unwrap_or(0));
                    cr.count("pushes", s["pushes"].as_u64().unwrap_or(0));
                    cr.count("push_ok", s["ok"].as_u64().unwrap_or(0));
                    cr.count("push_err", s["err"].as_u64().unwrap_or(0));
                    cr.count("writers_created", s["writers"].as_u64().unwrap_or(0));
                    for e in s["err_kinds"].as_array().cloned().unwrap_or_default() {
                        cr.states.push(e.as_u64().unwrap_or(0));
                    }
                    if s["pushes"].as_u64().unwrap_or(0) > 0 {
                        cr.shape = Some(util::fnv(&format!("{}|{}", class, shard)));
                    }
                    if shard == 0 {
                        cr.sample = Some(json!({"class": class, "shard": shard, "sequences": s["sequences"], "pushes": s["pushes"], "ok": s["ok"], "err": s["err"],
                            "max_single_alloc": s["max_req"], "max_per_call_growth": s["max_delta"], "peak_live": s["peak"], "max_steps_one_call": s["max_steps"], "example": s["sample"]}));
                    }
                    done = true;
                }
            }
        }
        let status = child.wait().ok();
        let stderr = errh.join().unwrap_or_default();
        if done {
            break;
        }
        // abnormal end: attribute to the sequence in flight
        let code = status.and_then(|s| s.code());
        let k = in_flight.unwrap_or(from);
        let (clause, detail) = match code {
            Some(97) => ("alloc_single", format!("a single allocation request above 256 MiB: {}", stderr.lines().last().unwrap_or(""))),
            Some(98) => ("alloc_live", format!("live heap above 3 GiB: {}", stderr.lines().last().unwrap_or(""))),
            Some(c) => ("abort", format!("child exited with code {}: {}", c, stderr.lines().last().unwrap_or(""))),
            None => ("abort", format!("child killed by a signal ({:?}): {}", status, stderr.lines().rev().take(3).collect::<Vec<_>>().join(" | "))),
        };
        let d = describe(ctx.seed, ctx.tier == Tier::Thorough, class, k);
        let cp = d["packets"].as_array().and_then(|a| a.iter().find_map(|p| p.as_str().filter(|s| s.len() >= 8).map(|s| s[6..8].to_string()))).unwrap_or_default();
        cr.violations.push(Violation::new(clause, detail).with("class", class).with("first_cp_hex", cp)
            .witness(json!({"class": class, "sequence_index": k, "seed": ctx.seed, "tier": ctx.tier.name(), "sequence": d})));
        from = k + 1;
        restarts += 1;
        if restarts > 200 {
            cr.inconclusive = Some("more than 200 child restarts in one shard".into());
            break;
        }
    }
    cr.count("child_restarts", restarts);
    cr
}

fn main() {
    let args: Vec<String> = std::env::args().collect();
    if args.get(1).map(|s| s.as_str()) == Some("--child") {
        child_main(&args);
    }
    if args.get(1).map(|s| s.as_str()) == Some("--describe") {
        // c04 --describe <seed> <tier> <class> <k>
        println!("{}", serde_json::to_string_pretty(&describe(args[2].parse().unwrap(), args[3] == "thorough", &args[4], args[5].parse().unwrap())).unwrap());
        return;
    }
    let prop = Property {
        id: "C04",
        level: "exploration",
        rule: "hostile packet sequences in crash-isolated children: (tiny) every byte string of length <= 3; (short) enumerated first-word combinations at lengths 4..40; (subst) every single-byte substitution over the header region of corpus packets (8 representative values quick / all 255 thorough); (field_fti) per-scheme EXT_FTI extremes on object packets, FDT first and object first; (field_fti_any) EXT_FTI extremes of every scheme id incl. FEC 2 with its m/G word, codepoint and payload id rewritten to match, on the FDT packets or on the object packets; (field_misc) payload-id, payload-size, codepoint, flag, HDR_LEN, HEL, EXT_FDT, EXT_TIME, EXT_CENC, FDT-FTI, TOI-class edits through the independent encoder; (fdt_oti) FEC OTI delivered by the FDT only - extremes of every FEC-OTI attribute and of the base64 scheme-specific info for every scheme id, at instance or File level - followed by object packets of that codepoint without EXT_FTI; (fdt_id_reuse) an FDT instance that is complete but fails to decode, cleanup() calls, then a valid session on the same TSI reusing that instance id; (fdtxml) FDT XML attribute rewriting / truncation / duplication / nesting / entities / noise wrapped into FDT packets; (sequence) seeded flip/truncate/extend/splice/repeat/drop/swap sequences over whole sessions. Each sequence is followed by two probe sessions. Oracle: every push returns, no panic, no step-budget trip, per-call heap growth <= 48 MiB with a 1 MiB cache, no single request > 256 MiB, probes delivered. A case is one shard of one class; distinct = shards that executed pushes; monitor states = distinct error-message kinds reached; field_misc also substitutes the codepoint of every scheme id on copies of object and FDT packets cut 0..12 bytes after the LCT header; (toi_reuse_after_error) one hostile datagram that makes an object fail, then the complete valid session for the same TSI and TOI, which must be delivered",
        assumptions: vec![
            "probe sessions use a TOI, FDT instance id and TSI that the hostile sequence did not use".into(),
            "allocation numbers come from the harness's counting allocator in a single-threaded child; the monitoring writer keeps at most 4 KiB per writer".into(),
            "wall-clock watchdog is not a verdict; hangs are decided by the step budget".into(),
        ],
        exhaustive: true,
        budget_quick_s: 200,
        budget_thorough_s: 3000,
    };
    run_property(prop, |ctx| {
        let mut gens = vec![];
        for class in CLASSES {
            let nshards: u64 = match class {
                "tiny" => 16,
                "subst" => 32,
                _ => 16,
            };
            gens.push(Gen::new(class, nshards as usize, move |ctx, i| run_shard(ctx, class, i as u64, nshards)));
        }
        let _ = ctx;
        let _: Option<Fti> = None;
        gens
    });
}
