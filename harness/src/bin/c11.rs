//! C11 - announce before send: no object packet precedes a completely emitted
//! FDT instance listing the object; a pending FDT instance is sent in full before
//! any further object packet; in full-FDT mode unpublished objects stay silent.
use serde_json::{json, Value};
use std::collections::{BTreeMap, BTreeSet};
use vh::gen;
use vh::report::*;
use vh::scenario::*;
use vh::session::*;
use vh::util::{self, Rng};

struct InstState {
    need: usize,
    tl: u64,
    round: BTreeSet<(u32, u32)>,
    /// payload of the first copy of every source symbol
    syms: BTreeMap<(u32, u32), Vec<u8>>,
    completed_once: bool,
}

/// Online trace automaton over the stream.
fn judge(run: &ScriptRun, out: &mut Vec<Violation>) -> (u64, u64, Vec<u64>) {
    let oti = &run.spec.oti;
    let mut inst: BTreeMap<u32, InstState> = BTreeMap::new();
    let mut announced: BTreeSet<u128> = BTreeSet::new();
    let mut completed_instances = 0usize;
    let mut n_obj = 0u64;
    let mut n_fdt = 0u64;
    let mut states: BTreeSet<u64> = BTreeSet::new();
    let mode = if run.spec.full_fdt { "full" } else { "obt" };
    let publishes: Vec<usize> = run.ops.iter().filter(|o| o.op == Op::Publish && o.ok).map(|o| o.pkt_index).collect();
    let wit = |idx: usize, extra: Value| {
        let lo = idx.saturating_sub(12);
        json!({"run": run.json(), "detail": extra, "around": run.stream[lo..(idx + 3).min(run.stream.len())].iter().enumerate().map(|(k, p)| format!("{}: toi={} sbn={} esi={}{}", lo + k, p.toi(), p.dec.sbn, p.dec.esi, p.dec.fdt.map(|f| format!(" fdt#{}", f.1)).unwrap_or_default())).collect::<Vec<_>>()})
    };
    let mut n_start_rule = 0u64;
    let mut reported = BTreeSet::new();
    // emission rounds of instances: (id, index of the first packet of the round, index of the packet completing it)
    let mut round_first: BTreeMap<u32, usize> = BTreeMap::new();
    let mut round_done: Vec<(u32, usize, usize)> = vec![];
    let mut listed: BTreeMap<u32, BTreeSet<u128>> = BTreeMap::new();
    for (idx, p) in run.stream.iter().enumerate() {
        if p.toi() == 0 {
            n_fdt += 1;
            let id = match p.dec.fdt {
                Some((_, id)) => id,
                None => {
                    out.push(Violation::new("fdt_packet_without_ext_fdt", format!("packet {} has TOI 0 but no EXT_FDT", idx)).witness(wit(idx, json!(null))));
                    continue;
                }
            };
            let tl = p.dec.fti.as_ref().map(|f| f.l).unwrap_or(0);
            let part = ref_partition(oti.b as u128, tl as u128, oti.e as u128);
            let st = inst.entry(id).or_insert(InstState { need: part.t as usize, tl, round: BTreeSet::new(), syms: BTreeMap::new(), completed_once: false });
            let key = (p.dec.sbn, p.dec.esi);
            let is_source = (p.dec.sbn as u128) < part.n && (p.dec.esi as u128) < part.k(p.dec.sbn as u128);
            if !is_source {
                continue;
            }
            if st.round.contains(&key) || st.round.len() == st.need {
                st.round.clear(); // a new emission round of the same instance
            }
            st.round.insert(key);
            st.syms.entry(key).or_insert_with(|| p.payload().to_vec());
            if st.round.len() == 1 {
                round_first.insert(id, idx);
            }
            if st.round.len() == st.need {
                round_done.push((id, *round_first.get(&id).unwrap_or(&idx), idx));
            }
            if st.round.len() == st.need && !st.completed_once {
                st.completed_once = true;
                completed_instances += 1;
                let mut bytes = vec![];
                for (_, v) in &st.syms {
                    bytes.extend_from_slice(v);
                }
                bytes.truncate(st.tl as usize);
                if let Some(xml) = inflate(run.spec.fdt_cenc, &bytes).ok().and_then(|b| String::from_utf8(b).ok()) {
                    for part in xml.split("TOI=\"").skip(1) {
                        if let Some(t) = part.split('"').next().and_then(|s| s.parse::<u128>().ok()) {
                            announced.insert(t);
                            listed.entry(id).or_default().insert(t);
                        }
                    }
                } else {
                    out.push(Violation::new("fdt_not_decodable", format!("FDT instance {} complete on the wire but not decodable", id)).witness(wit(idx, json!(null))));
                }
            }
            continue;
        }
        n_obj += 1;
        let toi = p.toi();
        let pending: Vec<u32> = inst.iter().filter(|(_, s)| !s.round.is_empty() && s.round.len() < s.need).map(|(id, _)| *id).collect();
        states.insert(util::fnv(&format!("{}|p{}|a{}", mode, pending.len(), announced.contains(&toi))));
        if !announced.contains(&toi) && reported.insert(("a", toi)) {
            let added_at = run.tois.iter().position(|t| *t == Some(toi)).and_then(|i| run.ops.iter().find(|o| matches!(o.op, Op::Add(k) | Op::AddWithHandle(k) if k == i)).map(|o| o.pkt_index));
            out.push(Violation::new("object_packet_before_announce", format!(
                "packet {} carries TOI {} but no completely emitted FDT instance lists it yet (object added at packet index {:?}, {} instance(s) complete so far)",
                idx, toi, added_at, completed_instances))
                .with("mode", mode).with("multi_queue", run.spec.queues.len() > 1)
                .witness(wit(idx, json!({"announced": announced.iter().map(|t| t.to_string()).collect::<Vec<_>>()}))));
        }
        if !pending.is_empty() && reported.insert(("p", toi)) {
            out.push(Violation::new("object_packet_during_fdt", format!(
                "packet {} (TOI {}) is emitted while FDT instance(s) {:?} are only partly emitted", idx, toi, pending))
                .with("mode", mode).with("multi_queue", run.spec.queues.len() > 1)
                .witness(wit(idx, json!(null))));
        }
        // explicit publishes executed so far each need a complete instance before object packets go on
        let due = publishes.iter().filter(|i| **i <= idx).count();
        if completed_instances < due && reported.insert(("q", toi)) {
            out.push(Violation::new("object_packet_before_pending_fdt", format!(
                "packet {} (TOI {}): {} publish() calls were made up to this index but only {} FDT instance(s) have been completely emitted", idx, toi, due, completed_instances))
                .with("mode", mode).with("multi_queue", run.spec.queues.len() > 1)
                .witness(wit(idx, json!({"publish_indices": publishes}))));
        }
    }
    // ObjectsBeingTransferred mode: the start of a transfer publishes a new instance (public StartTransfer event);
    // that instance is pending from then on and must be sent in full before ANY further object packet - also of
    // the objects that are already in flight in other sessions / queues
    if !run.spec.full_fdt {
        for (k, ev) in &run.sub_events {
            let t = match ev {
                SubEv::Start(t, _) => *t,
                _ => continue,
            };
            // first emission round that begins at or after the start, of an instance listing the object
            let done = round_done.iter().filter(|(id, first, _)| *first >= *k && listed.get(id).map(|l| l.contains(&t)).unwrap_or(false)).map(|(_, _, c)| *c).min();
            let until = match done {
                Some(c) => c,
                None => continue, // the stream ends before the instance is complete (or it could not be decoded)
            };
            if let Some((idx, p)) = run.stream.iter().enumerate().skip(*k).take(until.saturating_sub(*k)).find(|(_, p)| p.toi() != 0) {
                if reported.insert(("s", t)) {
                    out.push(Violation::new("object_packet_while_published_fdt_pending", format!(
                        "transfer of TOI {} starts at packet index {} (a new FDT instance is published then and complete at index {}), yet packet {} carries TOI {}",
                        t, k, until, idx, p.toi()))
                        .with("mode", mode).with("multi_queue", run.spec.queues.len() > 1)
                        .witness(wit(idx, json!({"started_toi": t.to_string(), "start_index": k, "instance_complete_at": until}))));
                }
            }
            n_start_rule += 1;
        }
    }
    let _ = n_start_rule;
    (n_obj, n_fdt, states.into_iter().collect())
}

fn main() {
    let prop = Property {
        id: "C11",
        level: "exploration",
        rule: "random interleavings of add / publish / remove / read with advancing virtual time (objects added at arbitrary packet indices while others are in flight or while a multi-packet FDT is mid-transmission, double publishes, publishes without change, carousel objects, removals), both publish modes, 1-4 queues, multiplex 0-4, interleave 1-5, both polling disciplines; the stream is judged online by a trace automaton (Announced set fed by completely emitted instances decoded independently; pending = partly emitted instance; explicit publishes must be followed by a complete instance before object packets continue); a case is one script, non-trivial when object packets were observed; distinct = discretised script shape; failed_publish also under a Raptor session OTI with source blocks of at most 4-6 symbols (instances partitioned into blocks of 4 and 3 symbols are refused, never truncated)",
        assumptions: vec![
            "repeated transfers of an announced object need no fresh FDT; the close-object packet after removal belongs to an announced TOI".into(),
            "the session's default OTI can carry the FDT (publish() errors are the caller's information)".into(),
        ],
        exhaustive: false,
        budget_quick_s: 120,
        budget_thorough_s: 1200,
    };
    run_property(prop, |ctx| {
        let mut gens = vec![];
        let n = ctx.tier.pick(12_000usize, 400_000);
        gens.push(Gen::new("random_scripts", n, move |ctx, i| {
            let mut rng = Rng::keyed(ctx.seed, "C11", 0, i as u64);
            let o = gen::GenOpts { max_objects: 6, max_symbols: 20, sources: false, realistic_every: 0, cenc: i % 3 == 0, ..Default::default() };
            let (mut spec, mut objs) = gen::gen_session(&mut rng, &o);
            // small symbols for the FDT => multi-packet instances
            if rng.chance(1, 2) && spec.oti.fec != Fec::Raptor {
                spec.oti.e = *rng.pick(&[16u16, 32, 64]);
                if spec.oti.fec == Fec::RaptorQ {
                    spec.oti.e = ((spec.oti.e as u32).div_ceil(spec.oti.al as u32) * spec.oti.al as u32) as u16;
                }
                gen::make_fdt_capable(&mut spec.oti);
            }
            spec.fdt_carousel = CarouselSpec::DelayMs(*rng.pick(&[0u64, 100, 1000, 5000]));
            spec.fdt_duration_s = *rng.pick(&[1u64, 2, 5, 11, 3600]);
            for ob in objs.iter_mut() {
                if rng.chance(1, 5) {
                    ob.carousel = Some(CarouselSpec::DelayMs(*rng.pick(&[0u64, 100, 500])));
                }
                if rng.chance(1, 6) {
                    ob.start_ms = Some(rng.range(0, 3000));
                }
                // boundary value of the transfer count (flute sends such an object once / once per carousel period):
                // it must be announced like any other
                if rng.chance(1, 6) {
                    ob.max_transfer_count = 0;
                }
            }
            // one script in eight: two objects carry the SAME content location (a new version of a file added while the
            // previous one is still being sent) - both are objects in their own right and both must be announced
            if objs.len() >= 2 && rng.chance(1, 8) {
                let loc = objs[0].location.clone();
                objs[1].location = loc;
            }
            let mut script: Vec<(When, Op)> = vec![];
            // first object at start; others at arbitrary packet indices / times
            script.push((When::Start, Op::Add(0)));
            if rng.chance(4, 5) {
                script.push((When::Start, Op::Publish));
            }
            let mut pk = 0usize;
            for k in 1..objs.len() {
                pk += rng.range(0, 60) as usize;
                script.push((When::Packets(pk), Op::Add(k)));
                match rng.below(5) {
                    0 => {} // forgotten publish (full mode: must stay silent)
                    1 => {
                        script.push((When::Packets(pk), Op::Publish));
                        script.push((When::Packets(pk), Op::Publish));
                    }
                    2 => {
                        pk += rng.range(1, 20) as usize;
                        script.push((When::Packets(pk), Op::Publish));
                    }
                    _ => script.push((When::Packets(pk), Op::Publish)),
                }
                if rng.chance(1, 6) {
                    pk += rng.range(0, 30) as usize;
                    let r = rng.below(k as u64 + 1) as usize;
                    script.push((When::Packets(pk), Op::Remove(r)));
                    if rng.chance(2, 3) {
                        script.push((When::Packets(pk), Op::Publish));
                    }
                }
            }
            if rng.chance(1, 3) {
                pk += rng.range(1, 40) as usize;
                script.push((When::Packets(pk), Op::Publish));
            }
            let step = *rng.pick(&[10u64, 100, 1000]);
            let mut opts = ScriptOpts::every(step, *rng.pick(&[60usize, 200]));
            opts.drain = rng.chance(3, 4);
            opts.stop_when_empty = false;
            opts.max_packets = 5000;
            let mut cr = CaseResult::default();
            match util::guarded(|| run_script(&spec, &objs, &script, &opts)) {
                Ok(Ok(run)) => {
                    // publish() failures mean the FDT does not fit the default OTI: precondition
                    let publish_failed = run.ops.iter().any(|o| o.op == Op::Publish && !o.ok);
                    if publish_failed {
                        cr.count("scripts_with_failed_publish", 1);
                    }
                    let (nobj, nfdt, st) = judge(&run, &mut cr.violations);
                    cr.count("object_packets", nobj);
                    cr.count("fdt_packets", nfdt);
                    cr.states = st;
                    if nobj > 0 {
                        cr.shape = Some(util::fnv(&format!("{}|q{}|il{}|n{}|ops{}|d{}|{}", run.spec.full_fdt, run.spec.queues.len(), run.spec.interleave, run.objs.len(), run.ops.len(), opts.drain, run.spec.oti.fec.name())));
                    }
                    cr.sample = Some(json!({"sender": run.spec.json(), "ops": run.ops.iter().map(|o| format!("{:?}@{}", o.op, o.pkt_index)).collect::<Vec<_>>(), "object_packets": nobj, "fdt_packets": nfdt}));
                }
                Ok(Err(e)) => {
                    if !e.starts_with("publish") {
                        cr.inconclusive = Some(e);
                    }
                }
                Err(p) => cr.violations.push(Violation::new(if p.is_step_budget() { "hang" } else { "panic" }, format!("{} @ {}", p.msg, p.short_loc())).with("site", if p.is_step_budget() { p.step_site() } else { p.file() })
                    .witness(json!({"sender": spec.json(), "script": format!("{:?}", script)}))),
            }
            limit(&mut cr.violations, 3);
            cr
        }));
        // publish() that fails because the FDT cannot be encoded with the session OTI (Raptor: 2-3 symbols;
        // any scheme: longer than the maximum transfer length): objects never listed must stay silent
        let nf = ctx.tier.pick(600usize, 20_000);
        gens.push(Gen::new("failed_publish", nf, move |ctx, i| {
            let mut rng = Rng::keyed(ctx.seed, "C11f", 0, i as u64);
            let mut cr = CaseResult::default();
            let kind = i % 4;
            let oti = match kind {
                // Raptor, small symbols and source blocks of at most 4-6 symbols: an instance whose partition has a block
                // of 2-3 symbols (large AND small blocks are looked at) is refused, the others are sent in full
                3 => { let mut o = OtiSpec::new(Fec::Raptor, *rng.pick(&[32u16, 64]), *rng.pick(&[4u32, 5, 6]), 1); o.al = 4; o }
                // Raptor, large symbols: an FDT of 2-3 symbols is refused, 1 or >= 4 symbols are fine
                0 => { let mut o = OtiSpec::new(Fec::Raptor, *rng.pick(&[700u16, 1000, 1400]), 64, 1); o.al = 4; o }
                // tiny maximum transfer length: FDT instances above B*E*... bytes cannot be sent
                1 => OtiSpec::new(Fec::NoCode, *rng.pick(&[256u16, 512]), *rng.pick(&[1u32, 2, 3]), 0),
                _ => OtiSpec::new(Fec::Rs28, *rng.pick(&[128u16, 256]), *rng.pick(&[2u32, 4]), 1),
            };
            let mut spec = SenderSpec::new(oti);
            spec.full_fdt = rng.chance(2, 3);
            spec.fdt_carousel = CarouselSpec::DelayMs(*rng.pick(&[0u64, 100, 5000]));
            spec.fdt_duration_s = 3600;
            let nobj = if kind == 3 { rng.range(1, 4) as usize } else { rng.range(2, 14) as usize };
            let obj_oti = OtiSpec::new(Fec::NoCode, 64, 8, 0);
            let mut objs = vec![];
            let mut script: Vec<(When, Op)> = vec![];
            let mut pk = 0usize;
            for k in 0..nobj {
                let olen = rng.range(1, 300) as usize;
                // (kind 3: the length of the location sweeps the number of symbols of the instance)
                let pad = if kind == 3 { "p".repeat((i / 4) % 131) } else { String::new() };
                let mut o = ObjSpec::new(gen_bytes(&mut rng, olen), &format!("file:///failed-publish/a-rather-long-location-to-make-the-fdt-grow/{}{}", pad, k));
                o.oti = Some(obj_oti.clone());
                objs.push(o);
                script.push((if k == 0 { When::Start } else { When::Packets(pk) }, Op::Add(k)));
                if rng.chance(3, 4) {
                    script.push((if k == 0 { When::Start } else { When::Packets(pk) }, Op::Publish));
                }
                pk += rng.range(0, 12) as usize;
            }
            script.push((When::Packets(pk + 5), Op::Publish));
            let mut opts = ScriptOpts::every(100, 80);
            opts.drain = rng.chance(3, 4);
            opts.stop_when_empty = false;
            opts.max_packets = 4000;
            match util::guarded(|| run_script(&spec, &objs, &script, &opts)) {
                Ok(Ok(run)) => {
                    let failed = run.ops.iter().filter(|o| o.op == Op::Publish && !o.ok).count();
                    let ok = run.ops.iter().filter(|o| o.op == Op::Publish && o.ok).count();
                    cr.count("publish_failed", failed as u64);
                    cr.count("publish_ok", ok as u64);
                    let (nobj, nfdt, st) = judge(&run, &mut cr.violations);
                    cr.count("object_packets", nobj);
                    cr.count("fdt_packets", nfdt);
                    cr.states = st;
                    for v in cr.violations.iter_mut() {
                        v.sig.insert("after_failed_publish".into(), json!(failed > 0));
                    }
                    if failed > 0 {
                        cr.shape = Some(util::fnv(&format!("fp|{}|{}|{}|{}|{}", kind, run.spec.full_fdt, failed.min(6), ok.min(6), nobj.min(40))));
                    }
                    if i % 53 == 0 {
                        cr.sample = Some(json!({"sender": run.spec.json(), "ops": run.ops.iter().map(|o| format!("{:?}@{}{}", o.op, o.pkt_index, if o.ok { "" } else { " FAILED" })).collect::<Vec<_>>(), "object_packets": nobj, "fdt_packets": nfdt}));
                    }
                }
                Ok(Err(e)) => cr.inconclusive = Some(e),
                Err(p) => cr.violations.push(Violation::new(if p.is_step_budget() { "hang" } else { "panic" }, format!("{} @ {}", p.msg, p.short_loc())).with("site", if p.is_step_budget() { p.step_site() } else { p.file() })
                    .witness(json!({"sender": spec.json(), "script": format!("{:?}", script)}))),
            }
            limit(&mut cr.violations, 3);
            cr
        }));
        gens
    });
}
