//! C18 - multi-session demultiplexing by (endpoint, TSI), TSI filtering, and
//! session listener events (one open per creation, one close per end).
use flute::core::UDPEndpoint;
use flute::receiver::{Config as RxConfig, MultiReceiver, MultiReceiverListener, ReceiverEndpoint};
use serde_json::json;
use std::cell::RefCell;
use std::collections::BTreeMap;
use std::rc::Rc;
use std::sync::Arc;
use std::time::Duration;
use vh::mwriter::{MonBuilder, Script};
use vh::report::*;
use vh::scenario::*;
use vh::session::*;
use vh::util::{self, Rng};

fn ep(k: usize) -> UDPEndpoint {
    match k {
        0 => UDPEndpoint::new(Some("10.0.0.1".into()), "224.0.0.1".into(), 3400),
        1 => UDPEndpoint::new(None, "224.0.0.1".into(), 3400),
        2 => UDPEndpoint::new(Some("10.0.0.2".into()), "224.0.0.2".into(), 3400),
        3 => UDPEndpoint::new(None, "224.0.0.2".into(), 3400),
        4 => UDPEndpoint::new(Some("10.0.0.9".into()), "224.0.0.1".into(), 3400),
        6 => UDPEndpoint::new(Some("2001:db8::1".into()), "ff3e::1".into(), 3400),
        7 => UDPEndpoint::new(Some("2001:db8::2".into()), "ff3e::1".into(), 3400),
        8 => UDPEndpoint::new(Some("10.0.0.1".into()), "224.0.0.1".into(), 3401),
        _ => UDPEndpoint::new(None, "224.0.0.1".into(), 3401),
    }
}

fn epname(e: &UDPEndpoint) -> String {
    format!("{}>{}:{}", e.source_address.clone().unwrap_or("*".into()), e.destination_group_address, e.port)
}

/// one small valid session on (tsi); returns packets
fn mini_session(tsi: u64, fec: Fec, len: usize, seed: u64) -> Vec<Vec<u8>> {
    let mut rng = Rng::keyed(seed, "C18s", tsi, len as u64);
    let mut spec = SenderSpec::new(OtiSpec::new(Fec::NoCode, 4096, 8, 0));
    spec.tsi = tsi;
    spec.fdt_carousel = CarouselSpec::DelayMs(3_600_000);
    let mut o = ObjSpec::new(gen_bytes(&mut rng, len), &format!("file:///d/{}-{}", tsi, len));
    o.oti = Some(OtiSpec::new(fec, 16, 2, if fec == Fec::NoCode { 0 } else { 1 }));
    let em = emit(&spec, &[o], &EmitOpts { step_ms: 10, max_instants: 30, ..Default::default() }).expect("mini session");
    em.stream.iter().map(|p| p.bytes.clone()).collect()
}

#[derive(Clone, Debug, PartialEq)]
struct WSummary {
    ep: String,
    tsi: u64,
    toi: u128,
    trace: String,
    data: Vec<u8>,
    location: String,
}

fn summaries(log: &vh::mwriter::Log) -> Vec<WSummary> {
    log.writers.iter().map(|w| WSummary { ep: epname(&w.endpoint), tsi: w.tsi, toi: w.toi, trace: log.trace_of(w.wid), data: w.data.clone(), location: w.meta.content_location.clone() }).collect()
}

fn push_all(order: &[(usize, usize)], sessions: &[(UDPEndpoint, u64, Vec<Vec<u8>>)]) -> Result<(Vec<WSummary>, usize), util::PanicInfo> {
    util::guarded(|| {
        let (b, log) = MonBuilder::new(Script::default());
        let mut rx = MultiReceiver::new(b.clone(), Some(RxConfig { object_timeout: None, ..Default::default() }), false);
        let now = util::at(1000);
        for (s, k) in order {
            let _ = util::with_budget(PUSH_BUDGET, || rx.push(&sessions[*s].0, &sessions[*s].2[*k], now));
        }
        drop(rx);
        let l = log.borrow();
        (summaries(&l), l.fdts.len())
    })
}

/// all interleavings (as session index sequences) of sequences with the given lengths, up to `cap`
fn interleavings(lens: &[usize], cap: usize) -> Vec<Vec<usize>> {
    fn rec(left: &mut Vec<usize>, cur: &mut Vec<usize>, out: &mut Vec<Vec<usize>>, cap: usize) {
        if out.len() >= cap {
            return;
        }
        if left.iter().all(|x| *x == 0) {
            out.push(cur.clone());
            return;
        }
        for s in 0..left.len() {
            if left[s] > 0 {
                left[s] -= 1;
                cur.push(s);
                rec(left, cur, out, cap);
                cur.pop();
                left[s] += 1;
            }
        }
    }
    let mut out = vec![];
    rec(&mut lens.to_vec(), &mut vec![], &mut out, cap);
    out
}

// ---------------------------------------------------------------- listener recording

#[derive(Clone, Debug, PartialEq, Eq)]
enum LEv {
    Open(String, u64),
    Close(String, u64),
}

struct RecListener {
    log: Rc<RefCell<Vec<(usize, LEv)>>>,
    call: Rc<RefCell<usize>>,
}

impl MultiReceiverListener for RecListener {
    fn on_session_open(&self, e: &ReceiverEndpoint) {
        self.log.borrow_mut().push((*self.call.borrow(), LEv::Open(epname(&e.endpoint), e.tsi)));
    }
    fn on_session_closed(&self, e: &ReceiverEndpoint) {
        self.log.borrow_mut().push((*self.call.borrow(), LEv::Close(epname(&e.endpoint), e.tsi)));
    }
}

fn main() {
    let prop = Property {
        id: "C18",
        level: "exploration",
        rule: "(isolation) 2-4 sessions (distinct TSIs on one endpoint, equal TSIs on distinct endpoints, with and without source address, endpoints differing only by source or port): ALL interleavings of their packet streams when the total is small, seeded merges otherwise; the per-session projection of the writer log must equal the log of the session pushed alone and carry the session's own endpoint and TSI; (filter) ALL sequences of {add, remove, add-all, remove-all} over 4 endpoints (2 groups x source/no source) x 2 TSIs and {set_tsi_filtering(false), set_tsi_filtering(true)} up to depth d (3 quick, 4 thorough; 24 operations), each followed by 12 probe packets (the four endpoints of the operations and two that differ from them by the port only, x 2 TSIs), against a counter-map reference filter; (listeners) random scripts of data / close-session packets, cleanups after real sleeps, listeners added and removed mid-run, receiver dropped at a random point, judged by a per-(listener, session) automaton with the call in progress recorded for every event, (listener_registration) up to six listeners registered and removed in any order: what a listener registered during calls [a, r) sees must equal what the listener registered throughout saw during those calls; plus an expiry-race stress (hundreds of sessions around a 2 ms timeout, cleanup in a tight loop); a case is one batch, non-trivial when callbacks were observed; distinct = batch parameters",
        assumptions: vec![
            "ordering between different sessions' callbacks is free".into(),
            "a session may legitimately expire during any cleanup (loaded machine): only long sleeps (>= 10x the timeout) oblige expiry; the automaton never assumes non-expiry".into(),
            "a listener added after a session opened starts in 'unknown' for that session".into(),
        ],
        exhaustive: true,
        budget_quick_s: 150,
        budget_thorough_s: 1500,
    };
    run_property(prop, |ctx| {
        let mut gens = vec![];
        // ------------------------------------------------------------ isolation
        let layouts: Vec<Vec<(usize, u64)>> = vec![
            vec![(0, 1), (0, 2)],          // distinct TSIs, one endpoint
            vec![(0, 1), (2, 1)],          // equal TSIs, distinct endpoints
            vec![(0, 1), (1, 1)],          // same group, with / without source
            vec![(0, 1), (4, 1)],          // endpoints differing only by source
            vec![(1, 1), (5, 1)],          // endpoints differing only by port
            vec![(6, 1), (7, 1)],          // IPv6 literals: sources sharing their first groups
            vec![(0, 1), (0, 2), (2, 1)],
            vec![(0, 7), (1, 7), (2, 7), (3, 7)],
            vec![(0, 0xFFFF_FFFF_FFFF), (0, 0xFFFF), (2, 0x1_0000)],
        ];
        let n_iso = layouts.len() * 6;
        let seed = ctx.seed;
        let thorough = ctx.tier == Tier::Thorough;
        gens.push(Gen::new("isolation", n_iso, move |_ctx, i| {
            let layout = &layouts[i % layouts.len()];
            let variant = i / layouts.len();
            let fecs = [Fec::NoCode, Fec::Rs28, Fec::RaptorQ];
            let mut cr = CaseResult::default();
            let sessions: Vec<(UDPEndpoint, u64, Vec<Vec<u8>>)> = layout.iter().enumerate().map(|(k, (e, t))| {
                let len = if variant < 3 { 20 + 7 * k } else { 90 + 31 * k };
                (ep(*e), *t, mini_session(*t, fecs[(k + variant) % 3], len, seed ^ (k as u64 * 977 + variant as u64)))
            }).collect();
            let alone: Vec<Vec<WSummary>> = (0..sessions.len()).map(|s| {
                let order: Vec<(usize, usize)> = (0..sessions[s].2.len()).map(|k| (s, k)).collect();
                push_all(&order, &sessions).map(|x| x.0).unwrap_or_default()
            }).collect();
            let lens: Vec<usize> = sessions.iter().map(|s| s.2.len()).collect();
            let total: usize = lens.iter().sum();
            let mut orders: Vec<Vec<usize>> = if total <= 12 { interleavings(&lens, 40_000) } else { vec![] };
            let mut rng = Rng::keyed(seed, "C18m", i as u64, 0);
            let nrand = if thorough { 400 } else { 60 };
            for _ in 0..nrand {
                let mut o: Vec<usize> = lens.iter().enumerate().flat_map(|(s, l)| std::iter::repeat(s).take(*l)).collect();
                rng.shuffle(&mut o);
                orders.push(o);
            }
            let mut runs = 0u64;
            let mut callbacks = 0u64;
            for ord in &orders {
                let mut pos = vec![0usize; sessions.len()];
                let order: Vec<(usize, usize)> = ord.iter().map(|s| {
                    let k = pos[*s];
                    pos[*s] += 1;
                    (*s, k)
                }).collect();
                let got = match push_all(&order, &sessions) {
                    Ok(g) => g,
                    Err(p) => {
                        cr.violations.push(Violation::new("panic", format!("{} @ {}", p.msg, p.short_loc())).with("site", p.file()));
                        continue;
                    }
                };
                runs += 1;
                callbacks += got.0.len() as u64 + got.1 as u64;
                for (s, (e, t, _)) in sessions.iter().enumerate() {
                    let proj: Vec<WSummary> = got.0.iter().filter(|w| w.ep == epname(e) && w.tsi == *t).cloned().collect();
                    if proj != alone[s] {
                        cr.violations.push(Violation::new("interference", format!(
                            "session {} ({} TSI {}): interleaved with {} other session(s) it delivers {:?}, alone it delivers {:?}",
                            s, epname(e), t, sessions.len() - 1,
                            proj.iter().map(|w| format!("toi{} {} {}B {}", w.toi, w.trace, w.data.len(), w.location)).collect::<Vec<_>>(),
                            alone[s].iter().map(|w| format!("toi{} {} {}B {}", w.toi, w.trace, w.data.len(), w.location)).collect::<Vec<_>>()))
                            .with("layout", format!("{:?}", layout)).with("nothing_delivered", proj.is_empty())
                            .witness(json!({"layout": format!("{:?}", layout), "order": ord})));
                        break;
                    }
                }
                // no callback for a session that does not exist
                for w in &got.0 {
                    if !sessions.iter().any(|(e, t, _)| epname(e) == w.ep && *t == w.tsi) {
                        cr.violations.push(Violation::new("foreign_callback", format!("writer callback with endpoint {} TSI {} which is none of the sessions", w.ep, w.tsi)).with("layout", format!("{:?}", layout)).witness(json!({"order": ord})));
                    }
                }
                if distinct_sigs(&cr.violations) > 2 || cr.violations.len() > 30 {
                    break;
                }
            }
            cr.count("interleavings", runs);
            cr.count("callbacks", callbacks);
            if callbacks > 0 {
                cr.shape = Some(util::fnv(&format!("iso{}", i)));
            }
            cr.states = vec![util::fnv(&format!("{:?}", layout))];
            cr.sample = Some(json!({"layout": layout.iter().map(|(e, t)| format!("{} tsi {}", epname(&ep(*e)), t)).collect::<Vec<_>>(), "packets_per_session": lens, "interleavings": runs, "exhaustive": total <= 12}));
            limit(&mut cr.violations, 2);
            cr
        }));
        // ------------------------------------------------------------ filter
        // operations: 0..16 add/remove (e,t): op = kind*8 + e*2 + t ; 16..24 add_all/remove_all: 16 + kind*4 + e ;
        // 24 / 25 set_tsi_filtering(false / true): the counts are a matter of the add / remove history, whatever the
        // switch said when they were made; with the switch off every packet is processed
        let depth = ctx.tier.pick(3u32, 4);
        let nops = 26usize;
        let total = nops.pow(depth);
        const CHF: usize = 576;
        let probe_pkts: Arc<Vec<Vec<u8>>> = Arc::new(vec![mini_session(1, Fec::NoCode, 10, 1)[0].clone(), mini_session(2, Fec::NoCode, 10, 1)[0].clone()]);
        let pp = probe_pkts.clone();
        gens.push(Gen::new("filter_sequences", total.div_ceil(CHF), move |_ctx, c| {
            let mut cr = CaseResult::default();
            let mut nprobe = 0u64;
            let mut accepted = 0u64;
            for code in (c * CHF)..((c + 1) * CHF).min(total) {
                let mut ops = vec![];
                let mut x = code;
                for _ in 0..depth {
                    ops.push(x % nops);
                    x /= nops;
                }
                // reference model
                let mut listen: BTreeMap<(usize, u64), u64> = BTreeMap::new();
                let mut bypass: BTreeMap<usize, u64> = BTreeMap::new();
                let r = util::guarded(|| {
                    let opens: Rc<RefCell<Vec<(usize, LEv)>>> = Rc::new(RefCell::new(vec![]));
                    let call = Rc::new(RefCell::new(0usize));
                    let (b, _log) = MonBuilder::new(Script::default());
                    let mut rx = MultiReceiver::new(b, Some(RxConfig { object_timeout: None, ..Default::default() }), true);
                    rx.add_listener(RecListener { log: opens.clone(), call: call.clone() });
                    for op in &ops {
                        if *op >= 24 {
                            rx.set_tsi_filtering(*op == 25);
                        } else if *op < 16 {
                            let (kind, e, t) = (op / 8, (op % 8) / 2, 1 + (op % 2) as u64);
                            if kind == 0 {
                                rx.add_listen_tsi(ep(e), t);
                            } else {
                                rx.remove_listen_tsi(&ep(e), t);
                            }
                        } else {
                            let (kind, e) = ((op - 16) / 4, (op - 16) % 4);
                            if kind == 0 {
                                rx.add_listen_all_tsi(ep(e));
                            } else {
                                rx.remove_listen_all_tsi(&ep(e));
                            }
                        }
                    }
                    let mut res = vec![];
                    // the four endpoints of the operations, and two that differ from endpoints 0 / 1 by their PORT only
                    // (never named by any operation: processed only while filtering is off)
                    for e in [0usize, 1, 2, 3, 8, 5] {
                        for t in 1..=2u64 {
                            let before = opens.borrow().len();
                            let _ = rx.push(&ep(e), &pp[(t - 1) as usize], util::at(1000));
                            res.push((e, t, opens.borrow().len() > before));
                        }
                    }
                    res
                });
                let mut enabled = true;
                for op in &ops {
                    if *op >= 24 {
                        enabled = *op == 25;
                    } else if *op < 16 {
                        let (kind, e, t) = (op / 8, (op % 8) / 2, 1 + (op % 2) as u64);
                        let ent = listen.entry((e, t)).or_insert(0);
                        if kind == 0 {
                            *ent += 1;
                        } else {
                            *ent = ent.saturating_sub(1);
                        }
                    } else {
                        let (kind, e) = ((op - 16) / 4, (op - 16) % 4);
                        let ent = bypass.entry(e).or_insert(0);
                        if kind == 0 {
                            *ent += 1;
                        } else {
                            *ent = ent.saturating_sub(1);
                        }
                    }
                }
                let res = match r {
                    Ok(r) => r,
                    Err(p) => {
                        cr.violations.push(Violation::new("panic", format!("{} @ {}", p.msg, p.short_loc())).with("site", p.file()).witness(json!({"ops": ops})));
                        continue;
                    }
                };
                for (e, t, processed) in res {
                    nprobe += 1;
                    // endpoint with the source wildcarded: 0 -> 1, 2 -> 3
                    let nosrc = if e % 2 == 0 { e + 1 } else { e };
                    let want = if e >= 4 { !enabled } else { !enabled || bypass.get(&e).copied().unwrap_or(0) > 0 || listen.get(&(e, t)).copied().unwrap_or(0) > 0 || listen.get(&(nosrc, t)).copied().unwrap_or(0) > 0 };
                    if processed {
                        accepted += 1;
                    }
                    if processed != want {
                        let name = |op: &usize| if *op >= 24 { format!("set_tsi_filtering({})", *op == 25) } else if *op < 16 { format!("{}({},tsi{})", if op / 8 == 0 { "add" } else { "remove" }, epname(&ep((op % 8) / 2)), 1 + op % 2) } else { format!("{}({})", if (op - 16) / 4 == 0 { "add_all" } else { "remove_all" }, epname(&ep((op - 16) % 4))) };
                        cr.violations.push(Violation::new("filter_decision", format!(
                            "after {:?} a packet from {} with TSI {} is {} but the reference filter says {}", ops.iter().map(name).collect::<Vec<_>>(), epname(&ep(e)), t,
                            if processed { "processed" } else { "dropped" }, if want { "processed" } else { "dropped" }))
                            .with("processed", processed).with("probe_has_source", e % 2 == 0).with("probe_port_never_listed", e >= 4).with("switch_toggled", ops.iter().any(|o| *o >= 24))
                            .witness(json!({"ops": ops})));
                    }
                }
                if cr.violations.len() > 20 {
                    break;
                }
            }
            cr.count("filter_probes", nprobe);
            cr.count("probes_processed", accepted);
            if nprobe > 0 {
                cr.shape = Some(util::fnv(&format!("f{}", c)));
            }
            if c == 3 {
                cr.sample = Some(json!({"depth": depth, "sequences": CHF, "probes": nprobe, "processed": accepted}));
            }
            limit(&mut cr.violations, 3);
            cr
        }));
        // ------------------------------------------------------------ filter decisions for packets of EXISTING sessions
        // listen kind x adds x removes x probe kind (data, close-session packet, data / FDT packet carrying the A flag):
        // the session is opened while accepted, then the counts are changed; the probe must be processed iff adds > removes
        let kinds = 3usize; // 0 exact (endpoint with source), 1 wildcard-source entry, 2 all TSIs of the endpoint
        let probes = 4usize; // 0 rest of the data, 1 close-session packet, 2 data packet with A=1, 3 FDT packet with A=1
        let n_ex = kinds * 2 * 3 * probes * 2;
        gens.push(Gen::new("filter_existing_sessions", n_ex, move |ctx, i| {
            let mut cr = CaseResult::default();
            let (kind, adds, removes, probe, tsi) = (i % 3, 1 + (i / 3) % 2, (i / 6) % 3, (i / 18) % 4, 1 + ((i / 72) % 2) as u64);
            let pkts = mini_session(tsi, Fec::NoCode, 70, ctx.seed);
            let src = ep(0);
            // the all-TSI entry matches the endpoint exactly (no source wildcard there)
            let listen_ep = match kind { 1 => ep(1), _ => ep(0) };
            let want = adds > removes;
            let listen_name = match kind { 0 => "exact", 1 => "wildcard source", _ => "all TSIs" };
            let probe_name = ["data", "close_session_packet", "data_with_A", "fdt_with_A"][probe];
            let wit = json!({"listen": listen_name, "adds": adds, "removes": removes, "probe": probe_name, "tsi": tsi});
            let r = util::guarded(|| {
                let evs: Rc<RefCell<Vec<(usize, LEv)>>> = Rc::new(RefCell::new(vec![]));
                let call = Rc::new(RefCell::new(0usize));
                let (b, log) = MonBuilder::new(Script::default());
                let mut rx = MultiReceiver::new(b, Some(RxConfig { object_timeout: None, ..Default::default() }), true);
                rx.add_listener(RecListener { log: evs.clone(), call: call.clone() });
                let now = util::at(1000);
                for _ in 0..adds {
                    if kind == 2 { rx.add_listen_all_tsi(listen_ep.clone()); } else { rx.add_listen_tsi(listen_ep.clone(), tsi); }
                }
                // open the session: FDT + first object packet
                for p in pkts.iter().take(2) {
                    let _ = rx.push(&src, p, now);
                }
                let opened = evs.borrow().iter().filter(|e| matches!(e.1, LEv::Open(..))).count();
                for _ in 0..removes {
                    if kind == 2 { rx.remove_listen_all_tsi(&listen_ep); } else { rx.remove_listen_tsi(&listen_ep, tsi); }
                }
                let before = (evs.borrow().len(), log.borrow().events.len());
                let set_a = |b: &Vec<u8>| {
                    let mut x = b.clone();
                    x[1] |= 0x02; // A flag (RFC 5651: second byte, bit value 2)
                    x
                };
                match probe {
                    0 => for p in pkts.iter().skip(2) { let _ = rx.push(&src, p, now); },
                    1 => { let _ = rx.push(&src, &flute::verif::new_alc_pkt_close_session(&0u128, tsi), now); }
                    2 => { let _ = rx.push(&src, &set_a(&pkts[2]), now); }
                    _ => { let _ = rx.push(&src, &set_a(&pkts[0]), now); }
                }
                let after = (evs.borrow().len(), log.borrow().events.len());
                (opened, before, after)
            });
            match r {
                Err(p) => cr.violations.push(Violation::new("panic", format!("{} @ {}", p.msg, p.short_loc())).with("site", p.file()).witness(wit)),
                Ok((opened, before, after)) => {
                    if opened != 1 {
                        cr.inconclusive = Some(format!("session not opened once ({}) in the set-up phase", opened));
                        return cr;
                    }
                    let processed = after != before;
                    cr.count("existing_session_probes", 1);
                    if processed != want {
                        cr.violations.push(Violation::new("filter_decision_existing_session", format!(
                            "session open, then {} add(s) / {} remove(s) of the {} entry: a {} probe of that session is {} (listener events {} -> {}, writer events {} -> {}) but the reference filter says {}",
                            adds, removes, wit["listen"], wit["probe"], if processed { "processed" } else { "dropped" }, before.0, after.0, before.1, after.1, if want { "processed" } else { "dropped" }))
                            .with("processed", processed).with("probe", wit["probe"].as_str().unwrap_or("")).with("listen", wit["listen"].as_str().unwrap_or(""))
                            .witness(wit.clone()));
                    }
                    cr.shape = Some(util::fnv(&format!("fx{}", i)));
                    cr.states = vec![util::fnv(&format!("fx|{}|{}", want, processed))];
                    if i % 29 == 0 {
                        cr.sample = Some(json!({"case": wit, "expected_processed": want, "processed": processed}));
                    }
                }
            }
            cr
        }));
        // ------------------------------------------------------------ several listeners, registered and removed in any order
        // One listener is registered first and never removed (the reference; its own event sequence is judged by the
        // automaton of listener_scripts). Up to five others come and go at random calls, not last-in-first-out. What a
        // listener registered during calls [a, r) sees must be exactly what the reference saw during those calls - a
        // registration must never silence or replace another listener.
        let nreg = ctx.tier.pick(3000usize, 100_000);
        gens.push(Gen::new("listener_registration", nreg, move |ctx, i| {
            let mut rng = Rng::keyed(ctx.seed, "C18reg", 0, i as u64);
            let mut cr = CaseResult::default();
            let nsess = rng.range(1, 4) as usize;
            let sess: Vec<(UDPEndpoint, u64, Vec<Vec<u8>>)> = (0..nsess).map(|k| (ep(k % 4), 1 + (k as u64 / 2), mini_session(1 + (k as u64 / 2), Fec::NoCode, 40, 9))).collect();
            let steps = rng.range(8, 40) as usize;
            // one case in five: sessions also end by EXPIRY (2 ms timeout, cleanup() after a sleep of 25 ms, at most three
            // times) - every registered listener must be told, not only one of them
            let with_timeout = i % 5 == 0;
            let r = util::guarded(|| {
                let call = Rc::new(RefCell::new(0usize));
                let (b, _wl) = MonBuilder::new(Script::default());
                let mut rx = MultiReceiver::new(b, Some(RxConfig { object_timeout: None, session_timeout: if with_timeout { Some(Duration::from_millis(2)) } else { None }, ..Default::default() }), false);
                let mut sleeps = 0;
                let ref_log: Rc<RefCell<Vec<(usize, LEv)>>> = Rc::new(RefCell::new(vec![]));
                rx.add_listener(RecListener { log: ref_log.clone(), call: call.clone() });
                // (id returned, log, first call seen, first call no longer seen)
                let mut regs: Vec<(u64, Rc<RefCell<Vec<(usize, LEv)>>>, usize, Option<usize>)> = vec![];
                let mut ops: Vec<String> = vec![];
                let mut next_pkt = vec![0usize; nsess];
                for c in 0..steps {
                    *call.borrow_mut() = c;
                    let live: Vec<usize> = regs.iter().enumerate().filter(|(_, r)| r.3.is_none()).map(|(k, _)| k).collect();
                    match rng.below(10) {
                        0 | 1 if live.len() < 5 => {
                            let log: Rc<RefCell<Vec<(usize, LEv)>>> = Rc::new(RefCell::new(vec![]));
                            let id = rx.add_listener(RecListener { log: log.clone(), call: call.clone() });
                            ops.push(format!("add_listener -> {}", id));
                            regs.push((id, log, c + 1, None));
                        }
                        2 if !live.is_empty() => {
                            let k = live[rng.below(live.len() as u64) as usize];
                            rx.remove_listener(regs[k].0);
                            ops.push(format!("remove_listener({})", regs[k].0));
                            regs[k].3 = Some(c);
                        }
                        3 => {
                            let s = rng.below(nsess as u64) as usize;
                            let cs = flute::verif::new_alc_pkt_close_session(&0u128, sess[s].1);
                            let _ = rx.push(&sess[s].0, &cs, util::at(1000));
                            ops.push(format!("close-session packet {}", s));
                        }
                        4 if with_timeout && sleeps < 3 => {
                            sleeps += 1;
                            std::thread::sleep(Duration::from_millis(25));
                            rx.cleanup(util::at(2000));
                            ops.push("sleep 25 ms + cleanup".into());
                        }
                        _ => {
                            let s = rng.below(nsess as u64) as usize;
                            let k = next_pkt[s] % sess[s].2.len();
                            next_pkt[s] += 1;
                            let _ = rx.push(&sess[s].0, &sess[s].2[k], util::at(1000));
                            ops.push(format!("data packet of session {}", s));
                        }
                    }
                }
                *call.borrow_mut() = steps;
                ops.push("drop".into());
                drop(rx);
                let reference = ref_log.borrow().clone();
                let others: Vec<(u64, Vec<(usize, LEv)>, usize, Option<usize>)> = regs.iter().map(|r| (r.0, r.1.borrow().clone(), r.2, r.3)).collect();
                (reference, others, ops)
            });
            let (reference, others, ops) = match r {
                Ok(x) => x,
                Err(p) => {
                    cr.violations.push(Violation::new("panic", format!("{} @ {}", p.msg, p.short_loc())).with("site", p.file()));
                    return cr;
                }
            };
            let ids: Vec<u64> = others.iter().map(|o| o.0).collect();
            for (k, (id, got, from, until)) in others.iter().enumerate() {
                let want: Vec<&(usize, LEv)> = reference.iter().filter(|(c, _)| *c >= *from && until.map(|u| *c < u).unwrap_or(true)).collect();
                let got_r: Vec<&(usize, LEv)> = got.iter().collect();
                if want != got_r {
                    cr.violations.push(Violation::new("listener_events_differ", format!(
                        "listener #{} (id {}, registered during calls [{}, {})) saw {} event(s), the listener registered throughout saw {} during those calls; ids handed out: {:?}",
                        k, id, from, until.map(|u| u.to_string()).unwrap_or("end".into()), got.len(), want.len(), ids))
                        .with("missing", got.len() < want.len()).with("duplicate_id", ids.iter().filter(|x| *x == id).count() > 1)
                        .witness(json!({"calls": ops, "reference_events": format!("{:?}", reference), "listener_events": format!("{:?}", got), "ids": ids})));
                    break;
                }
            }
            cr.count("listener_events", reference.len() as u64 + others.iter().map(|o| o.1.len() as u64).sum::<u64>());
            cr.count("listeners_registered", 1 + others.len() as u64);
            if !reference.is_empty() && !others.is_empty() {
                cr.shape = Some(util::fnv(&format!("reg|{}|{}|{}", nsess, others.len(), others.iter().filter(|o| o.3.is_some()).count())));
            }
            cr.states = vec![util::fnv(&format!("reg{}", others.len()))];
            if i % 499 == 0 {
                cr.sample = Some(json!({"calls": ops, "listeners": 1 + others.len(), "reference_events": reference.len()}));
            }
            cr
        }));
        // ------------------------------------------------------------ listeners
        let nl = ctx.tier.pick(3000usize, 80_000);
        gens.push(Gen::new("listener_scripts", nl, move |ctx, i| {
            let mut rng = Rng::keyed(ctx.seed, "C18l", 0, i as u64);
            let mut cr = CaseResult::default();
            let nsess = rng.range(1, 4) as usize;
            let sess: Vec<(UDPEndpoint, u64, Vec<Vec<u8>>)> = (0..nsess).map(|k| (ep(k % 4), 1 + (k as u64 / 2), mini_session(1 + (k as u64 / 2), Fec::NoCode, 40, 9))).collect();
            let timeout_ms = 3u64;
            let with_timeout = rng.chance(1, 2);
            let steps = rng.range(5, 40) as usize;
            let r = util::guarded(|| {
                let log: Rc<RefCell<Vec<(usize, LEv)>>> = Rc::new(RefCell::new(vec![]));
                let call = Rc::new(RefCell::new(0usize));
                let (b, _wl) = MonBuilder::new(Script::default());
                let mut rx = MultiReceiver::new(b, Some(RxConfig { object_timeout: None, session_timeout: if with_timeout { Some(Duration::from_millis(timeout_ms)) } else { None }, ..Default::default() }), false);
                rx.add_listener(RecListener { log: log.clone(), call: call.clone() });
                // calls: (kind, session) ; kind 0 data, 1 close-session pkt, 2 cleanup after long sleep, 3 cleanup quick, 4 drop
                let mut calls: Vec<(u8, usize)> = vec![];
                let mut next_pkt = vec![0usize; nsess];
                for _ in 0..steps {
                    let s = rng.below(nsess as u64) as usize;
                    let kind = match rng.below(10) {
                        0..=5 => 0u8,
                        6 | 7 => 1,
                        8 => 2,
                        _ => 3,
                    };
                    *call.borrow_mut() = calls.len();
                    calls.push((kind, s));
                    match kind {
                        0 => {
                            let k = next_pkt[s] % sess[s].2.len();
                            next_pkt[s] += 1;
                            let _ = rx.push(&sess[s].0, &sess[s].2[k], util::at(1000));
                        }
                        1 => {
                            let cs = flute::verif::new_alc_pkt_close_session(&0u128, sess[s].1);
                            let _ = rx.push(&sess[s].0, &cs, util::at(1000));
                        }
                        2 => {
                            if with_timeout {
                                std::thread::sleep(Duration::from_millis(timeout_ms * 10 + 5));
                            }
                            rx.cleanup(util::at(2000));
                        }
                        _ => rx.cleanup(util::at(2000)),
                    }
                }
                *call.borrow_mut() = calls.len();
                calls.push((4, 0));
                drop(rx);
                let l = log.borrow().clone();
                (calls, l)
            });
            let (calls, events) = match r {
                Ok(x) => x,
                Err(p) => {
                    cr.violations.push(Violation::new("panic", format!("{} @ {}", p.msg, p.short_loc())).with("site", p.file()));
                    return cr;
                }
            };
            // automaton per session
            let key = |e: &str, t: u64| format!("{}#{}", e, t);
            let mut open: BTreeMap<String, bool> = BTreeMap::new();
            let wit = json!({"sessions": sess.iter().map(|s| format!("{} tsi {}", epname(&s.0), s.1)).collect::<Vec<_>>(), "calls": calls, "events": format!("{:?}", events), "session_timeout_ms": if with_timeout { Some(timeout_ms) } else { None }});
            let mut ev_iter = events.iter().peekable();
            for (ci, (kind, s)) in calls.iter().enumerate() {
                let this_key = key(&epname(&sess[*s].0), sess[*s].1);
                let mut evs_here: Vec<&LEv> = vec![];
                while let Some((c, e)) = ev_iter.peek() {
                    if *c == ci {
                        evs_here.push(e);
                        ev_iter.next();
                    } else {
                        break;
                    }
                }
                for e in &evs_here {
                    match e {
                        LEv::Open(en, t) => {
                            let k = key(en, *t);
                            if *kind != 0 || k != this_key {
                                cr.violations.push(Violation::new("open_outside_creation", format!("on_session_open({}) raised during call {:?}", k, calls[ci])).with("call_kind", *kind as u64).witness(wit.clone()));
                            }
                            if open.get(&k).copied().unwrap_or(false) {
                                cr.violations.push(Violation::new("open_while_open", format!("on_session_open({}) although the listener never saw the previous instance of that session close (call #{})", k, ci))
                                    .with("call_kind", *kind as u64).with("with_timeout", with_timeout).witness(wit.clone()));
                            }
                            open.insert(k, true);
                        }
                        LEv::Close(en, t) => {
                            let k = key(en, *t);
                            let legal_call = match kind {
                                1 => k == this_key,
                                2 | 3 | 4 => true,
                                _ => false,
                            };
                            if !legal_call {
                                cr.violations.push(Violation::new("close_outside_end", format!("on_session_closed({}) raised during call {:?}", k, calls[ci])).with("call_kind", *kind as u64).witness(wit.clone()));
                            }
                            if !open.get(&k).copied().unwrap_or(false) {
                                cr.violations.push(Violation::new("close_without_open", format!("on_session_closed({}) without a preceding open (call #{})", k, ci)).with("call_kind", *kind as u64).witness(wit.clone()));
                            }
                            open.insert(k, false);
                        }
                    }
                }
                // obligations of this call
                match kind {
                    0 => {
                        // a data packet for a session the listener believes closed must open it
                        // (opens are checked above; a missing open shows as close_without_open later)
                    }
                    1 => {
                        // close-session packet: present => exactly one close; absent => nothing
                        let n_close = evs_here.iter().filter(|e| matches!(e, LEv::Close(..))).count();
                        if n_close > 1 {
                            cr.violations.push(Violation::new("double_close", format!("{} close events for one close-session packet", n_close)).witness(wit.clone()));
                        }
                    }
                    2 => {
                        if with_timeout {
                            // long sleep: every session must be gone, each with its close
                            for (k, o) in open.iter() {
                                if *o {
                                    cr.violations.push(Violation::new("expired_session_without_close", format!("session {} still open for the listener after a sleep of 10x the session timeout and a cleanup", k)).witness(wit.clone()));
                                }
                            }
                        }
                    }
                    4 => {
                        for (k, o) in open.iter() {
                            if *o {
                                cr.violations.push(Violation::new("drop_without_close", format!("receiver dropped: session {} got no on_session_closed", k)).witness(wit.clone()));
                            }
                        }
                    }
                    _ => {}
                }
            }
            cr.count("listener_events", events.len() as u64);
            cr.count("calls", calls.len() as u64);
            if !events.is_empty() {
                cr.shape = Some(util::fnv(&format!("{}|{}|{}|{}", nsess, with_timeout, steps / 5, events.len().min(12))));
            }
            cr.states = vec![util::fnv(&format!("{}", events.len().min(20)))];
            if i % 211 == 0 {
                cr.sample = Some(json!({"sessions": nsess, "calls": calls.len(), "events": format!("{:?}", events.iter().take(8).collect::<Vec<_>>())}));
            }
            limit(&mut cr.violations, 2);
            cr
        }));
        // ------------------------------------------------------------ expiry race stress
        let nr = ctx.tier.pick(8usize, 64);
        gens.push(Gen::new("expiry_race", nr, move |ctx, i| {
            let mut cr = CaseResult::default();
            let mut rng = Rng::keyed(ctx.seed, "C18r", 0, i as u64);
            let pkt = mini_session(1, Fec::NoCode, 10, 1)[0].clone();
            let timeout = Duration::from_micros(1500);
            let r = util::guarded(|| {
                let log: Rc<RefCell<Vec<(usize, LEv)>>> = Rc::new(RefCell::new(vec![]));
                let call = Rc::new(RefCell::new(0usize));
                let (b, _wl) = MonBuilder::new(Script { keep_data: 0, ..Default::default() });
                let mut rx = MultiReceiver::new(b, Some(RxConfig { object_timeout: None, session_timeout: Some(timeout), ..Default::default() }), false);
                rx.add_listener(RecListener { log: log.clone(), call: call.clone() });
                let n = 300usize;
                let eps: Vec<UDPEndpoint> = (0..n).map(|k| UDPEndpoint::new(None, format!("224.1.{}.{}", k / 250, k % 250), 4000)).collect();
                let mut cleanups = 0u64;
                let t_end = std::time::Instant::now() + Duration::from_millis(400);
                while std::time::Instant::now() < t_end {
                    // touch a random subset so that last activities are staggered around the timeout
                    for _ in 0..20 {
                        let k = rng.below(n as u64) as usize;
                        let _ = rx.push(&eps[k], &pkt, util::at(1000));
                    }
                    for _ in 0..30 {
                        rx.cleanup(util::at(2000));
                        cleanups += 1;
                    }
                }
                drop(rx);
                let l = log.borrow().clone();
                (l, cleanups)
            });
            match r {
                Ok((events, cleanups)) => {
                    let mut open: BTreeMap<String, bool> = BTreeMap::new();
                    let (mut no, mut nc) = (0u64, 0u64);
                    for (_, e) in &events {
                        match e {
                            LEv::Open(en, t) => {
                                no += 1;
                                let k = format!("{}#{}", en, t);
                                if open.get(&k).copied().unwrap_or(false) {
                                    cr.violations.push(Violation::new("open_while_open", format!("expiry stress: session {} re-opened although the listener never saw it close: a session expired and was removed without on_session_closed", k))
                                        .with("stress", true).witness(json!({"sessions": 300, "timeout_us": 1500, "cleanups": cleanups})));
                                    break;
                                }
                                open.insert(k, true);
                            }
                            LEv::Close(en, t) => {
                                nc += 1;
                                let k = format!("{}#{}", en, t);
                                if !open.get(&k).copied().unwrap_or(false) {
                                    cr.violations.push(Violation::new("close_without_open", format!("expiry stress: close without open for {}", k)).with("stress", true));
                                    break;
                                }
                                open.insert(k, false);
                            }
                        }
                    }
                    if open.values().any(|o| *o) && cr.violations.is_empty() {
                        cr.violations.push(Violation::new("drop_without_close", "expiry stress: a session was still open for the listener after the receiver was dropped".to_string()).with("stress", true));
                    }
                    cr.count("listener_events", events.len() as u64);
                    cr.count("cleanup_calls", cleanups);
                    if no > 0 {
                        cr.shape = Some(util::fnv(&format!("race{}", i)));
                    }
                    cr.sample = Some(json!({"sessions": 300, "timeout_us": 1500, "opens": no, "closes": nc, "cleanups": cleanups}));
                }
                Err(p) => cr.violations.push(Violation::new("panic", format!("{} @ {}", p.msg, p.short_loc())).with("site", p.file())),
            }
            cr
        }));
        gens
    });
}
