//! C01 - clean channel: each accepted object arrives byte-exact, once, with
//! its metadata; objects the wire format cannot carry are refused; the
//! filesystem writer stores the same bytes under the destination directory.
use serde_json::{json, Value};
use std::time::SystemTime;
use vh::gen::{self, GenOpts};
use vh::mwriter::WState;
use vh::oracle::{check_meta, obj_facts};
use vh::report::*;
use vh::scenario::*;
use vh::session::*;
use vh::util::{self, Rng};

/// Writer for objects larger than memory: checks every byte it is handed against the offset pattern of
/// `PatternReader` and keeps counters only.
#[derive(Default, Debug)]
struct PatState {
    writers: u64,
    opened: u64,
    bytes: u64,
    bad_at: Option<u64>,
    complete: u64,
    failed: u64,
    content_length: Option<usize>,
    sbn_backwards: bool,
    last_sbn: Option<u32>,
}
struct PatBuilder(std::rc::Rc<std::cell::RefCell<PatState>>);
struct PatWriter(std::rc::Rc<std::cell::RefCell<PatState>>);
impl flute::receiver::writer::ObjectWriterBuilder for PatBuilder {
    fn new_object_writer(&self, _e: &flute::core::UDPEndpoint, _tsi: &u64, _toi: &u128, m: &flute::receiver::writer::ObjectMetadata, _now: SystemTime) -> flute::receiver::writer::ObjectWriterBuilderResult {
        let mut s = self.0.borrow_mut();
        s.writers += 1;
        s.content_length = m.content_length;
        flute::receiver::writer::ObjectWriterBuilderResult::StoreObject(Box::new(PatWriter(self.0.clone())))
    }
    fn update_cache_control(&self, _e: &flute::core::UDPEndpoint, _tsi: &u64, _toi: &u128, _m: &flute::receiver::writer::ObjectMetadata, _now: SystemTime) {}
    fn fdt_received(&self, _e: &flute::core::UDPEndpoint, _tsi: &u64, _xml: &str, _exp: SystemTime, _m: &flute::receiver::writer::ObjectMetadata, _d: std::time::Duration, _now: SystemTime, _ext: Option<SystemTime>) {}
}
impl flute::receiver::writer::ObjectWriter for PatWriter {
    fn open(&self, _now: SystemTime) -> flute::error::Result<()> {
        self.0.borrow_mut().opened += 1;
        Ok(())
    }
    fn write(&self, sbn: u32, data: &[u8], _now: SystemTime) -> flute::error::Result<()> {
        let mut s = self.0.borrow_mut();
        if s.last_sbn.map(|l| sbn < l).unwrap_or(false) {
            s.sbn_backwards = true;
        }
        s.last_sbn = Some(sbn);
        if s.bad_at.is_none() && !pattern_matches(s.bytes, data) {
            s.bad_at = Some(s.bytes);
        }
        s.bytes += data.len() as u64;
        Ok(())
    }
    fn complete(&self, _now: SystemTime) {
        self.0.borrow_mut().complete += 1;
    }
    fn error(&self, _now: SystemTime) {
        self.0.borrow_mut().failed += 1;
    }
    fn interrupted(&self, _now: SystemTime) {
        self.0.borrow_mut().failed += 1;
    }
    fn enable_md5_check(&self) -> bool {
        false
    }
}

fn add_facts(mut v: Violation, facts: &serde_json::Map<String, Value>) -> Violation {
    for (k, val) in facts {
        v.sig.insert(k.clone(), val.clone());
    }
    v
}

/// Oracle over (emitted stream, receiver log).
fn judge(em: &Emitted, rx: &Received, receive_once: bool, out: &mut Vec<Violation>) -> Value {
    let first_publish = em.stream.first().map(|p| p.t).unwrap_or(util::t0());
    let last_publish = em.end_time;
    let mut per_obj = vec![];
    let wit = |extra: Value| json!({"session": em.json(), "detail": extra, "stream_head": em.hex_stream(6)});
    for (i, obj) in em.objs.iter().enumerate() {
        let oti = em.oti_of(i).clone();
        let toi = match em.tois[i] {
            Some(t) => t,
            None => {
                per_obj.push(json!({"obj": i, "refused": em.add_err[i]}));
                continue;
            }
        };
        let tl = em.transfer_len[i].unwrap_or(0);
        let facts = obj_facts(obj, &oti, &em.spec, tl);
        // must have been refused?
        if tl as u128 > oti.max_transfer_length() {
            out.push(add_facts(Violation::new("not_refused", format!(
                "object {} with transfer length {} exceeds the scheme maximum {} but was accepted",
                i, tl, oti.max_transfer_length())), &facts).witness(wit(json!({"obj": i}))));
            continue;
        }
        let ws = rx.log.for_toi(toi);
        let completes: Vec<_> = ws.iter().filter(|w| w.state == WState::Complete).collect();
        let want = if receive_once { 1 } else { obj.max_transfer_count as usize };
        let traces: Vec<String> = ws.iter().map(|w| rx.log.abstract_trace_of(w.wid)).collect();
        if completes.len() != want {
            out.push(add_facts(Violation::new("deliver", format!(
                "object {} (toi {}, {} bytes): {} complete copies delivered, expected {}; writers: {:?}",
                i, toi, obj.data.len(), completes.len(), want, traces)), &facts)
                .with("copies", completes.len() as u64)
                .witness(wit(json!({"obj": i, "writers": traces, "emitted_pkts_of_toi": em.stream.iter().filter(|p| p.toi() == toi).count()}))));
        }
        for w in &completes {
            if w.data != obj.data {
                let pos = w.data.iter().zip(obj.data.iter()).position(|(a, b)| a != b).unwrap_or(w.data.len().min(obj.data.len()));
                out.push(add_facts(Violation::new("bytes", format!(
                    "object {} (toi {}): complete copy differs from the original ({} vs {} bytes, first difference at {})",
                    i, toi, w.data.len(), obj.data.len(), pos)), &facts).witness(wit(json!({"obj": i}))));
            }
            for (field, detail) in check_meta(w, obj, &em.spec, tl, first_publish, last_publish) {
                out.push(add_facts(Violation::new("metadata", format!("object {} (toi {}): {} {}", i, toi, field, detail)), &facts)
                    .with("field", field).witness(wit(json!({"obj": i}))));
            }
        }
        for w in &ws {
            if matches!(w.state, WState::Error | WState::Interrupted | WState::OpenFailed) {
                out.push(add_facts(Violation::new("spurious_failure", format!(
                    "object {} (toi {}): a writer ended in {:?} on a clean channel; writers: {:?}", i, toi, w.state, traces)), &facts)
                    .with("state", format!("{:?}", w.state)).witness(wit(json!({"obj": i, "writers": traces}))));
            } else if !w.state.is_terminal() && w.state != WState::Complete {
                out.push(add_facts(Violation::new("unterminated_writer", format!(
                    "object {} (toi {}): writer left in {:?} after the receiver was dropped", i, toi, w.state)), &facts)
                    .witness(wit(json!({"obj": i, "writers": traces}))));
            }
        }
        per_obj.push(json!({"obj": i, "toi": toi.to_string(), "len": obj.data.len(), "transfer_len": tl,
            "writers": traces, "fec": oti.fec.name()}));
    }
    // refused objects never appear on the wire
    let known: Vec<u128> = em.tois.iter().flatten().copied().collect();
    for p in &em.stream {
        if p.toi() != 0 && !known.contains(&p.toi()) {
            out.push(Violation::new("unknown_toi_on_wire", format!("packet with TOI {} that add_object never returned", p.toi())).witness(wit(json!(null))));
            break;
        }
    }
    for w in &rx.log.writers {
        if !known.contains(&w.toi) {
            out.push(Violation::new("unknown_toi_delivered", format!("writer created for TOI {} that was never added", w.toi)).witness(wit(json!(null))));
        }
    }
    for m in rx.log.illegal() {
        out.push(Violation::new("writer_protocol", m).witness(wit(json!(null))));
    }
    json!(per_obj)
}

fn run_session(spec: &SenderSpec, objs: &[ObjSpec], receive_once: bool, cr: &mut CaseResult) {
    let wit = json!({"sender": spec.json(), "objects": objs.iter().map(|o| o.json()).collect::<Vec<_>>()});
    let r = util::guarded(|| {
        let em = emit(spec, objs, &EmitOpts::default())?;
        let mut o = RxOpts::default();
        o.config.object_receive_once = receive_once;
        let rx = receive_stream(&em, &o);
        Ok::<_, String>((em, rx))
    });
    let fec0 = objs.first().map(|o| o.oti.as_ref().unwrap_or(&spec.oti).fec.name()).unwrap_or("-");
    match r {
        Err(p) => {
            let mut v = if p.is_step_budget() {
                Violation::new("hang", format!("step budget exhausted at {} (logical hang)", p.step_site())).with("site", p.step_site())
            } else {
                Violation::new("panic", format!("panicked: {} @ {}", p.msg, p.short_loc())).with("site", p.file())
            };
            v = v.with("fec", fec0).with("fdt_fec", spec.oti.fec.name())
                .with("any_cenc", objs.iter().any(|o| o.cenc != CencSpec::Null) || spec.fdt_cenc != CencSpec::Null)
                .with("any_empty", objs.iter().any(|o| o.data.is_empty()));
            cr.violations.push(v.witness(wit));
        }
        Ok(Err(e)) => {
            if e.starts_with("publish:") {
                // the session's default OTI cannot carry this FDT: publish() told the caller,
                // nothing was sent (precondition of the property, counted, not judged)
                cr.count("sessions_refused_at_publish", 1);
            } else {
                cr.violations.push(Violation::new("emit_error", format!("sender run failed: {}", e)).with("fec", fec0).witness(wit));
            }
        }
        Ok(Ok((em, rx))) => {
            if !em.finished && em.tois.iter().any(|t| t.is_some()) {
                cr.violations.push(Violation::new("never_finishes", "sender still reports objects after the horizon (40 virtual seconds of draining)".to_string())
                    .with("fec", fec0).witness(json!({"session": em.json()})));
            }
            let s = judge(&em, &rx, receive_once, &mut cr.violations);
            let nobjpk = em.stream.iter().filter(|p| p.toi() != 0).count() as u64;
            cr.count("packets", em.stream.len() as u64);
            cr.count("object_packets", nobjpk);
            cr.count("writer_callbacks", rx.log.events.len() as u64);
            cr.count("objects", em.objs.len() as u64);
            let mut shape = String::new();
            for (i, o) in em.objs.iter().enumerate() {
                shape.push_str(&obj_shape(o, em.oti_of(i), em.transfer_len[i].unwrap_or(0)));
                shape.push(';');
                cr.states.push(util::fnv(&format!("{}|{}", em.oti_of(i).fec.name(), rx.log.for_toi(em.tois[i].unwrap_or(0)).iter().map(|w| rx.log.abstract_trace_of(w.wid)).collect::<Vec<_>>().join("/"))));
            }
            shape.push_str(&format!("F{}|il{}|q{}|ro{}", em.spec.full_fdt, em.spec.interleave, em.spec.queues.len(), receive_once));
            if nobjpk > 0 || !rx.log.writers.is_empty() {
                cr.shape = Some(util::fnv(&shape));
            }
            cr.sample = Some(json!({"sender": em.spec.json(), "objects": s, "packets": em.stream.len()}));
        }
    }
    limit(&mut cr.violations, 6);
}

fn main() {
    let prop = Property {
        id: "C01",
        level: "exploration",
        rule: "sessions drawn from a boundary lattice (object length around symbol/block/a_large-a_small boundaries x 5 FEC schemes x E x B x parity x cenc x in-band/FDT-only FTI+CENC x FDT mode x interleave x multiplex x queues x transfer counts x sources) plus a systematic small grid, directed maximum-length cases, No-Code objects above 4 GiB whose content is a function of the offset (checked byte by byte at the writer) and sessions whose objects are added in waves while the sender runs (by packet index or by time, also after the sender ran empty; several FDT instances per session); every emitted packet is pushed in order into a receiver whose writer is the monitoring writer; oracle = exactly the expected number of Complete writers per accepted object with byte-equal data and field-equal metadata, no failed writer, nothing for refused objects; non-trivial = at least one object packet or writer event observed; distinct = hash of the discretised session shape incl. the resulting partition",
        assumptions: vec![
            "clean channel, order preserved; receiver Config: no object timeout".into(),
            "cache directive compared with 1 s tolerance (NTP seconds on the wire); Expires(duration) is relative to any publication instant of the run".into(),
            "an in-range object that add_object refuses is not judged (the statement quantifies over accepted objects)".into(),
        ],
        exhaustive: false,
        budget_quick_s: 150,
        budget_thorough_s: 1500,
    };
    run_property(prop, |ctx| {
        let mut gens = vec![];
        // ---- systematic grid: one object, every scheme, tiny E/B, the whole length lattice
        let mut grid: Vec<(Fec, u16, u32, u32, bool, CencSpec, u64)> = vec![];
        for fec in ALL_FEC {
            for e in [1u16, 4, 16] {
                for b in [1u32, 2, 4, 5] {
                    let parities: Vec<u32> = match fec {
                        Fec::NoCode => vec![0],
                        _ => vec![1, 2],
                    };
                    for parity in parities {
                        for ib in [true, false] {
                            for l in gen::len_lattice(e as u64, b as u64) {
                                if l > 40 * e as u64 * b as u64 {
                                    continue;
                                }
                                grid.push((fec, e, b, parity, ib, CencSpec::Null, l));
                            }
                        }
                    }
                }
            }
        }
        let n_grid = grid.len();
        gens.push(Gen::new("grid", n_grid, move |ctx, i| {
            let (fec, e, b, parity, ib, cenc, l) = grid[i].clone();
            let mut rng = Rng::keyed(ctx.seed, "C01grid", 0, i as u64);
            let mut oti = OtiSpec::new(fec, e, b, parity);
            oti.inband_fti = ib;
            // the FDT travels with a roomy No-Code OTI; the object overrides it
            let mut spec = SenderSpec::new(OtiSpec::new(Fec::NoCode, 1024, 64, 0));
            spec.interleave = 1 + (i % 4) as u8;
            spec.full_fdt = i % 2 == 0;
            let mut obj = ObjSpec::new(gen_bytes(&mut rng, l as usize), "file:///grid/o.bin");
            obj.cenc = cenc;
            obj.oti = Some(oti);
            let mut cr = CaseResult::default();
            run_session(&spec, &[obj], true, &mut cr);
            cr
        }));
        // ---- cenc grid: compressed objects cut into tiny blocks
        let mut cgrid: Vec<(Fec, u16, u32, CencSpec, bool, u64)> = vec![];
        for fec in [Fec::NoCode, Fec::Rs28, Fec::RaptorQ] {
            for (e, b) in [(1u16, 1u32), (1, 3), (2, 2), (4, 4), (16, 2), (64, 3), (1400, 64)] {
                for cenc in [CencSpec::Zlib, CencSpec::Deflate, CencSpec::Gzip] {
                    for inband_cenc in [true, false] {
                        for l in [0u64, 1, 5, 40, 300, 3000] {
                            cgrid.push((fec, e, b, cenc, inband_cenc, l));
                        }
                    }
                }
            }
        }
        let n_cgrid = cgrid.len();
        gens.push(Gen::new("cenc_grid", n_cgrid, move |ctx, i| {
            let (fec, e, b, cenc, ic, l) = cgrid[i].clone();
            let mut rng = Rng::keyed(ctx.seed, "C01cenc", 0, i as u64);
            let mut oti = OtiSpec::new(fec, e, b, if fec == Fec::NoCode { 0 } else { 1 });
            oti.inband_fti = i % 2 == 0;
            // the FDT travels uncompressed with a roomy No-Code OTI; the object overrides
            let spec = SenderSpec::new(OtiSpec::new(Fec::NoCode, 1024, 64, 0));
            let mut obj = ObjSpec::new(gen_bytes(&mut rng, l as usize), "file:///cenc/o.bin");
            obj.cenc = cenc;
            obj.inband_cenc = ic;
            obj.oti = Some(oti);
            let mut cr = CaseResult::default();
            run_session(&spec, &[obj], true, &mut cr);
            cr
        }));
        // ---- random lattice sessions (several objects, queues, transfers, sources)
        let n_rand = ctx.tier.pick(20_000usize, 1_500_000);
        gens.push(Gen::new("lattice", n_rand, move |ctx, i| {
            let mut rng = Rng::keyed(ctx.seed, "C01lat", 0, i as u64);
            let (spec, objs) = gen::gen_session(&mut rng, &GenOpts::default());
            let mut cr = CaseResult::default();
            run_session(&spec, &objs, true, &mut cr);
            cr
        }));
        // ---- objects added while the session runs (several waves, also after the sender ran empty): the receiver
        // sees several FDT instances, objects of earlier waves complete / leave while later ones start
        let n_stag = ctx.tier.pick(6000usize, 300_000);
        gens.push(Gen::new("staggered_additions", n_stag, move |ctx, i| {
            let mut rng = Rng::keyed(ctx.seed, "C01stag", 0, i as u64);
            let o = GenOpts { max_objects: 6, ..Default::default() };
            let (spec, objs) = gen::gen_session(&mut rng, &o);
            let mut cr = CaseResult::default();
            let mut script: Vec<(When, Op)> = vec![];
            let mut pk = 0usize;
            let mut t_ms = 0u64;
            let by_time = rng.chance(1, 2);
            for k in 0..objs.len() {
                let when = if k == 0 {
                    When::Start
                } else if by_time {
                    t_ms += *rng.pick(&[0u64, 100, 100, 300, 1000, 5000]);
                    When::TimeMs(t_ms)
                } else {
                    pk += rng.range(0, 30) as usize;
                    When::Packets(pk)
                };
                script.push((when.clone(), Op::Add(k)));
                if spec.full_fdt {
                    script.push((when, Op::Publish));
                }
            }
            let mut opts = ScriptOpts::every(100, 600);
            opts.drain = true;
            opts.max_packets = 60_000;
            let wit = json!({"sender": spec.json(), "objects": objs.iter().map(|o| o.json()).collect::<Vec<_>>(), "script": format!("{:?}", script)});
            let r = util::guarded(|| {
                let run = run_script(&spec, &objs, &script, &opts)?;
                let executed = run.ops.iter().filter(|o| matches!(o.op, Op::Add(_))).count();
                let publish_failed = run.ops.iter().any(|o| o.op == Op::Publish && !o.ok);
                let left = run.samples.last().map(|s| s.nb_objects).unwrap_or(0);
                let em = run.into_emitted();
                let mut ro = RxOpts::default();
                ro.config.object_receive_once = true;
                let rx = receive_stream(&em, &ro);
                Ok::<_, String>((em, rx, executed, publish_failed, left))
            });
            match r {
                Err(p) => {
                    let v = if p.is_step_budget() {
                        Violation::new("hang", format!("step budget exhausted at {} (logical hang)", p.step_site())).with("site", p.step_site())
                    } else {
                        Violation::new("panic", format!("panicked: {} @ {}", p.msg, p.short_loc())).with("site", p.file())
                    };
                    cr.violations.push(v.with("gen", "staggered").witness(wit));
                }
                Ok(Err(e)) => {
                    // the session's default OTI cannot carry the FDT at all
                    let _ = e;
                    cr.count("sessions_refused_at_publish", 1);
                }
                Ok(Ok((em, rx, executed, publish_failed, left))) => {
                    if publish_failed || executed < em.objs.len() || left > 0 {
                        // an FDT instance that the session OTI cannot carry (precondition), a wave that was never due,
                        // or a horizon too short: counted, not judged
                        cr.count("staggered_not_judged", 1);
                    } else {
                        let before = cr.violations.len();
                        let s = judge(&em, &rx, true, &mut cr.violations);
                        for v in cr.violations[before..].iter_mut() {
                            v.sig.insert("staggered".into(), json!(true));
                        }
                        let nobjpk = em.stream.iter().filter(|p| p.toi() != 0).count() as u64;
                        cr.count("packets", em.stream.len() as u64);
                        cr.count("object_packets", nobjpk);
                        cr.count("writer_callbacks", rx.log.events.len() as u64);
                        cr.count("objects", em.objs.len() as u64);
                        let fdt_instances: std::collections::BTreeSet<u32> = em.stream.iter().filter(|p| p.toi() == 0).filter_map(|p| p.dec.fdt.map(|f| f.1)).collect();
                        cr.count("fdt_instances_on_wire", fdt_instances.len() as u64);
                        let mut shape = String::from("stag|");
                        for (i, o) in em.objs.iter().enumerate() {
                            shape.push_str(&obj_shape(o, em.oti_of(i), em.transfer_len[i].unwrap_or(0)));
                            shape.push(';');
                        }
                        shape.push_str(&format!("F{}|q{}|t{}|i{}", em.spec.full_fdt, em.spec.queues.len(), by_time, fdt_instances.len()));
                        if nobjpk > 0 {
                            cr.shape = Some(util::fnv(&shape));
                        }
                        cr.states.push(util::fnv(&format!("stag|{}|{}", em.spec.full_fdt, fdt_instances.len().min(8))));
                        cr.sample = Some(json!({"sender": em.spec.json(), "objects": s, "packets": em.stream.len(), "fdt_instances": fdt_instances.len(), "script": format!("{:?}", script)}));
                    }
                }
            }
            limit(&mut cr.violations, 6);
            cr
        }));
        // ---- receive-once disabled: one copy per transfer
        let n_ro = ctx.tier.pick(4000usize, 60_000);
        gens.push(Gen::new("receive_once_off", n_ro, move |ctx, i| {
            let mut rng = Rng::keyed(ctx.seed, "C01ro", 0, i as u64);
            let o = GenOpts { transfers_max: 4, max_objects: 3, ..Default::default() };
            let (spec, mut objs) = gen::gen_session(&mut rng, &o);
            for ob in objs.iter_mut() {
                ob.max_transfer_count = rng.range(1, 4) as u32;
            }
            let mut cr = CaseResult::default();
            run_session(&spec, &objs, false, &mut cr);
            cr
        }));
        // ---- maximum transfer length: at flute's limit, one above, above the wire limit
        let mut maxcases: Vec<(OtiSpec, i64, CencSpec)> = vec![];
        for (fec, e, b) in [(Fec::Rs28, 1u16, 1u32), (Fec::Rs28, 2, 2), (Fec::RaptorQ, 4, 4), (Fec::RaptorQ, 1, 1), (Fec::NoCode, 1, 1), (Fec::Raptor, 1, 4)] {
            for d in [-1i64, 0, 1, 2] {
                let o = OtiSpec::new(fec, e, b, if fec == Fec::NoCode { 0 } else { 1 });
                maxcases.push((o, d, CencSpec::Null));
            }
            // content-encoded, incompressible data: the CONTENT length is below the maximum but the TRANSFER length
            // (content + 5..35 bytes of deflate / zlib / gzip framing) is at or above it - the limit applies to the latter
            for cenc in [CencSpec::Gzip, CencSpec::Zlib, CencSpec::Deflate] {
                for d in [-1i64, -4, -10, -40] {
                    let o = OtiSpec::new(fec, e, b, if fec == Fec::NoCode { 0 } else { 1 });
                    maxcases.push((o, d, cenc));
                }
            }
        }
        let n_max = maxcases.len();
        gens.push(Gen::new("max_length", n_max, move |ctx, i| {
            let (oti, d, cenc) = maxcases[i].clone();
            let mut rng = Rng::keyed(ctx.seed, "C01max", 0, i as u64);
            // flute's own limit is E*B*{65535,255,255,65535}; probe around it
            let flute_blocks: u64 = match oti.fec {
                Fec::NoCode | Fec::Raptor => 65535,
                _ => 255,
            };
            let l = (oti.e as u64 * oti.b as u64 * flute_blocks) as i64 + d;
            let spec = SenderSpec::new(OtiSpec::new(Fec::NoCode, 1024, 64, 0));
            let mut obj = ObjSpec::new(gen_bytes(&mut rng, l as usize), "file:///max/o.bin");
            obj.oti = Some(oti.clone());
            obj.cenc = cenc;
            let mut cr = CaseResult::default();
            let wit = json!({"oti": oti.json(), "L": l, "cenc": cenc.name()});
            let r = util::guarded(|| {
                let em = emit(&spec, &[obj.clone()], &EmitOpts { max_packets: 400_000, max_instants: 50, ..Default::default() })?;
                let rx = receive_stream(&em, &RxOpts::default());
                Ok::<_, String>((em, rx))
            });
            match r {
                Err(p) => cr.violations.push(Violation::new("panic", format!("{} @ {}", p.msg, p.short_loc())).with("site", p.file()).with("fec", oti.fec.name()).witness(wit)),
                Ok(Err(e)) => cr.violations.push(Violation::new("emit_error", e).with("fec", oti.fec.name()).witness(wit)),
                Ok(Ok((em, rx))) => {
                    let s = judge(&em, &rx, true, &mut cr.violations);
                    cr.count("packets", em.stream.len() as u64);
                    cr.shape = Some(util::fnv(&format!("max|{}|{}|{}|{}|{}", oti.fec.name(), oti.e, oti.b, d, cenc.name())));
                    cr.sample = Some(json!({"oti": oti.json(), "content_length": l, "cenc": cenc.name(), "transfer_length": em.transfer_len[0], "accepted": em.tois[0].is_some(), "outcome": s}));
                }
            }
            cr
        }));
        // ---- field maximum (2^48-1 / 2^40-1) with a sparse stream: accepted at max must not be judged,
        //      one above must be refused (nothing is transmitted: we only look at add_object)
        gens.push(Gen::new("field_max", ALL_FEC.len() * 3, move |_ctx, i| {
            let fec = ALL_FEC[i / 3];
            let d = [0i64, 1, 1 << 20][i % 3];
            let mut cr = CaseResult::default();
            let oti = match fec {
                Fec::NoCode => OtiSpec::new(fec, 65535, 65535, 0),
                Fec::Rs28 => OtiSpec::new(fec, 65535, 254, 1),
                Fec::Rs28Us => OtiSpec::new(fec, 65535, 65534, 1),
                Fec::RaptorQ => OtiSpec::new(fec, 65535, 65535, 1),
                Fec::Raptor => OtiSpec::new(fec, 65535, 65535, 1),
            };
            let l = (oti.max_transfer_length() as i128 + d as i128) as u64;
            let r = util::guarded(|| {
                let mut sender = SenderSpec::new(oti.clone()).sender()?;
                let desc = flute::sender::ObjectDesc::create_from_stream(
                    Box::new(SparseReader { len: l, pos: 0 }), "a/b", &url::Url::parse("file:///sparse").unwrap(), false, Default::default(),
                ).map_err(|e| format!("{:?}", e))?;
                Ok::<_, String>(sender.add_object(0, desc).is_ok())
            });
            match r {
                Ok(Ok(accepted)) => {
                    if accepted && l as u128 > oti.max_transfer_length() {
                        cr.violations.push(Violation::new("not_refused", format!("transfer length {} above the {}-scheme maximum {} accepted", l, oti.fec.name(), oti.max_transfer_length()))
                            .with("fec", oti.fec.name()).witness(json!({"oti": oti.json(), "L": l})));
                    }
                    cr.sample = Some(json!({"oti": oti.json(), "L": l, "accepted": accepted}));
                    cr.shape = Some(util::fnv(&format!("fm|{}|{}", fec.name(), d)));
                }
                Ok(Err(e)) => cr.inconclusive = Some(e),
                Err(p) => cr.violations.push(Violation::new("panic", format!("{} @ {}", p.msg, p.short_loc())).with("site", p.file()).with("fec", fec.name())),
            }
            cr
        }));
        // ---- objects larger than 4 GiB end to end (lengths, offsets and counters that do not fit 32 bits on either side):
        // a stream whose content is a function of the offset is sent with No-Code and pushed, packet by packet, into a
        // receiver whose writer checks every byte against that function and keeps counters only
        let mut huge: Vec<(u64, usize)> = vec![((1u64 << 32) + 3 * 64 * 65528 + 12345, usize::MAX), ((1u64 << 32) + 1, 1 << 20)];
        if ctx.tier == Tier::Thorough {
            huge.extend([((1u64 << 33) + 5, usize::MAX), ((1u64 << 32) - 1, usize::MAX), (3 * (1u64 << 31) + 777, 7 << 20)]);
        }
        let nh = huge.len();
        gens.push(Gen::new("huge_end_to_end", nh, move |_ctx, i| {
            let (l, chunk) = huge[i];
            let mut cr = CaseResult::default();
            let mut oti = OtiSpec::new(Fec::NoCode, 65528, 64, 0);
            oti.inband_fti = i % 2 == 0;
            let wit = json!({"oti": oti.json(), "L": l, "read_chunk": if chunk == usize::MAX { 0 } else { chunk }});
            let r = util::guarded(|| {
                let mut spec = SenderSpec::new(oti.clone());
                spec.interleave = 1 + (i % 3) as u8;
                let mut sender = spec.sender()?;
                let desc = flute::sender::ObjectDesc::create_from_stream(
                    Box::new(PatternReader { len: l, pos: 0, chunk }), "application/octet-stream", &url::Url::parse("file:///huge.bin").unwrap(), false, Default::default(),
                ).map_err(|e| format!("{:?}", e))?;
                sender.add_object(0, desc).map_err(|e| format!("add_object: {:?}", e))?;
                sender.publish(util::at(0)).map_err(|e| format!("publish: {:?}", e))?;
                let st = std::rc::Rc::new(std::cell::RefCell::new(PatState::default()));
                // source blocks are 4 MiB here and up to `interleave` of them are open at once: the receiver's budget for
                // decoded blocks (10 MB by default) is configured accordingly
                let cfg = flute::receiver::Config { object_max_cache_size: Some(256 << 20), ..Default::default() };
                let mut rx = flute::receiver::MultiReceiver::new(std::rc::Rc::new(PatBuilder(st.clone())), Some(cfg), false);
                let ep = spec.endpoint();
                let (mut n, mut errs, mut t_ms, mut idle) = (0u64, 0u64, 0u64, 0);
                let cap = l / 65528 + 64;
                while idle < 3 && n <= cap {
                    match sender.read(util::at(t_ms)) {
                        None => {
                            idle += 1;
                            t_ms += 100;
                        }
                        Some(b) => {
                            idle = 0;
                            n += 1;
                            if rx.push(&ep, &b, util::at(t_ms)).is_err() {
                                errs += 1;
                            }
                        }
                    }
                }
                drop(rx);
                let s = st.borrow();
                Ok::<_, String>((n, errs, format!("{:?}", *s), s.complete, s.failed, s.bytes, s.bad_at, s.content_length, s.writers, s.sbn_backwards))
            });
            match r {
                Err(p) => cr.violations.push(Violation::new(if p.is_step_budget() { "hang" } else { "panic" }, format!("{} @ {}", p.msg, p.short_loc())).with("site", if p.is_step_budget() { p.step_site() } else { p.file() }).with("gen", "huge_end_to_end").witness(wit)),
                Ok(Err(e)) => cr.inconclusive = Some(format!("huge_end_to_end: {}", e)),
                Ok(Ok((n, errs, dbg, complete, failed, bytes, bad_at, clen, writers, backwards))) => {
                    let ok = complete == 1 && failed == 0 && bytes == l && bad_at.is_none() && errs == 0 && writers == 1 && !backwards && clen == Some(l as usize);
                    if !ok {
                        cr.violations.push(Violation::new("huge_object_not_delivered", format!(
                            "No-Code object of {} bytes on a clean channel ({} packets, {} pushes refused): the writer saw {} (expected one writer, Content-Length {}, {} bytes matching the content at their offsets, one complete)",
                            l, n, errs, dbg, l, l))
                            .with("above_4gib", l >= 1 << 32).with("complete", complete).with("bytes_ok", bytes == l && bad_at.is_none()).witness(wit));
                    }
                    cr.count("packets", n);
                    cr.count("huge_bytes_checked_at_the_writer", bytes);
                    if n > 0 {
                        cr.shape = Some(util::fnv(&format!("huge|{}|{}", l, chunk)));
                    }
                    cr.states = vec![util::fnv(&format!("huge|{}", complete))];
                    cr.sample = Some(json!({"L": l, "packets": n, "writer": dbg}));
                }
            }
            cr
        }));
        // ---- filesystem writer: same bytes in the file named by the content location
        let n_fs = ctx.tier.pick(1500usize, 20_000);
        gens.push(Gen::new("fs_writer", n_fs, move |ctx, i| {
            let mut rng = Rng::keyed(ctx.seed, "C01fs", 0, i as u64);
            let o = GenOpts { max_objects: 3, fecs: vec![Fec::NoCode, Fec::Rs28, Fec::Rs28Us, Fec::RaptorQ], ..Default::default() };
            let (spec, mut objs) = gen::gen_session(&mut rng, &o);
            for (k, ob) in objs.iter_mut().enumerate() {
                ob.location = match rng.below(4) {
                    0 => format!("file:///f{}.bin", k),
                    1 => format!("file:///a/b/f{}.bin", k),
                    2 => format!("http://example.org/x/y/f{}.bin", k),
                    _ => format!("file:///sub%20dir/f{}.bin", k),
                };
            }
            let mut cr = CaseResult::default();
            let dest = sandbox_dir().join(format!("c01fs-{}-{}", std::process::id(), i));
            std::fs::create_dir_all(&dest).ok();
            // half of the objects replace a file that already exists under the same name and is LONGER than the
            // object (an earlier version of the same location): the file must hold exactly the new bytes afterwards
            let mut preexisting = 0u64;
            for ob in objs.iter() {
                if rng.chance(1, 2) {
                    let u = url::Url::parse(&ob.location).unwrap();
                    let rel = u.path().trim_start_matches('/').to_string();
                    let dec: String = url::form_urlencoded::parse(rel.replace('+', "%2B").as_bytes()).map(|(k, v)| format!("{}{}", k, v)).collect();
                    let old = vec![0xEEu8; ob.data.len() + rng.range(1, 5000) as usize];
                    for r in [rel, dec] {
                        let p = dest.join(&r);
                        if let Some(parent) = p.parent() {
                            std::fs::create_dir_all(parent).ok();
                        }
                        std::fs::write(&p, &old).ok();
                    }
                    preexisting += 1;
                }
            }
            cr.count("preexisting_longer_files", preexisting);
            let wit = json!({"sender": spec.json(), "objects": objs.iter().map(|o| o.json()).collect::<Vec<_>>(), "preexisting_longer_files": preexisting});
            let r = util::guarded(|| {
                let em = emit(&spec, &objs, &EmitOpts::default())?;
                let w = std::rc::Rc::new(flute::receiver::writer::ObjectWriterFSBuilder::new(&dest, true).map_err(|e| format!("{:?}", e))?);
                let mut rx = flute::receiver::MultiReceiver::new(w, Some(RxOpts::default().config), false);
                for p in &em.stream {
                    let _ = util::with_budget(PUSH_BUDGET, || rx.push(&em.spec.endpoint(), &p.bytes, p.t));
                }
                drop(rx);
                Ok::<_, String>(em)
            });
            match r {
                Err(p) => cr.violations.push(Violation::new(if p.is_step_budget() { "hang" } else { "panic" }, format!("{} @ {}", p.msg, p.short_loc()))
                    .with("site", if p.is_step_budget() { p.step_site() } else { p.file() }).with("writer", "fs").witness(wit)),
                Ok(Err(e)) => cr.violations.push(Violation::new("emit_error", e).witness(wit)),
                Ok(Ok(em)) => {
                    let mut n_ok = 0;
                    for (k, ob) in em.objs.iter().enumerate() {
                        if em.tois[k].is_none() {
                            continue;
                        }
                        let u = url::Url::parse(&ob.location).unwrap();
                        let rel = u.path().trim_start_matches('/');
                        let mut path = dest.join(rel);
                        if !path.exists() {
                            // percent-decoded form of the same location is accepted too
                            let dec: String = url::form_urlencoded::parse(rel.replace('+', "%2B").as_bytes()).map(|(k, v)| format!("{}{}", k, v)).collect();
                            if dest.join(&dec).exists() {
                                path = dest.join(&dec);
                            }
                        }
                        let facts = obj_facts(ob, em.oti_of(k), &em.spec, em.transfer_len[k].unwrap_or(0));
                        match std::fs::read(&path) {
                            Ok(bytes) if bytes == ob.data => n_ok += 1,
                            Ok(bytes) => cr.violations.push(add_facts(Violation::new("fs_bytes", format!("file {:?} holds {} bytes, object has {}", rel, bytes.len(), ob.data.len())), &facts).with("writer", "fs").witness(wit.clone())),
                            Err(e) => cr.violations.push(add_facts(Violation::new("fs_missing", format!("file {:?} not found under the destination: {}", rel, e)), &facts).with("writer", "fs").witness(wit.clone())),
                        }
                    }
                    cr.count("files_verified", n_ok);
                    cr.count("packets", em.stream.len() as u64);
                    if n_ok > 0 {
                        cr.shape = Some(util::fnv(&format!("fs|{}|{}|{}", em.spec.oti.fec.name(), em.objs.len(), em.objs.iter().map(|o| o.data.len() % 7).sum::<usize>())));
                    }
                    cr.sample = Some(json!({"dest_files_ok": n_ok, "objects": em.objs.len()}));
                }
            }
            std::fs::remove_dir_all(&dest).ok();
            limit(&mut cr.violations, 4);
            cr
        }));
        let _ = SystemTime::now;
        gens
    });
}
