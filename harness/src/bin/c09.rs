//! C09 - object-writer protocol: open once, writes (prefix of the content), at
//! most one terminal call, nothing after; complete only with exactly the
//! announced content; every opened writer terminated when the receiver is dropped.
use serde_json::{json, Value};
use std::sync::Arc;
use std::time::SystemTime;
use vh::hostile::*;
use vh::mwriter::{BuilderAnswer, Log, Script, WState};
use vh::report::*;
use vh::scenario::*;
use vh::session::*;
use vh::small::*;
use vh::util::{self, Rng};
use vh::wire::{self, Fti};

/// Offline typestate check over the log of one history. `content(toi)` gives the
/// expected content when known (None for forged sessions).
fn judge_log(log: &Log, content: &dyn Fn(u128) -> Option<Vec<u8>>, payload_intact: bool, script: &Script, desc: &dyn Fn() -> Value, tag: &str, out: &mut Vec<Violation>) -> Vec<u64> {
    let mut states = vec![];
    for w in &log.writers {
        let trace = log.trace_of(w.wid);
        let abs = log.abstract_trace_of(w.wid);
        states.push(util::fnv(&abs));
        let mk = |clause: &str, detail: String| {
            Violation::new(clause, format!("{} [writer#{} toi {} trace: {}]", detail, w.wid, w.toi, trace))
                .with("tag", tag)
                .with("abstract_trace", abs.clone())
                .with("open_fails", script.open_fail.contains(&w.wid))
                .with("write_fails", script.write_fail.iter().any(|(x, _)| *x == w.wid))
                .with("empty_object", w.meta.transfer_length == Some(0))
                .witness(json!({"history": desc(), "trace": trace, "meta_transfer_length": w.meta.transfer_length}))
        };
        for ill in &w.illegal {
            out.push(mk("illegal_transition", ill.clone()).with("what", ill.split(" in ").next().unwrap_or("").split(" after ").next().unwrap_or("").to_string()));
        }
        match w.answer {
            BuilderAnswer::Store => {
                if w.nb_open != 1 {
                    out.push(mk("open_count", format!("open called {} times", w.nb_open)));
                }
            }
            _ => {
                if w.nb_open + w.nb_write + w.nb_terminal > 0 {
                    out.push(mk("calls_without_writer", "calls recorded for an instance the builder did not store".into()));
                }
                continue;
            }
        }
        if w.nb_terminal > 1 {
            out.push(mk("terminal_count", format!("{} terminal calls", w.nb_terminal)));
        }
        if w.state == WState::Opened {
            out.push(mk("unterminated_at_drop", "writer still open after the receiver was dropped".into()));
        }
        if let Some(c) = content(w.toi) {
            if payload_intact && !c.starts_with(&w.data) {
                out.push(mk("writes_not_prefix", format!("the {} bytes written are not a prefix of the {}-byte content", w.data.len(), c.len())));
            }
            // content equality is decidable when nothing was altered, or when the
            // (announced) MD5 is checked; otherwise only the length is judged below
            let decidable = payload_intact || (script.md5_check && w.meta.md5.is_some());
            if decidable && w.state == WState::Complete && w.data != c {
                out.push(mk("complete_without_content", format!("complete after {} of {} bytes", w.data.len(), c.len())));
            }
        }
        if w.state == WState::Complete {
            // "(and its MD5 matched when checked)": the digest that counts is the one of the bytes the writer was given
            if script.md5_check && w.data.len() == w.bytes_written {
                if let Some(announced) = &w.meta.md5 {
                    let got = vh::session::md5_b64(&w.data);
                    if &got != announced {
                        out.push(mk("complete_md5_mismatch", format!("complete although the MD5 of the {} bytes written ({}) is not the announced Content-MD5 ({})", w.data.len(), got, announced)));
                    }
                }
            }
            if let Some(cl) = w.meta.content_length {
                if w.bytes_written != cl {
                    out.push(mk("complete_length", format!("complete after {} bytes, announced Content-Length {}", w.bytes_written, cl)));
                }
            }
        }
    }
    states
}

fn history(em: &Emitted, order: &[usize]) -> Vec<(Vec<u8>, SystemTime)> {
    order.iter().map(|k| (em.stream[*k].bytes.clone(), em.stream[*k].t)).collect()
}

fn scripts(rng: &mut Rng, nwrites_hint: usize) -> Vec<(String, Script)> {
    let mut v = vec![("plain".to_string(), Script::default())];
    v.push(("open_fails".into(), Script { open_fail: vec![0, 2], ..Default::default() }));
    v.push(("write1_fails".into(), Script { write_fail: vec![(0, 1), (1, 1)], ..Default::default() }));
    v.push(("write2_fails".into(), Script { write_fail: vec![(0, 2)], ..Default::default() }));
    v.push(("write_last_fails".into(), Script { write_fail: vec![(0, nwrites_hint.max(1))], ..Default::default() }));
    v.push(("abort".into(), Script { answers: vec![BuilderAnswer::Abort, BuilderAnswer::Store], ..Default::default() }));
    v.push(("already".into(), Script { answers: vec![BuilderAnswer::AlreadyReceived, BuilderAnswer::Store], ..Default::default() }));
    v.push(("md5_off".into(), Script { md5_check: false, ..Default::default() }));
    let k = rng.range(1, 6) as usize;
    v.push((format!("write{}_fails_w1", k), Script { write_fail: vec![(1, k), (0, k + 1)], ..Default::default() }));
    v
}

fn run_history(endpoint: &flute::core::UDPEndpoint, pkts: &[(Vec<u8>, SystemTime)], script: &Script, drop_after: Option<usize>, receive_once: bool) -> Result<Received, util::PanicInfo> {
    let mut o = RxOpts::default();
    o.script = script.clone();
    o.config.object_receive_once = receive_once;
    o.config.max_objects_error = 1;
    util::guarded(|| receive(endpoint, pkts.iter().map(|(b, t)| (b.as_slice(), *t)), &o, drop_after))
}

fn panic_viol(p: util::PanicInfo, tag: &str, desc: Value) -> Violation {
    if p.is_step_budget() {
        Violation::new("hang", format!("step budget exhausted at {}", p.step_site())).with("site", p.step_site()).with("tag", tag).witness(desc)
    } else {
        Violation::new("panic", format!("{} @ {}", p.msg, p.short_loc())).with("site", p.file()).with("tag", tag).witness(desc)
    }
}

fn main() {
    let prop = Property {
        id: "C09",
        level: "exploration",
        rule: "typestate automaton per writer instance (online in the monitoring writer, offline over its log) on: small sessions x every drop point (receiver dropped after each packet) x 9 writer scripts (open failing, write failing at call 1/2/last/n, builder Abort / ObjectAlreadyReceived, md5 off) x {in order, reversed, shuffled, lossy}; hand-written FDTs without FEC-OTI attributes (writer created inside push) for empty and non-empty objects; malformed histories (header substitutions, payload faults) with failing writers; a case is one (session, script, order) with all its drop points, non-trivial when at least one writer was created; distinct = (shape, script, order); monitor states = distinct abstract writer traces; fdt_without_oti announces Content-Length equal / larger / smaller / absent (absent together with Content-MD5), content-encoded cases with content that really compresses; content-encoded shapes of three source blocks of unequal size (3+2+2, 4+3+3, 7+6+6 symbols) are always part of small_x_script_x_drop; fdt_without_oti variants 6-8: every packet / only the cached packets / only the packet that carries the OTI announce a source block of 0 symbols (FEC 129: the cache replay and / or the current packet fail inside one push)",
        assumptions: vec![
            "several writers for one TOI are legal (re-download after error, receive-once off): the automaton is per writer instance".into(),
            "a writer whose open() failed is not 'opened': at most one error call is allowed, none is required".into(),
            "prefix-of-content is only judged when payload bytes were not altered".into(),
        ],
        exhaustive: false,
        budget_quick_s: 150,
        budget_thorough_s: 1500,
    };
    run_property(prop, |ctx| {
        let mut gens = vec![];
        let cat = small_catalogue(ctx.tier.pick(10, 14), true);
        let mut shapes: Vec<(String, Emitted)> = vec![];
        for (ci, c) in cat.iter().enumerate() {
            if ctx.tier == Tier::Quick && (ci + ctx.seed as usize) % 3 != 0 {
                continue;
            }
            let mut c2 = c.clone();
            c2.nobj = 1 + ci % 2;
            if let Ok(Ok(em)) = util::guarded(|| build_small(&c2, ctx.seed)) {
                if em.tois.iter().all(|t| t.is_some()) && em.finished && em.stream.len() <= 40 {
                    shapes.push((c2.name(), em));
                }
            }
        }
        // content-encoded objects of three and more source blocks of UNEQUAL size (3+2+2, 4+3+3, 7+6+6 symbols of 16
        // bytes): the decoder is fed block by block through a ring sized on the first block, later blocks wrap around
        // it. Incompressible and compressible contents, every scheme of the catalogue's cenc part, always included.
        for (k, (len, b)) in [(80usize, 3u32), (88, 3), (100, 3), (125, 4), (135, 4), (150, 4), (270, 7), (284, 7)].iter().enumerate() {
            for cenc in [CencSpec::Gzip, CencSpec::Zlib, CencSpec::Deflate] {
                for fec in [Fec::NoCode, Fec::Rs28] {
                    let c = SmallCfg {
                        fec, e: 16, b: *b, parity: if fec == Fec::NoCode { 0 } else { 1 }, len: *len, interleave: 1 + (k % 2) as u8,
                        inband_fti: k % 2 == 0, transfers: 1, cenc, inband_cenc: k % 3 != 0, md5: (k + fec.id() as usize) % 2 == 0, fdt_same_oti: false, nobj: 1,
                    };
                    if let Ok(Ok(em)) = util::guarded(|| build_small(&c, ctx.seed)) {
                        if em.tois.iter().all(|t| t.is_some()) && em.finished && em.stream.len() <= 48 {
                            shapes.push((format!("{}|unequal-blocks", c.name()), em));
                        }
                    }
                }
            }
        }
        let shapes = Arc::new(shapes);
        let n_scripts = 9;
        let n_orders = 4;
        let n1 = shapes.len() * n_scripts * n_orders;
        let sh = shapes.clone();
        gens.push(Gen::new("small_x_script_x_drop", n1, move |ctx, i| {
            let si = i / (n_scripts * n_orders);
            let sc_i = (i / n_orders) % n_scripts;
            let ord = i % n_orders;
            let (name, em) = &sh[si];
            let mut rng = Rng::keyed(ctx.seed, "C09a", 0, i as u64);
            let n = em.stream.len();
            let mut order: Vec<usize> = (0..n).collect();
            match ord {
                1 => order.reverse(),
                2 => rng.shuffle(&mut order),
                3 => order.retain(|k| em.stream[*k].toi() == 0 || !rng.chance(1, 4)),
                _ => {}
            }
            let nwrites = ref_partition(em.oti_of(0).b as u128, em.transfer_len[0].unwrap_or(0) as u128, em.oti_of(0).e as u128).n as usize;
            let (sname, script) = scripts(&mut rng, nwrites)[sc_i].clone();
            let pk = history(em, &order);
            let mut cr = CaseResult::default();
            let content = |toi: u128| em.obj_index_of(toi).map(|k| em.objs[k].data.clone());
            let mut nw = 0u64;
            let mut runs = 0u64;
            // every drop point, and "never"
            for d in 0..=pk.len() {
                let drop_after = if d == pk.len() { None } else { Some(d) };
                let desc = || json!({"shape": name, "script": sname, "order": order, "drop_after": drop_after});
                match run_history(&em.spec.endpoint(), &pk, &script, drop_after, d % 2 == 0) {
                    Ok(rx) => {
                        nw += rx.log.writers.len() as u64;
                        runs += 1;
                        let st = judge_log(&rx.log, &content, true, &script, &desc, "small", &mut cr.violations);
                        cr.states.extend(st);
                    }
                    Err(p) => cr.violations.push(panic_viol(p, "small", desc())),
                }
                if distinct_sigs(&cr.violations) > 6 || cr.violations.len() > 2000 {
                    break;
                }
            }
            cr.states.sort();
            cr.states.dedup();
            cr.count("histories", runs);
            cr.count("writers", nw);
            if nw > 0 {
                cr.shape = Some(util::fnv(&format!("{}|{}|{}", name, sname, ord)));
            }
            if i % 37 == 0 {
                cr.sample = Some(json!({"shape": name, "script": sname, "order": ord, "drop_points": pk.len() + 1, "writers": nw}));
            }
            limit(&mut cr.violations, 4);
            cr
        }));
        // ---- hand-written FDT without FEC-OTI attributes: the writer is created inside push()
        let fecs: [u8; 4] = [0, 5, 129, 6];
        let lens: [usize; 4] = [0, 1, 16, 40];
        let n2 = fecs.len() * lens.len() * n_scripts * 9 * 4;
        gens.push(Gen::new("fdt_without_oti", n2, move |ctx, i| {
            let fec = fecs[i % fecs.len()];
            let len = lens[(i / fecs.len()) % lens.len()];
            let sc_i = (i / (fecs.len() * lens.len())) % n_scripts;
            // 0 fdt first, 1 object first, 2 fdt in the middle; 3-5: single-symbol blocks and EXT_FTI on SOME packets only
            // (the others wait in the cache until a packet with EXT_FTI opens the writer inside push()):
            // 3 reverse order, FTI on the last packet pushed; 4 every packet first without then with FTI; 5 in order, FTI on the last
            let variant = (i / (fecs.len() * lens.len() * n_scripts)) % 9;
            // announced Content-Length vs real length (null encoding): equal, larger, smaller
            let cl_mode = (i / (fecs.len() * lens.len() * n_scripts * 9)) % 4;
            let cl_delta: i64 = [0i64, 5, -1, 0][cl_mode];
            // fourth mode: the File element carries neither Content-Length nor Content-MD5 (both are optional): the
            // content is whatever the Transfer-Length bytes decode to
            let cl_absent = cl_mode == 3;
            let mut rng = Rng::keyed(ctx.seed, "C09b", 0, i as u64);
            let mut content_bytes = rng.bytes(len);
            // one case in three (orders 0-2, non-empty objects): the object travels content-encoded; Content-Length and
            // Content-MD5 speak of the decoded content, Transfer-Length of what is on the wire
            let cenc = if variant <= 2 && len > 0 && i % 3 == 1 { [CencSpec::Gzip, CencSpec::Zlib, CencSpec::Deflate][(i / 3) % 3] } else { CencSpec::Null };
            if cenc != CencSpec::Null && (cl_absent || i % 2 == 0) {
                // content that really compresses (the encoded form is shorter than the content)
                content_bytes = (0..len * 9).map(|k| b"flute "[k % 6]).collect();
            }
            let data = vh::session::deflate(cenc, &content_bytes);
            let content_len = content_bytes.len();
            let len = data.len();
            let e = 8usize;
            let b = if variant >= 3 { 1usize } else { 4usize };
            let part = ref_partition(b as u128, len as u128, e as u128);
            let toi: u128 = 7;
            let tsi = 3;
            let md5 = vh::session::md5_b64(&content_bytes);
            let xml = format!(
                "<?xml version=\"1.0\" encoding=\"UTF-8\"?>\n<FDT-Instance xmlns=\"urn:IETF:metadata:2005:FLUTE:FDT\" Expires=\"{}\"><File TOI=\"{}\" Content-Location=\"file:///h/x.bin\"{} Transfer-Length=\"{}\"{}{}/></FDT-Instance>",
                expires_in(3600), toi, if cl_absent { String::new() } else { format!(" Content-Length=\"{}\"", (content_len as i64 + cl_delta).max(0)) }, len,
                if cl_absent { String::new() } else { format!(" Content-MD5=\"{}\"", md5) },
                if cenc == CencSpec::Null { String::new() } else { format!(" Content-Encoding=\"{}\"", cenc.name()) });
            let fdt = wrap_fdt(xml.as_bytes(), tsi, 5, 1400, None, true);
            // object packets with in-band FTI built by the independent encoder (source symbols only)
            let fti = Fti { fec, l: len as u64, e: e as u16, b: b as u32, max_n: Some(b as u32 + 2), instance: Some(0), z: Some(part.n.max(1) as u32), n: Some(1), al: Some(1), m: None, g: None };
            let mut objp: Vec<Vec<u8>> = vec![];
            let mut objp_nofti: Vec<Vec<u8>> = vec![];
            let mut l = wire::enc_lct(tsi, toi, fec);
            if len == 0 {
                l.b = true;
                objp.push(wire::encode(&l, &[wire::ext_fti(&fti)], &wire::payload_id(fec, 0, 0, 0, 8), &[]));
                objp_nofti.push(wire::encode(&l, &[], &wire::payload_id(fec, 0, 0, 0, 8), &[]));
            }
            for sbn in 0..part.n {
                let off = part.offset(sbn, e as u128) as usize;
                let k = part.k(sbn);
                for esi in 0..k {
                    let s = off + esi as usize * e;
                    let en = (s + e).min(len);
                    let mut sym = data[s..en].to_vec();
                    if fec != 0 {
                        sym.resize(e, 0);
                    }
                    l.b = sbn + 1 == part.n && esi + 1 == k;
                    // variant 6 (hostile, matters for FEC 129 whose payload id announces the block length): every packet
                    // announces a source block of 0 symbols - the packets replayed from the cache fail, and so does the
                    // packet that carried the OTI
                    // variants 7 / 8: only the cached packets / only the packet that carries the OTI announce it
                    let sbl = if variant == 6 { 0u16 } else { k as u16 };
                    let (sbl_fti, sbl_nofti) = match variant { 7 => (k as u16, 0u16), 8 => (0u16, k as u16), _ => (sbl, sbl) };
                    objp.push(wire::encode(&l, &[wire::ext_fti(&fti)], &wire::payload_id(fec, sbn as u32, esi as u32, sbl_fti, 8), &sym));
                    objp_nofti.push(wire::encode(&l, &[], &wire::payload_id(fec, sbn as u32, esi as u32, sbl_nofti, 8), &sym));
                }
            }
            let mut seq: Vec<Vec<u8>> = vec![];
            match variant {
                0 => {
                    seq.extend(fdt.clone());
                    seq.extend(objp.clone());
                }
                1 => {
                    seq.extend(objp.clone());
                    seq.extend(fdt.clone());
                    seq.extend(objp.clone());
                }
                2 => {
                    let h = objp.len() / 2;
                    seq.extend(objp[..h].to_vec());
                    seq.extend(fdt.clone());
                    seq.extend(objp[h..].to_vec());
                }
                3 => {
                    seq.extend(fdt.clone());
                    let n = objp.len();
                    for k in (0..n).rev() {
                        seq.push(if k == 0 { objp[k].clone() } else { objp_nofti[k].clone() });
                    }
                }
                4 => {
                    seq.extend(fdt.clone());
                    for k in 0..objp.len() {
                        seq.push(objp_nofti[k].clone());
                        seq.push(objp[k].clone());
                    }
                }
                _ => {
                    seq.extend(fdt.clone());
                    let n = objp.len();
                    for k in 0..n {
                        seq.push(if k + 1 == n { objp[k].clone() } else { objp_nofti[k].clone() });
                    }
                }
            }
            let (sname, script) = scripts(&mut rng, part.n as usize)[sc_i].clone();
            let pk: Vec<(Vec<u8>, SystemTime)> = seq.into_iter().map(|b| (b, util::at(1000))).collect();
            let ep = flute::core::UDPEndpoint::new(None, "224.0.0.1".into(), 3400);
            let mut cr = CaseResult::default();
            // with a lying Content-Length the object must never complete; prefix still holds
            let content = |t: u128| if t == toi && cl_delta == 0 { Some(content_bytes.clone()) } else { None };
            let mut nw = 0u64;
            for d in (0..=pk.len()).rev() {
                let drop_after = if d == pk.len() { None } else { Some(d) };
                let desc = || json!({"fdt_without_oti": true, "fec": fec, "len": content_len, "cenc": cenc.name(), "content_length_and_md5_absent": cl_absent, "script": sname, "variant": variant, "drop_after": drop_after,
                    "packets": pk.iter().map(|(b, _)| util::hex(&b[..b.len().min(120)])).collect::<Vec<_>>()});
                match run_history(&ep, &pk, &script, drop_after, true) {
                    Ok(rx) => {
                        nw += rx.log.writers.len() as u64;
                        let st = judge_log(&rx.log, &content, true, &script, &desc, "fdt_without_oti", &mut cr.violations);
                        cr.states.extend(st);
                    }
                    Err(p) => cr.violations.push(panic_viol(p, "fdt_without_oti", desc())),
                }
                if distinct_sigs(&cr.violations) > 4 || cr.violations.len() > 2000 {
                    break;
                }
            }
            cr.states.sort();
            cr.states.dedup();
            cr.count("histories", pk.len() as u64 + 1);
            cr.count("writers", nw);
            if nw > 0 {
                cr.shape = Some(util::fnv(&format!("noOTI|{}|{}|{}|{}|{}|{}", fec, content_len, sname, variant, cl_mode, cenc.name())));
            }
            if i % 29 == 0 {
                cr.sample = Some(json!({"fec": fec, "len": len, "script": sname, "variant": variant, "writers": nw, "xml": xml}));
            }
            limit(&mut cr.violations, 3);
            cr
        }));
        // ---- malformed histories x failing writers
        let corp = Arc::new(corpus(ctx.seed, true));
        let n3 = ctx.tier.pick(60_000usize, 8_000_000);
        gens.push(Gen::new("malformed_x_script", n3, move |ctx, i| {
            let mut rng = Rng::keyed(ctx.seed, "C09c", 0, i as u64);
            let c = &corp[rng.below(corp.len() as u64) as usize];
            let em = &c.em;
            let mut pk: Vec<(Vec<u8>, SystemTime)> = em.stream.iter().map(|p| (p.bytes.clone(), p.t)).collect();
            let mut payload_intact = true;
            let nmut = rng.range(1, 4);
            let mut muts = vec![];
            for _ in 0..nmut {
                let k = rng.below(pk.len() as u64) as usize;
                let off = em.stream[k].dec.payload_off;
                if rng.chance(2, 3) {
                    let p = rng.below(off.min(pk[k].0.len()) as u64) as usize;
                    pk[k].0[p] ^= 1 << rng.below(8);
                    muts.push(format!("hdr flip pkt{}@{}", k, p));
                    // header edits may redirect payload to another block / object
                    payload_intact = false;
                } else if pk[k].0.len() > off {
                    let p = off + rng.below((pk[k].0.len() - off) as u64) as usize;
                    pk[k].0[p] ^= 1 << rng.below(8);
                    payload_intact = false;
                    muts.push(format!("payload flip pkt{}@{}", k, p));
                }
            }
            if rng.chance(1, 3) {
                rng.shuffle(&mut pk);
                muts.push("shuffled".into());
            }
            let scs = scripts(&mut rng, 2);
            let (sname, script) = scs[rng.below(scs.len() as u64) as usize].clone();
            let drop_after = if rng.chance(1, 2) { Some(rng.below(pk.len() as u64 + 1) as usize) } else { None };
            let mut cr = CaseResult::default();
            let content = |toi: u128| em.obj_index_of(toi).map(|k| em.objs[k].data.clone());
            let desc = || json!({"session": c.name, "mutations": muts, "script": sname, "drop_after": drop_after});
            match run_history(&em.spec.endpoint(), &pk, &script, drop_after, rng.chance(1, 2)) {
                Ok(rx) => {
                    let st = judge_log(&rx.log, &content, payload_intact, &script, &desc, "malformed", &mut cr.violations);
                    cr.states.extend(st);
                    cr.count("histories", 1);
                    cr.count("writers", rx.log.writers.len() as u64);
                    if !rx.log.writers.is_empty() {
                        cr.shape = Some(util::fnv(&format!("{}|{}|{:?}|{}", c.name, sname, drop_after.map(|d| d * 8 / pk.len().max(1)), muts.len())));
                    }
                    if i % 501 == 0 {
                        cr.sample = Some(json!({"history": desc(), "writers": rx.log.writers.iter().map(|w| rx.log.trace_of(w.wid)).collect::<Vec<_>>()}));
                    }
                }
                Err(p) => cr.violations.push(panic_viol(p, "malformed", desc())),
            }
            cr
        }));
        gens
    });
}
