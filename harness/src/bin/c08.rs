//! C08 - each transfer carries every source symbol once at RFC offsets; repair
//! symbols bounded; ESIs increasing per block; a receiver following only the
//! RFCs rebuilds the object; close-object / close-session flags only where
//! allowed.
use serde_json::{json, Value};
use std::collections::BTreeMap;
use vh::gen::{self};
use vh::report::*;
use vh::scenario::*;
use vh::session::*;
use vh::util::{self, Rng};

fn facts(v: Violation, obj: &ObjSpec, oti: &OtiSpec, spec: &SenderSpec, tl: u64) -> Violation {
    let p = ref_partition(oti.b as u128, tl as u128, oti.e as u128);
    v.with("fec", oti.fec.name())
        .with("cenc", obj.cenc.name())
        .with("interleave_gt1", spec.interleave > 1)
        .with("n_blocks_gt1", p.n > 1)
        .with("parity_gt0", oti.parity > 0)
        .with("short_last_symbol", tl % oti.e as u64 != 0)
        .with("transfers", obj.max_transfer_count)
        .with("carousel", obj.carousel.is_some())
        .with("source", format!("{:?}", std::mem::discriminant(&obj.source)))
}

/// Judge one scripted run. `removed_at[i]` = packet index at which object i was removed.
fn judge(run: &ScriptRun, out: &mut Vec<Violation>) -> (u64, Vec<u64>) {
    let mut n_transfers = 0u64;
    let mut states = vec![];
    let wit = |extra: Value| json!({"run": run.json(), "detail": extra, "stream": run.summary(80)});
    // close-session flag never on read() output
    for (idx, p) in run.stream.iter().enumerate() {
        if p.dec.lct.a {
            out.push(Violation::new("close_session_flag", format!("packet {} returned by read() carries the close-session flag", idx)).witness(wit(json!(null))));
            break;
        }
    }
    for (i, obj) in run.objs.iter().enumerate() {
        let toi = match run.tois[i] {
            Some(t) => t,
            None => continue,
        };
        let oti = run.oti_of(i).clone();
        let tl = run.transfer_len[i].unwrap_or(0);
        let e = oti.e as usize;
        let part = ref_partition(oti.b as u128, tl as u128, oti.e as u128);
        let removed_at: Option<usize> = run.ops.iter().find(|o| o.op == Op::Remove(i) && o.ok).map(|o| o.pkt_index);
        let transfers = run.transfers_of(toi);
        let last_idx_of_toi = run.stream.iter().rposition(|p| p.toi() == toi);
        // packets of this toi outside any transfer window?
        for (idx, p) in run.stream.iter().enumerate() {
            if p.toi() != toi {
                continue;
            }
            let inside = transfers.iter().any(|(s, e)| idx >= *s && e.map(|e| idx < e).unwrap_or(true));
            if !inside {
                out.push(facts(Violation::new("packet_outside_transfer", format!("packet {} of toi {} is outside every Start/StopTransfer window", idx, toi)), obj, &oti, &run.spec, tl).witness(wit(json!({"obj": i}))));
                break;
            }
        }
        for (tn, (start, stop)) in transfers.iter().enumerate() {
            let end = stop.unwrap_or(run.stream.len());
            let pk: Vec<(usize, &SPkt)> = run.stream[*start..end].iter().enumerate().map(|(k, p)| (k + start, p)).filter(|(_, p)| p.toi() == toi).collect();
            n_transfers += 1;
            let cut_by_removal = removed_at.map(|r| r < end).unwrap_or(false);
            let running = stop.is_none();
            // ---- flag placement
            let mut seen_b = false;
            for (k, (idx, p)) in pk.iter().enumerate() {
                if seen_b {
                    out.push(facts(Violation::new("packet_after_close_object", format!(
                        "toi {} transfer {}: packet {} follows a packet carrying the close-object flag in the same transfer", toi, tn, idx)), obj, &oti, &run.spec, tl)
                        .witness(wit(json!({"obj": i, "transfer": tn}))));
                    break;
                }
                if p.dec.lct.b {
                    seen_b = true;
                    let is_last_of_transfer = k + 1 == pk.len();
                    let allowed_empty = tl == 0;
                    let allowed_final = obj.carousel.is_none() && tn as u32 + 1 == obj.max_transfer_count && is_last_of_transfer && !running;
                    let allowed_removed = removed_at.map(|r| r <= *idx).unwrap_or(false) && Some(*idx) == last_idx_of_toi;
                    if !(allowed_empty || allowed_final || allowed_removed) {
                        out.push(facts(Violation::new("close_object_flag_early", format!(
                            "toi {} transfer {}/{}: close-object flag on packet {} (sbn {} esi {}), which is packet {} of {} of that transfer",
                            toi, tn + 1, obj.max_transfer_count, idx, p.dec.sbn, p.dec.esi, k + 1, pk.len())), obj, &oti, &run.spec, tl)
                            .with("last_of_transfer", is_last_of_transfer)
                            .witness(wit(json!({"obj": i, "transfer": tn}))));
                    }
                }
            }
            if running || cut_by_removal {
                // an unfinished / cut transfer: only ordering is judged
                let mut last_esi: BTreeMap<u32, u32> = BTreeMap::new();
                for (idx, p) in &pk {
                    if tl == 0 {
                        continue;
                    }
                    if let Some(prev) = last_esi.get(&p.dec.sbn) {
                        if p.dec.esi <= *prev {
                            out.push(facts(Violation::new("esi_order", format!("toi {}: ESI {} after {} in block {} (packet {})", toi, p.dec.esi, prev, p.dec.sbn, idx)), obj, &oti, &run.spec, tl).witness(wit(json!({"obj": i}))));
                            break;
                        }
                    }
                    last_esi.insert(p.dec.sbn, p.dec.esi);
                }
                states.push(util::fnv(&format!("cut|{}|{}", oti.fec.name(), cut_by_removal)));
                continue;
            }
            // ---- complete transfer
            if tl == 0 {
                // how an empty object is represented (one packet or a padded block) is
                // not constrained by the property: only the flags are judged (above)
                if pk.is_empty() {
                    out.push(facts(Violation::new("empty_object_packets", format!("empty object toi {}: no packet at all in transfer {}", toi, tn)), obj, &oti, &run.spec, tl).witness(wit(json!({"obj": i}))));
                }
                states.push(util::fnv(&format!("empty{}", pk.len().min(3))));
                continue;
            }
            let mut per_block: BTreeMap<u32, Vec<(u32, usize)>> = BTreeMap::new();
            for (idx, p) in &pk {
                per_block.entry(p.dec.sbn).or_default().push((p.dec.esi, *idx));
            }
            let mut x: Vec<u8> = Vec::with_capacity(tl as usize);
            let mut bad = false;
            for sbn in 0..part.n as u32 {
                let k = part.k(sbn as u128) as u32;
                let list = per_block.get(&sbn).cloned().unwrap_or_default();
                // increasing ESIs
                for w in list.windows(2) {
                    if w[1].0 <= w[0].0 {
                        out.push(facts(Violation::new("esi_order", format!("toi {} transfer {} block {}: ESI {} emitted after ESI {}", toi, tn, sbn, w[1].0, w[0].0)), obj, &oti, &run.spec, tl).witness(wit(json!({"obj": i, "transfer": tn}))));
                        bad = true;
                        break;
                    }
                }
                let src: Vec<u32> = list.iter().map(|x| x.0).filter(|e| *e < k).collect();
                let want: Vec<u32> = (0..k).collect();
                let mut sorted = src.clone();
                sorted.sort();
                if sorted != want {
                    out.push(facts(Violation::new("source_symbols", format!(
                        "toi {} transfer {} block {} (k={}): source ESIs on the wire {:?}, expected each of 0..{} exactly once", toi, tn, sbn, k, src, k)), obj, &oti, &run.spec, tl)
                        .with("missing", sorted.len() < want.len())
                        .witness(wit(json!({"obj": i, "transfer": tn, "block": sbn}))));
                    bad = true;
                }
                let nrepair = list.iter().filter(|x| x.0 >= k).count() as u32;
                if nrepair > oti.parity {
                    out.push(facts(Violation::new("too_many_repair", format!("toi {} transfer {} block {}: {} repair symbols, configured {}", toi, tn, sbn, nrepair, oti.parity)), obj, &oti, &run.spec, tl).witness(wit(json!({"obj": i}))));
                    bad = true;
                }
                // source payloads: E-byte slices
                let off = part.offset(sbn as u128, e as u128) as usize;
                for esi in 0..k {
                    let idx = match list.iter().find(|x| x.0 == esi) {
                        Some(x) => x.1,
                        None => continue,
                    };
                    let p = &run.stream[idx];
                    let pay = p.payload();
                    let sym_off = off + esi as usize * e;
                    let remaining = (tl as usize).saturating_sub(sym_off);
                    let want_len = remaining.min(e);
                    let len_ok = pay.len() == want_len || (pay.len() == e && pay[want_len..].iter().all(|b| *b == 0));
                    if !len_ok {
                        out.push(facts(Violation::new("symbol_slicing", format!(
                            "toi {} transfer {} block {} esi {}: payload of {} bytes, the E-byte slice at offset {} of the {}-byte transfer object has {} bytes",
                            toi, tn, sbn, esi, pay.len(), sym_off, tl, want_len)), obj, &oti, &run.spec, tl)
                            .witness(wit(json!({"obj": i, "transfer": tn}))));
                        bad = true;
                        break;
                    }
                    if obj.cenc == CencSpec::Null && pay[..want_len] != obj.data[sym_off..sym_off + want_len] {
                        out.push(facts(Violation::new("symbol_content", format!(
                            "toi {} transfer {} block {} esi {}: payload differs from object bytes {}..{}", toi, tn, sbn, esi, sym_off, sym_off + want_len)), obj, &oti, &run.spec, tl)
                            .witness(wit(json!({"obj": i, "transfer": tn}))));
                        bad = true;
                        break;
                    }
                    if let Some(sbl) = p.dec.sbl {
                        if sbl as u32 != k {
                            out.push(facts(Violation::new("source_block_length", format!("toi {} block {}: payload id says {} source symbols, partition says {}", toi, sbn, sbl, k)), obj, &oti, &run.spec, tl).witness(wit(json!({"obj": i}))));
                            bad = true;
                        }
                    }
                    x.extend_from_slice(&pay[..want_len.min(pay.len())]);
                }
                if bad {
                    break;
                }
            }
            for sbn in per_block.keys() {
                if *sbn as u128 >= part.n {
                    out.push(facts(Violation::new("sbn_range", format!("toi {}: SBN {} on the wire, partition has {} blocks", toi, sbn, part.n)), obj, &oti, &run.spec, tl).witness(wit(json!({"obj": i}))));
                    bad = true;
                }
            }
            if bad {
                continue;
            }
            // pure-RFC receiver: concatenated source symbols, trimmed, inflated
            if x.len() != tl as usize {
                out.push(facts(Violation::new("rfc_receiver", format!("toi {} transfer {}: source symbols give {} bytes, transfer length is {}", toi, tn, x.len(), tl)), obj, &oti, &run.spec, tl).witness(wit(json!({"obj": i}))));
                continue;
            }
            match inflate(obj.cenc, &x) {
                Ok(plain) if plain == obj.data => {}
                Ok(plain) => out.push(facts(Violation::new("rfc_receiver", format!(
                    "toi {} transfer {}: an RFC-only receiver rebuilds {} bytes that differ from the {}-byte object", toi, tn, plain.len(), obj.data.len())), obj, &oti, &run.spec, tl).witness(wit(json!({"obj": i})))),
                Err(er) => out.push(facts(Violation::new("rfc_receiver", format!("toi {} transfer {}: transfer-encoded object does not inflate: {}", toi, tn, er)), obj, &oti, &run.spec, tl).witness(wit(json!({"obj": i})))),
            }
            // FTI / CENC in band agree with configuration
            for (_, p) in &pk {
                if let Some(f) = &p.dec.fti {
                    if f.l != tl || f.e != oti.e {
                        out.push(facts(Violation::new("inband_fti", format!("toi {}: EXT_FTI says L={} E={}, object has L={} E={}", toi, f.l, f.e, tl, oti.e)), obj, &oti, &run.spec, tl).witness(wit(json!({"obj": i}))));
                        break;
                    }
                } else if oti.inband_fti {
                    out.push(facts(Violation::new("inband_fti", format!("toi {}: in-band FTI configured but a packet carries none", toi)), obj, &oti, &run.spec, tl).witness(wit(json!({"obj": i}))));
                    break;
                }
                if obj.inband_cenc && p.dec.cenc != Some(obj.cenc.id()) {
                    out.push(facts(Violation::new("inband_cenc", format!("toi {}: EXT_CENC {:?}, configured {}", toi, p.dec.cenc, obj.cenc.id())), obj, &oti, &run.spec, tl).witness(wit(json!({"obj": i}))));
                    break;
                }
            }
            states.push(util::fnv(&format!("ok|{}|N{}|il{}|p{}|{}", oti.fec.name(), part.n.min(6), run.spec.interleave, oti.parity.min(3), obj.cenc.name())));
        }
    }
    (n_transfers, states)
}

fn run_case(spec: &SenderSpec, objs: &[ObjSpec], script: &[(When, Op)], opts: &ScriptOpts, cr: &mut CaseResult, shape_extra: &str) {
    let wit = json!({"sender": spec.json(), "objects": objs.iter().map(|o| o.json()).collect::<Vec<_>>(), "script": format!("{:?}", script)});
    match util::guarded(|| run_script(spec, objs, script, opts)) {
        Err(p) => {
            let v = if p.is_step_budget() {
                Violation::new("hang", format!("step budget exhausted at {}", p.step_site())).with("site", p.step_site())
            } else {
                Violation::new("panic", format!("{} @ {}", p.msg, p.short_loc())).with("site", p.file())
            };
            cr.violations.push(v.with("fec", objs[0].oti.as_ref().unwrap_or(&spec.oti).fec.name()).witness(wit));
        }
        Ok(Err(e)) => {
            if e.starts_with("publish:") {
                cr.inconclusive = None; // session refused as a whole: nothing to judge
            } else {
                cr.violations.push(Violation::new("emit_error", e).witness(wit));
            }
        }
        Ok(Ok(run)) => {
            let (nt, states) = judge(&run, &mut cr.violations);
            cr.count("packets", run.stream.len() as u64);
            cr.count("transfers_judged", nt);
            cr.states = states;
            if nt > 0 {
                let mut shape = String::from(shape_extra);
                for (i, o) in run.objs.iter().enumerate() {
                    shape.push_str(&obj_shape(o, run.oti_of(i), run.transfer_len[i].unwrap_or(0)));
                }
                shape.push_str(&format!("|il{}", run.spec.interleave));
                cr.shape = Some(util::fnv(&shape));
            }
            cr.sample = Some(json!({"sender": run.spec.json(), "objects": run.objs.iter().map(|o| o.json()).collect::<Vec<_>>(), "stream_head": run.summary(12), "transfers": nt}));
        }
    }
    limit(&mut cr.violations, 5);
}

fn main() {
    let prop = Property {
        id: "C08",
        level: "exploration",
        rule: "sender-only runs on a virtual clock: systematic grid (5 FEC x E x B x parity x interleave 1..5 x length lattice), cenc x transfer counts, carousel with removal, removal at every packet index of small objects; the stream is cut into transfers with Start/StopTransfer events and judged per transfer and block against the reference partition (source ESIs exactly once, repair <= parity, increasing ESIs, E-byte slices, RFC-only reassembly + independent inflate) and by a flag automaton for A/B; non-trivial = at least one transfer judged; distinct = session shape incl. partition; close_session_then_more: read_close_session() after 0..14 packets of a session, once or twice - every packet read() returns afterwards has A = 0",
        assumptions: vec![
            "transfer boundaries come from the public Subscriber events, cross-checked by ESI monotonicity".into(),
            "zero padding of the final symbol is accepted for every scheme".into(),
            "order between blocks is C13's, repair payload content is C02's".into(),
        ],
        exhaustive: false,
        budget_quick_s: 120,
        budget_thorough_s: 1200,
    };
    run_property(prop, |ctx| {
        let mut gens = vec![];
        // ---- grid
        let mut grid: Vec<(Fec, u16, u32, u32, u8, u64)> = vec![];
        for fec in ALL_FEC {
            for e in [1u16, 4, 16] {
                for b in [1u32, 2, 4, 5] {
                    let parities: Vec<u32> = if fec == Fec::NoCode { vec![0] } else { vec![1, 2] };
                    for parity in parities {
                        for il in 1..=5u8 {
                            for l in gen::len_lattice(e as u64, b as u64) {
                                if l > 30 * e as u64 * b as u64 {
                                    continue;
                                }
                                grid.push((fec, e, b, parity, il, l));
                            }
                        }
                    }
                }
            }
        }
        let stride = ctx.tier.pick(1usize, 1);
        let grid: Vec<_> = grid.into_iter().enumerate().filter(|(i, _)| i % stride == (ctx.seed as usize) % stride).map(|(_, g)| g).collect();
        let n_grid = grid.len();
        gens.push(Gen::new("grid", n_grid, move |ctx, i| {
            let (fec, e, b, parity, il, l) = grid[i];
            let mut rng = Rng::keyed(ctx.seed, "C08grid", 0, i as u64);
            let mut oti = OtiSpec::new(fec, e, b, parity);
            oti.inband_fti = i % 2 == 0;
            let mut spec = SenderSpec::new(OtiSpec::new(Fec::NoCode, 1024, 64, 0));
            spec.interleave = il;
            spec.full_fdt = i % 3 != 0;
            let mut obj = ObjSpec::new(gen_bytes(&mut rng, l as usize), "file:///g/o.bin");
            obj.oti = Some(oti);
            obj.max_transfer_count = 1 + (i % 3) as u32;
            let script = vec![(When::Start, Op::Add(0)), (When::Start, Op::Publish)];
            let mut cr = CaseResult::default();
            run_case(&spec, &[obj], &script, &ScriptOpts::every(100, 300), &mut cr, "grid");
            cr
        }));
        // ---- objects with their OWN tiny OTI at the block-count limit of their scheme, in a session whose default OTI is
        // roomy: whatever is accepted must be numbered with SBNs that do not wrap (16-bit SBN for No-Code and Raptor,
        // 8-bit for RaptorQ); a refusal is fine
        let mut lim: Vec<(Fec, u16, u32, i64)> = vec![];
        for (fec, e, b, blocks) in [(Fec::NoCode, 1u16, 1u32, 65_536i64), (Fec::NoCode, 2, 1, 65_536), (Fec::NoCode, 1, 2, 65_536), (Fec::Raptor, 1, 4, 65_536), (Fec::RaptorQ, 4, 4, 256), (Fec::RaptorQ, 1, 8, 256)] {
            for d in [-1i64, 0, 1, 2, 65, 1000] {
                // one block less than the field can number (flute's own limit), the field limit, and beyond
                for base in [blocks - 1, blocks] {
                    lim.push((fec, e, b, base * e as i64 * b as i64 + d));
                }
            }
        }
        let n_lim = lim.len();
        gens.push(Gen::new("block_count_limit_own_oti", n_lim, move |ctx, i| {
            let (fec, e, b, l) = lim[i];
            let mut rng = Rng::keyed(ctx.seed, "C08lim", 0, i as u64);
            let mut oti = OtiSpec::new(fec, e, b, if fec == Fec::NoCode { 0 } else { 1 });
            oti.inband_fti = i % 2 == 0;
            let mut spec = SenderSpec::new(OtiSpec::new(Fec::NoCode, 1400, 64, 0));
            spec.interleave = 1 + (i % 2) as u8;
            let mut obj = ObjSpec::new(rng.bytes(l as usize), "file:///lim/o.bin");
            obj.oti = Some(oti);
            obj.md5 = false;
            let script = vec![(When::Start, Op::Add(0)), (When::Start, Op::Publish)];
            let mut cr = CaseResult::default();
            let mut opts = ScriptOpts::every(100, 300);
            opts.max_packets = 600_000;
            opts.max_per_instant = 600_000;
            run_case(&spec, &[obj], &script, &opts, &mut cr, "lim");
            cr.sample = None;
            cr
        }));
        // ---- random sessions (cenc, several objects, sources)
        let n_rand = ctx.tier.pick(30_000usize, 2_000_000);
        gens.push(Gen::new("lattice", n_rand, move |ctx, i| {
            let mut rng = Rng::keyed(ctx.seed, "C08lat", 0, i as u64);
            let (mut spec, mut objs) = gen::gen_session(&mut rng, &gen::GenOpts::default());
            // the property speaks of E-byte slices: RaptorQ with N > 1 sub-blocks interleaves sub-symbols (RFC 6330
            // section 4.4.1.2) and is outside its statement; N = 1 here (N > 1 is exercised by the delivery checks)
            spec.oti.n = 1;
            for o in objs.iter_mut() {
                if let Some(x) = o.oti.as_mut() {
                    x.n = 1;
                }
            }
            let mut script: Vec<(When, Op)> = (0..objs.len()).map(|k| (When::Start, Op::Add(k))).collect();
            script.push((When::Start, Op::Publish));
            let mut cr = CaseResult::default();
            run_case(&spec, &objs, &script, &ScriptOpts::every(100, 400), &mut cr, "lat");
            cr
        }));
        // ---- removal at every packet index (small objects, first two transfers)
        let mut rem: Vec<(Fec, u8, u32, bool, Option<bool>, usize)> = vec![];
        for fec in [Fec::NoCode, Fec::Rs28, Fec::RaptorQ] {
            for il in [1u8, 2, 3] {
                for transfers in [1u32, 2, 3] {
                    for carousel in [false, true] {
                        for imm in [None, Some(true)] {
                            for r in 0..28usize {
                                rem.push((fec, il, transfers, carousel, imm, r));
                            }
                        }
                    }
                }
            }
        }
        let n_rem = rem.len();
        gens.push(Gen::new("removal", n_rem, move |ctx, i| {
            let (fec, il, transfers, carousel, imm, r) = rem[i];
            let mut rng = Rng::keyed(ctx.seed, "C08rem", 0, (i / 28) as u64);
            let parity = if fec == Fec::NoCode { 0 } else { 1 };
            let oti = OtiSpec::new(fec, 8, 3, parity);
            let mut spec = SenderSpec::new(OtiSpec::new(Fec::NoCode, 1024, 64, 0));
            spec.interleave = il;
            // 7 symbols in 3 blocks (3,2,2): 7..10 packets per transfer
            let mut obj = ObjSpec::new(gen_bytes(&mut rng, 53), "file:///r/o.bin");
            obj.oti = Some(oti);
            obj.max_transfer_count = transfers;
            obj.immediate_stop = imm;
            if carousel {
                obj.carousel = Some(CarouselSpec::DelayMs(0));
            }
            // the FDT takes 2 packets; r counts from the first packet of the stream
            let mut script = vec![(When::Start, Op::Add(0)), (When::Start, Op::Publish), (When::Packets(r), Op::Remove(0)), (When::Packets(r), Op::Publish)];
            let mut objs = vec![obj];
            // every other case: a second object waits behind the removed one in a queue with a single slot - the session
            // that closes the removed object goes on with it in the same read() call; it must be sent whole, flag at its end
            let follower = i % 2 == 1;
            if follower {
                spec.queues = vec![(0, 1)];
                let mut f = ObjSpec::new(gen_bytes(&mut rng, 41), "file:///r/follower.bin");
                f.oti = Some(OtiSpec::new(fec, 8, 3, parity));
                f.max_transfer_count = 1 + (i / 2 % 2) as u32;
                objs.push(f);
                script.insert(1, (When::Start, Op::Add(1)));
            }
            let mut cr = CaseResult::default();
            let mut opts = ScriptOpts::every(50, 60);
            opts.max_packets = 400;
            run_case(&spec, &objs, &script, &opts, &mut cr, &format!("rem{}|{}|{:?}|{}|", r, carousel, imm, follower));
            cr
        }));
        // ---- close session packet: A only there
        gens.push(Gen::new("close_session", 8, move |_ctx, i| {
            let tsi = [0u64, 1, 0xFFFF, 0x1_0000, 0xFFFF_FFFF, 0x1_0000_0000, 0xFFFF_FFFF_FFFF, 77][i];
            let mut spec = SenderSpec::new(OtiSpec::new(Fec::NoCode, 64, 4, 0));
            spec.tsi = tsi;
            let mut cr = CaseResult::default();
            let r = util::guarded(|| {
                let mut s = spec.sender()?;
                Ok::<_, String>(s.read_close_session(util::t0()))
            });
            match r {
                Ok(Ok(b)) => match vh::wire::decode(&b) {
                    Ok(p) if p.lct.a && !p.lct.b && p.lct.tsi == tsi => {
                        cr.shape = Some(util::fnv(&format!("cs{}", tsi)));
                        cr.sample = Some(json!({"tsi": tsi, "bytes": util::hex(&b)}));
                    }
                    other => cr.violations.push(Violation::new("close_session_packet", format!("close-session packet for TSI {} decodes to {:?}", tsi, other.map(|p| p.lct))).witness(json!({"bytes": util::hex(&b)}))),
                },
                Ok(Err(e)) => cr.inconclusive = Some(e),
                Err(p) => cr.violations.push(Violation::new("panic", format!("{} @ {}", p.msg, p.short_loc())).with("site", p.file())),
            }
            cr
        }));
        // ---- the close-session packet generated BEFORE or IN THE MIDDLE of the transfers (prepared for a shutdown hook,
        // sent redundantly, one of several destinations told to stop): every packet read() returns afterwards still has A = 0
        gens.push(Gen::new("close_session_then_more", 48, move |ctx, i| {
            let mut rng = Rng::keyed(ctx.seed, "C08cs", 0, i as u64);
            let fec = ALL_FEC[i % ALL_FEC.len()];
            let mut oti = OtiSpec::new(fec, 16, if fec == Fec::Raptor { 5 } else { 3 }, if fec == Fec::NoCode { 0 } else { 1 });
            oti.inband_fti = i % 2 == 0;
            let mut spec = SenderSpec::new(OtiSpec::new(Fec::NoCode, 256, 8, 0));
            spec.tsi = *rng.pick(&[1u64, 7, 0x1_0000, 0xFFFF_FFFF_FFFF]);
            let at = [0usize, 1, 2, 5, 9, 14][(i / ALL_FEC.len()) % 6];
            let twice = i % 3 == 0;
            let mut cr = CaseResult::default();
            let r = util::guarded(|| {
                let mut s = spec.sender()?;
                for k in 0..2 {
                    let len = if fec == Fec::Raptor { 16 * 5 * (k + 1) } else { 16 * (4 + 3 * k) - 5 };
                    let mut o = ObjSpec::new(gen_bytes(&mut rng, len), &format!("file:///cs/{}", k));
                    o.oti = Some(oti.clone());
                    o.max_transfer_count = 2;
                    let b = build_object(&o)?;
                    s.add_object(0, b.desc).map_err(|e| format!("add_object: {:?}", e))?;
                }
                s.publish(util::t0()).map_err(|e| format!("publish: {:?}", e))?;
                let mut pkts: Vec<(bool, Vec<u8>)> = vec![];
                let mut t_ms = 0u64;
                let mut idle = 0;
                while idle < 3 && pkts.len() < 400 {
                    if pkts.iter().filter(|p| !p.0).count() == at && !pkts.iter().any(|p| p.0) || (twice && pkts.iter().filter(|p| !p.0).count() == at + 6 && pkts.iter().filter(|p| p.0).count() == 1) {
                        pkts.push((true, s.read_close_session(util::at(t_ms))));
                    }
                    match s.read(util::at(t_ms)) {
                        Some(b) => {
                            idle = 0;
                            pkts.push((false, b));
                        }
                        None => {
                            idle += 1;
                            t_ms += 100;
                        }
                    }
                }
                Ok::<_, String>(pkts)
            });
            match r {
                Ok(Ok(pkts)) => {
                    let mut after = 0u64;
                    let mut seen_close = false;
                    for (k, (is_close, b)) in pkts.iter().enumerate() {
                        let p = match vh::wire::decode(b) {
                            Ok(p) => p,
                            Err(e) => {
                                cr.violations.push(Violation::new("undecodable", format!("packet {} does not decode: {}", k, e)).witness(json!({"bytes": util::hex(b)})));
                                break;
                            }
                        };
                        if *is_close {
                            seen_close = true;
                            if !p.lct.a || p.lct.b || p.lct.tsi != spec.tsi {
                                cr.violations.push(Violation::new("close_session_packet", format!("close-session packet generated after {} packets decodes to {:?}", k, p.lct)).witness(json!({"bytes": util::hex(b)})));
                            }
                        } else {
                            if seen_close {
                                after += 1;
                            }
                            if p.lct.a {
                                cr.violations.push(Violation::new("close_session_flag_on_data", format!(
                                    "packet {} returned by read() (TOI {}, SBN {}, ESI {}) carries the close-session flag; read_close_session() had been called after {} packets", k, p.lct.toi, p.sbn, p.esi, at))
                                    .with("fec", fec.name()).with("after_read_close_session", seen_close).with("fdt_packet", p.lct.toi == 0)
                                    .witness(json!({"packet": k, "close_session_generated_after": at, "bytes": util::hex(&b[..b.len().min(64)])})));
                                break;
                            }
                        }
                    }
                    cr.count("packets_read_after_the_close_session_packet", after);
                    if after > 0 {
                        cr.shape = Some(util::fnv(&format!("csm|{}|{}|{}", fec.name(), at, twice)));
                    }
                    cr.sample = Some(json!({"fec": fec.name(), "close_session_generated_after": at, "packets": pkts.len(), "read_after": after}));
                }
                Ok(Err(e)) => cr.inconclusive = Some(e),
                Err(p) => cr.violations.push(Violation::new("panic", format!("{} @ {}", p.msg, p.short_loc())).with("site", p.file())),
            }
            cr
        }));
        gens
    });
}
