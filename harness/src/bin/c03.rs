//! C03 - no silent corruption: whatever sub-multiset of a session's packets
//! arrives in whatever order, `complete` means the sender's exact bytes; with
//! MD5 announced and checked this also holds when payload bytes are altered; a
//! writer is never both completed and failed.
use serde_json::json;
use std::sync::Arc;
use vh::gen;
use vh::mwriter::WState;
use vh::report::*;
use vh::scenario::*;
use vh::session::*;
use vh::small::*;
use vh::util::{self, Rng};

/// k-th permutation of 0..n (factoradic)
fn nth_perm(n: usize, mut k: usize) -> Vec<usize> {
    let mut items: Vec<usize> = (0..n).collect();
    let mut fact = vec![1usize; n + 1];
    for i in 1..=n {
        fact[i] = fact[i - 1] * i;
    }
    let mut out = Vec::with_capacity(n);
    for i in (0..n).rev() {
        let f = fact[i];
        let q = k / f;
        k %= f;
        out.push(items.remove(q));
    }
    out
}

fn factorial(n: usize) -> usize {
    (1..=n).product()
}

/// Deliver `pkts` (bytes may be mutated copies) and apply the safety oracle.
fn deliver_judge(em: &Emitted, pkts: &[(Vec<u8>, std::time::SystemTime)], opts: &RxOpts, tag: &str, desc: &dyn Fn() -> serde_json::Value, out: &mut Vec<Violation>) -> (u64, u64, Vec<u64>) {
    let r = util::guarded(|| receive(&em.spec.endpoint(), pkts.iter().map(|(b, t)| (b.as_slice(), *t)), opts, None));
    let rx = match r {
        Ok(rx) => rx,
        Err(p) => {
            let v = if p.is_step_budget() {
                Violation::new("hang", format!("step budget exhausted at {}", p.step_site())).with("site", p.step_site())
            } else {
                Violation::new("panic", format!("{} @ {}", p.msg, p.short_loc())).with("site", p.file())
            };
            out.push(v.with("tag", tag).witness(json!({"session": em.json(), "history": desc()})));
            return (0, 0, vec![]);
        }
    };
    let mut n_complete = 0;
    let mut states = vec![];
    for w in &rx.log.writers {
        states.push(util::fnv(&rx.log.abstract_trace_of(w.wid)));
        let i = match em.obj_index_of(w.toi) {
            Some(i) => i,
            None => {
                out.push(Violation::new("unknown_toi", format!("writer for TOI {} that is not in the session", w.toi)).with("tag", tag)
                    .witness(json!({"session": em.json(), "history": desc()})));
                continue;
            }
        };
        if w.state == WState::Complete {
            n_complete += 1;
            if w.data != em.objs[i].data {
                let pos = w.data.iter().zip(em.objs[i].data.iter()).position(|(a, b)| a != b).unwrap_or(w.data.len().min(em.objs[i].data.len()));
                out.push(Violation::new("complete_with_wrong_bytes", format!(
                    "toi {}: writer completed with {} bytes that differ from the {}-byte object (first difference at {}); trace {}",
                    w.toi, w.data.len(), em.objs[i].data.len(), pos, rx.log.trace_of(w.wid)))
                    .with("fec", em.oti_of(i).fec.name()).with("cenc", em.objs[i].cenc.name()).with("tag", tag)
                    .with("md5", em.objs[i].md5).with("transfers", em.objs[i].max_transfer_count)
                    .witness(json!({"session": em.json(), "history": desc(), "trace": rx.log.trace_of(w.wid)})));
            }
        }
        if w.nb_terminal > 1 {
            out.push(Violation::new("complete_and_failed", format!("toi {}: writer received {} terminal calls: {}", w.toi, w.nb_terminal, rx.log.trace_of(w.wid)))
                .with("tag", tag).witness(json!({"session": em.json(), "history": desc()})));
        }
    }
    for m in rx.log.illegal() {
        out.push(Violation::new("writer_protocol", m).with("tag", tag).witness(json!({"session": em.json(), "history": desc()})));
    }
    (rx.log.writers.len() as u64, n_complete, states)
}

fn stream_pkts(em: &Emitted, order: &[usize]) -> Vec<(Vec<u8>, std::time::SystemTime)> {
    order.iter().map(|k| (em.stream[*k].bytes.clone(), em.stream[*k].t)).collect()
}

fn main() {
    let prop = Property {
        id: "C03",
        level: "fault_enumeration",
        rule: "safety oracle at the writer boundary (Complete => bytes equal the sender's object; one terminal call) over: ALL permutations of the packets of small sessions (n<=8 quick, n<=10 thorough, FDT packet included), ALL sub-multisets with multiplicity <=2 of sessions with <=8 packets in three orders, seeded shuffles / bounded-displacement reorderings of larger multi-transfer and carousel sessions with stale packets, receive-once on and off, and payload faults (bit flips, truncation, extension, symbol swaps) on MD5-announced objects; a case is one chunk of histories of one shape, non-trivial when at least one writer was created; distinct = (shape, chunk); esi_above_16_bits: RaptorQ with 65 535 repair symbols per block, symbols with ESI >= 2^16 delivered first, then the last source symbols",
        assumptions: vec![
            "liveness is not demanded: a history may legitimately end without completion".into(),
            "payload faults are only generated for objects with Content-MD5 announced and MD5 checking enabled".into(),
        ],
        exhaustive: true,
        budget_quick_s: 150,
        budget_thorough_s: 1800,
    };
    run_property(prop, |ctx| {
        let mut gens = vec![];
        let max_total = ctx.tier.pick(8usize, 10);
        let cat = small_catalogue(max_total - 1, true);
        let mut shapes: Vec<(String, Emitted)> = vec![];
        for c in &cat {
            if let Ok(Ok(em)) = util::guarded(|| build_small(c, ctx.seed)) {
                if em.tois.iter().all(|t| t.is_some()) && em.finished && em.stream.len() <= max_total && em.stream.len() >= 3 {
                    shapes.push((c.name(), em));
                }
            }
        }
        let shapes = Arc::new(shapes);
        // ---- all permutations
        const CHUNK: usize = 720;
        let mut plan: Vec<(usize, usize)> = vec![];
        for (si, (_, em)) in shapes.iter().enumerate() {
            let total = factorial(em.stream.len());
            for c in 0..total.div_ceil(CHUNK) {
                plan.push((si, c));
            }
        }
        let n_plan = plan.len();
        let sh = shapes.clone();
        gens.push(Gen::new("all_permutations", n_plan, move |_ctx, i| {
            let (si, c) = plan[i];
            let (name, em) = &sh[si];
            let n = em.stream.len();
            let total = factorial(n);
            let mut cr = CaseResult::default();
            let (mut nw, mut nc, mut runs) = (0, 0, 0);
            for k in (c * CHUNK)..((c + 1) * CHUNK).min(total) {
                let order = nth_perm(n, k);
                let pk = stream_pkts(em, &order);
                let (w, cmp, st) = deliver_judge(em, &pk, &RxOpts::default(), "permutation", &|| json!({"shape": name, "order": order}), &mut cr.violations);
                nw += w;
                nc += cmp;
                runs += 1;
                cr.states.extend(st);
                if distinct_sigs(&cr.violations) > 6 || cr.violations.len() > 2000 {
                    break;
                }
            }
            cr.states.sort();
            cr.states.dedup();
            cr.count("histories", runs);
            cr.count("writers", nw);
            cr.count("completes", nc);
            if nw > 0 {
                cr.shape = Some(util::fnv(&format!("{}|{}", name, c)));
            }
            if c == 0 {
                cr.sample = Some(json!({"shape": name, "packets": n, "permutations": total, "chunk_completes": nc}));
            }
            limit(&mut cr.violations, 4);
            cr
        }));
        // ---- all sub-multisets (multiplicity 0..2) of sessions with <= 8 packets, 3 orders
        let cat2 = small_catalogue(7, true);
        let mut shapes2: Vec<(String, Emitted)> = vec![];
        for c in &cat2 {
            if let Ok(Ok(em)) = util::guarded(|| build_small(c, ctx.seed ^ 0x55)) {
                if em.tois.iter().all(|t| t.is_some()) && em.finished && em.stream.len() <= 8 && em.stream.len() >= 3 {
                    shapes2.push((c.name(), em));
                }
            }
        }
        let shapes2 = Arc::new(shapes2);
        const CH2: usize = 729;
        let mut plan2: Vec<(usize, usize)> = vec![];
        for (si, (_, em)) in shapes2.iter().enumerate() {
            let total = 3usize.pow(em.stream.len() as u32);
            for c in 0..total.div_ceil(CH2) {
                plan2.push((si, c));
            }
        }
        let n_plan2 = plan2.len();
        let sh2 = shapes2.clone();
        gens.push(Gen::new("all_submultisets", n_plan2, move |ctx, i| {
            let (si, c) = plan2[i];
            let (name, em) = &sh2[si];
            let n = em.stream.len();
            let total = 3usize.pow(n as u32);
            let mut rng = Rng::keyed(ctx.seed, "C03ms", si as u64, c as u64);
            let mut cr = CaseResult::default();
            let (mut nw, mut nc, mut runs) = (0, 0, 0);
            for code in (c * CH2)..((c + 1) * CH2).min(total) {
                let mut ms: Vec<usize> = vec![];
                let mut x = code;
                for k in 0..n {
                    for _ in 0..(x % 3) {
                        ms.push(k);
                    }
                    x /= 3;
                }
                if ms.is_empty() {
                    continue;
                }
                for ord in 0..3 {
                    let mut order = ms.clone();
                    match ord {
                        1 => order.reverse(),
                        2 => rng.shuffle(&mut order),
                        _ => {}
                    }
                    let ro = ord != 1;
                    let mut opts = RxOpts::default();
                    opts.config.object_receive_once = ro;
                    let pk = stream_pkts(em, &order);
                    let (w, cmp, st) = deliver_judge(em, &pk, &opts, "submultiset", &|| json!({"shape": name, "order": order, "receive_once": ro}), &mut cr.violations);
                    nw += w;
                    nc += cmp;
                    runs += 1;
                    cr.states.extend(st);
                }
                if distinct_sigs(&cr.violations) > 6 || cr.violations.len() > 2000 {
                    break;
                }
            }
            cr.states.sort();
            cr.states.dedup();
            cr.count("histories", runs);
            cr.count("writers", nw);
            cr.count("completes", nc);
            if nw > 0 {
                cr.shape = Some(util::fnv(&format!("{}|{}", name, c)));
            }
            if c == 1 {
                cr.sample = Some(json!({"shape": name, "packets": n, "submultisets": total, "chunk_completes": nc}));
            }
            limit(&mut cr.violations, 4);
            cr
        }));
        // ---- sampled reorderings of larger sessions (multi-transfer, carousel cycles, cenc)
        let n_s = ctx.tier.pick(12_000usize, 200_000);
        gens.push(Gen::new("sampled_reorder", n_s, move |ctx, i| {
            let mut rng = Rng::keyed(ctx.seed, "C03s", 0, i as u64);
            let o = gen::GenOpts { max_objects: 3, max_symbols: 30, sources: false, transfers_max: 3, realistic_every: 0, ..Default::default() };
            let (spec, mut objs) = gen::gen_session(&mut rng, &o);
            let carousel = i % 5 == 0;
            if carousel {
                for ob in objs.iter_mut() {
                    ob.carousel = Some(CarouselSpec::DelayMs(200));
                    ob.max_transfer_count = 1;
                }
            }
            let mut cr = CaseResult::default();
            let eo = EmitOpts { max_instants: if carousel { 12 } else { 400 }, max_packets: 2500, ..Default::default() };
            let em = match util::guarded(|| emit(&spec, &objs, &eo)) {
                Ok(Ok(em)) => em,
                _ => return cr,
            };
            if em.stream.len() > 2500 || em.stream.is_empty() {
                return cr;
            }
            let n = em.stream.len();
            let (mut nw, mut nc, mut runs) = (0, 0, 0);
            for round in 0..5 {
                let mut order: Vec<usize> = (0..n).collect();
                match round {
                    0 => rng.shuffle(&mut order),
                    1 => order.reverse(),
                    2 => {
                        // bounded displacement
                        let d = rng.range(1, 8) as usize;
                        for a in 0..n {
                            let b = (a + rng.below(d as u64 + 1) as usize).min(n - 1);
                            order.swap(a, b);
                        }
                    }
                    3 => {
                        // random subset with duplicates, shuffled
                        order.retain(|_| rng.chance(3, 4));
                        let extra: Vec<usize> = (0..n / 4).map(|_| rng.below(n as u64) as usize).collect();
                        order.extend(extra);
                        rng.shuffle(&mut order);
                    }
                    _ => {
                        // in order, then the whole stream again (stale packets after completion)
                        let again: Vec<usize> = (0..n).collect();
                        order.extend(again);
                    }
                }
                let mut opts = RxOpts::default();
                opts.config.object_receive_once = round % 2 == 0;
                let pk = stream_pkts(&em, &order);
                let (w, cmp, st) = deliver_judge(&em, &pk, &opts, "sampled", &|| json!({"round": round, "order_head": order.iter().take(60).collect::<Vec<_>>() }), &mut cr.violations);
                nw += w;
                nc += cmp;
                runs += 1;
                cr.states.extend(st);
            }
            cr.states.sort();
            cr.states.dedup();
            cr.count("histories", runs);
            cr.count("writers", nw);
            cr.count("completes", nc);
            if nw > 0 {
                let mut s = String::new();
                for (k, o) in em.objs.iter().enumerate() {
                    s.push_str(&obj_shape(o, em.oti_of(k), em.transfer_len[k].unwrap_or(0)));
                }
                cr.shape = Some(util::fnv(&s));
            }
            cr.sample = Some(json!({"session": em.json(), "histories": runs, "completes": nc}));
            limit(&mut cr.violations, 4);
            cr
        }));
        // ---- payload faults on MD5-announced objects
        let n_m = ctx.tier.pick(12_000usize, 200_000);
        gens.push(Gen::new("payload_faults_md5", n_m, move |ctx, i| {
            let mut rng = Rng::keyed(ctx.seed, "C03m", 0, i as u64);
            let o = gen::GenOpts { max_objects: 2, max_symbols: 24, sources: false, transfers_max: 2, realistic_every: 0, ..Default::default() };
            let (spec, mut objs) = gen::gen_session(&mut rng, &o);
            for ob in objs.iter_mut() {
                ob.md5 = true;
            }
            let mut cr = CaseResult::default();
            let em = match util::guarded(|| emit(&spec, &objs, &EmitOpts { max_packets: 1500, ..Default::default() })) {
                Ok(Ok(em)) => em,
                _ => return cr,
            };
            if em.stream.len() > 1500 || em.stream.is_empty() {
                return cr;
            }
            let n = em.stream.len();
            let objpk: Vec<usize> = (0..n).filter(|k| em.stream[*k].toi() != 0 && !em.stream[*k].payload().is_empty()).collect();
            if objpk.is_empty() {
                return cr;
            }
            let (mut nw, mut nc, mut runs) = (0, 0, 0);
            for round in 0..6 {
                let mut pk = stream_pkts(&em, &(0..n).collect::<Vec<_>>());
                let nfault = rng.range(1, 3);
                let mut faults = vec![];
                for _ in 0..nfault {
                    let k = *rng.pick(&objpk);
                    let off = em.stream[k].dec.payload_off;
                    let plen = pk[k].0.len().saturating_sub(off);
                    if plen == 0 {
                        continue;
                    }
                    match rng.below(5) {
                        0 | 1 => {
                            let pos = off + rng.below(plen as u64) as usize;
                            let bit = 1u8 << rng.below(8);
                            pk[k].0[pos] ^= bit;
                            faults.push(format!("flip pkt{} byte{} bit{:#x}", k, pos - off, bit));
                        }
                        2 => {
                            let cut = rng.range(1, plen as u64) as usize;
                            let l = pk[k].0.len();
                            pk[k].0.truncate(l - cut);
                            faults.push(format!("truncate pkt{} by {}", k, cut));
                        }
                        3 => {
                            let add = rng.range(1, 9) as usize;
                            let extra = rng.bytes(add);
                            pk[k].0.extend(extra);
                            faults.push(format!("extend pkt{} by {}", k, add));
                        }
                        _ => {
                            let k2 = *rng.pick(&objpk);
                            if em.stream[k2].toi() == em.stream[k].toi() && k2 != k && pk[k2].0.len() > em.stream[k2].dec.payload_off {
                                let off2 = em.stream[k2].dec.payload_off;
                                let a = pk[k].0[off..].to_vec();
                                let b = pk[k2].0[off2..].to_vec();
                                pk[k].0.truncate(off);
                                pk[k].0.extend(b);
                                pk[k2].0.truncate(off2);
                                pk[k2].0.extend(a);
                                faults.push(format!("swap payloads pkt{} pkt{}", k, k2));
                            }
                        }
                    }
                }
                if round >= 3 {
                    // also lose a few packets so that repair symbols (possibly corrupt) are used
                    let mut kept = vec![];
                    for (k, p) in pk.into_iter().enumerate() {
                        if em.stream[k].toi() == 0 || !rng.chance(1, 6) {
                            kept.push(p);
                        }
                    }
                    pk = kept;
                }
                let mut opts = RxOpts::default();
                opts.script.md5_check = true;
                let (w, cmp, st) = deliver_judge(&em, &pk, &opts, "payload_fault", &|| json!({"faults": faults}), &mut cr.violations);
                nw += w;
                nc += cmp;
                runs += 1;
                cr.states.extend(st);
            }
            cr.states.sort();
            cr.states.dedup();
            cr.count("histories", runs);
            cr.count("writers", nw);
            cr.count("completes", nc);
            if nw > 0 {
                let mut s = String::new();
                for (k, o) in em.objs.iter().enumerate() {
                    s.push_str(&obj_shape(o, em.oti_of(k), em.transfer_len[k].unwrap_or(0)));
                }
                cr.shape = Some(util::fnv(&s));
            }
            cr.sample = Some(json!({"session": em.json(), "histories": runs, "completes_despite_faults": nc}));
            limit(&mut cr.violations, 4);
            cr
        }));
        // ---- two senders whose sessions differ only by their endpoint (source address - IPv4, IPv6 literals sharing their
        // first groups -, group, port), same TSI, same TOI, same OTI and length, different bytes, no MD5: their packets
        // interleaved in every rhythm. A Complete writer must hold exactly ONE sender's object, the one of its endpoint.
        let pairs: Vec<(Option<&str>, &str, u16, Option<&str>, &str, u16)> = vec![
            (Some("10.0.0.1"), "224.0.0.1", 3400, Some("10.0.0.2"), "224.0.0.1", 3400),
            (Some("2001:db8::1"), "ff3e::1", 3400, Some("2001:db8::2"), "ff3e::1", 3400),
            (Some("2001:db8:0:1::7"), "ff3e::1", 3400, Some("2001:db8:0:2::7"), "ff3e::1", 3400),
            (Some("fe80::1"), "224.0.0.1", 3400, Some("fe80::1:1"), "224.0.0.1", 3400),
            (None, "224.0.0.1", 3400, Some("10.0.0.1"), "224.0.0.1", 3400),
            (None, "224.0.0.1", 3400, None, "224.0.0.2", 3400),
            (None, "ff3e::1", 3400, None, "ff3e::2", 3400),
            (None, "224.0.0.1", 3400, None, "224.0.0.1", 3401),
            (Some("10.0.0.1:5000"), "224.0.0.1", 3400, Some("10.0.0.1:5001"), "224.0.0.1", 3400),
        ];
        let np = pairs.len();
        let n_two = np * ctx.tier.pick(40usize, 2000);
        gens.push(Gen::new("two_senders", n_two, move |ctx, i| {
            let mut rng = Rng::keyed(ctx.seed, "C03two", 0, i as u64);
            let (sa, ga, pa, sb, gb, pb) = pairs[i % np];
            let epa = flute::core::UDPEndpoint::new(sa.map(|x| x.to_string()), ga.to_string(), pa);
            let epb = flute::core::UDPEndpoint::new(sb.map(|x| x.to_string()), gb.to_string(), pb);
            let mut cr = CaseResult::default();
            let fec = *rng.pick(&[Fec::NoCode, Fec::Rs28, Fec::RaptorQ]);
            let mut oti = OtiSpec::new(fec, 16, 4, if fec == Fec::NoCode { 0 } else { 1 });
            oti.inband_fti = rng.chance(1, 2);
            let len = rng.range(20, 200) as usize;
            let mk = |rng: &mut Rng| {
                let mut spec = SenderSpec::new(OtiSpec::new(Fec::NoCode, 4096, 8, 0));
                spec.tsi = 1;
                spec.fdt_carousel = CarouselSpec::DelayMs(3_600_000);
                let mut o = ObjSpec::new(rng.bytes(len), "file:///two/o.bin");
                o.oti = Some(oti.clone());
                o.md5 = false;
                emit(&spec, &[o], &EmitOpts { step_ms: 10, max_instants: 30, ..Default::default() })
            };
            let (a, b) = match (mk(&mut rng), mk(&mut rng)) {
                (Ok(a), Ok(b)) => (a, b),
                _ => return cr,
            };
            // interleave: strict alternation, bursts, or one session after the other
            let mut order: Vec<(bool, usize)> = vec![];
            let (mut ia, mut ib) = (0, 0);
            let rhythm = rng.below(3);
            while ia < a.stream.len() || ib < b.stream.len() {
                let take_a = if ia >= a.stream.len() { false } else if ib >= b.stream.len() { true } else { match rhythm { 0 => (ia + ib) % 2 == 0, 1 => rng.chance(1, 2), _ => ia < a.stream.len() } };
                if take_a {
                    order.push((true, ia));
                    ia += 1;
                } else {
                    order.push((false, ib));
                    ib += 1;
                }
            }
            let r = util::guarded(|| {
                let (builder, log) = vh::mwriter::MonBuilder::new(Default::default());
                let mut rx = flute::receiver::MultiReceiver::new(builder.clone(), Some(RxOpts::default().config), false);
                for (is_a, k) in &order {
                    let (ep, p) = if *is_a { (&epa, &a.stream[*k]) } else { (&epb, &b.stream[*k]) };
                    let _ = rx.push(ep, &p.bytes, p.t);
                }
                drop(rx);
                let l = log.borrow();
                l.writers.iter().map(|w| (w.endpoint.clone(), w.state, w.data.clone())).collect::<Vec<_>>()
            });
            let writers = match r {
                Ok(w) => w,
                Err(p) => {
                    cr.violations.push(Violation::new("panic", format!("{} @ {}", p.msg, p.short_loc())).with("site", p.file()).with("tag", "two_senders"));
                    return cr;
                }
            };
            let (da, db) = (&a.objs[0].data, &b.objs[0].data);
            let wit = json!({"endpoint_a": format!("{:?}", epa), "endpoint_b": format!("{:?}", epb), "oti": oti.json(), "len": len, "rhythm": rhythm});
            let mut completes = 0u64;
            for (ep, st, data) in &writers {
                if *st != WState::Complete {
                    continue;
                }
                completes += 1;
                let own = if *ep == epa { Some(da) } else if *ep == epb { Some(db) } else { None };
                if own != Some(data) {
                    let from_a = data.iter().zip(da.iter()).filter(|(x, y)| x == y).count();
                    let from_b = data.iter().zip(db.iter()).filter(|(x, y)| x == y).count();
                    cr.violations.push(Violation::new("complete_with_wrong_bytes", format!(
                        "two senders on {:?} and {:?} (same TSI and TOI): a writer created for {:?} completed with {} bytes that are not that sender's object ({} bytes agree with A's object, {} with B's)",
                        epa, epb, ep, data.len(), from_a, from_b))
                        .with("tag", "two_senders").with("fec", fec.name()).with("ipv6", ga.contains(':') || sa.map(|x| x.matches(':').count() > 1).unwrap_or(false)).witness(wit.clone()));
                }
            }
            // each session on its own is a clean, complete session
            if completes != 2 && epa != epb {
                cr.violations.push(Violation::new("two_senders_not_both_delivered", format!("two clean sessions on {:?} and {:?}: {} complete writer(s), 2 expected (writers: {:?})", epa, epb, completes, writers.iter().map(|w| (format!("{:?}", w.0.source_address), w.1)).collect::<Vec<_>>()))
                    .with("tag", "two_senders").with("fec", fec.name()).witness(wit));
            }
            cr.count("histories", 1);
            cr.count("writers", writers.len() as u64);
            cr.count("completes", completes);
            if completes > 0 {
                cr.shape = Some(util::fnv(&format!("two|{}|{}|{}|{}", i % np, fec.name(), oti.inband_fti, rhythm)));
            }
            if i % 97 == 0 {
                cr.sample = Some(json!({"endpoints": [format!("{:?}", epa), format!("{:?}", epb)], "completes": completes}));
            }
            cr
        }));
        // ---- a sender that is stopped in the middle of a transfer (close-session packet) and restarted with the same
        // configuration: same endpoint, TSI, TOI, FDT instance id, OTI and length, other bytes, no MD5. What the first
        // session left behind must not leak into the second: a complete writer holds exactly one version.
        let n_rs = ctx.tier.pick(400usize, 30_000);
        // ---- RaptorQ with 65 535 repair symbols per block: encoding symbol ids above 2^16 (the ESI field is 24 bits wide).
        // The receiver gets the FDT, the repair symbols with ESI >= 65 536 in random order, then a few other symbols
        let n_hi = ctx.tier.pick(12usize, 60);
        gens.push(Gen::new("esi_above_16_bits", n_hi, move |ctx, i| {
            let mut rng = Rng::keyed(ctx.seed, "C03hi", 0, i as u64);
            let mut cr = CaseResult::default();
            let mut oti = OtiSpec::new(Fec::RaptorQ, 16, 64, 65535);
            oti.inband_fti = i % 2 == 0;
            let len = rng.range(180, 1000) as usize;
            let mut spec = SenderSpec::new(OtiSpec::new(Fec::NoCode, 4096, 8, 0));
            spec.fdt_carousel = CarouselSpec::DelayMs(3_600_000);
            let mut o = ObjSpec::new(rng.bytes(len), "file:///hi/o.bin");
            o.oti = Some(oti.clone());
            o.md5 = i % 3 == 0;
            let em = match emit(&spec, &[o], &EmitOpts { step_ms: 10, max_instants: 30, max_packets: 70_000, ..Default::default() }) {
                Ok(e) => e,
                Err(e) => {
                    cr.inconclusive = Some(e);
                    return cr;
                }
            };
            let toi = match em.tois[0] {
                Some(t) => t,
                None => return cr,
            };
            let fdt: Vec<usize> = (0..em.stream.len()).filter(|k| em.stream[*k].toi() == 0).collect();
            let mut high: Vec<usize> = (0..em.stream.len()).filter(|k| em.stream[*k].toi() == toi && em.stream[*k].dec.esi >= 65_536).collect();
            let low: Vec<usize> = (0..em.stream.len()).filter(|k| em.stream[*k].toi() == toi && em.stream[*k].dec.esi < 65_536).collect();
            cr.count("symbols_with_esi_above_16_bits_emitted", high.len() as u64);
            if high.is_empty() {
                cr.inconclusive = Some("no encoding symbol id above 65535 was emitted".into());
                return cr;
            }
            // (the very last symbol carries the close-object flag: it ends the reception wherever it arrives, which is
            // not what this workload is about - it is delivered in one case out of four only)
            if i % 4 != 3 {
                high.retain(|k| !em.stream[*k].dec.lct.b);
            }
            rng.shuffle(&mut high);
            let mut order = fdt.clone();
            order.extend(high.iter().copied());
            // then 2..8 symbols from below: the last source symbols of the block (even cases), or symbols picked anywhere
            // (source and early repair symbols)
            let extra = rng.range(3, 10) as usize;
            let k_src = em.transfer_len[0].unwrap_or(0).div_ceil(16) as u32;
            for n in 0..extra {
                if i % 2 == 0 || i % 3 == 1 {
                    match low.iter().find(|k| em.stream[**k].dec.esi + 1 + n as u32 == k_src) {
                        Some(k) => order.push(*k),
                        None => order.push(*rng.pick(&low)),
                    }
                } else {
                    order.push(*rng.pick(&low));
                }
            }
            let pk = stream_pkts(&em, &order);
            let desc = || json!({"high_esi_symbols": high.len(), "extra": extra, "len": len, "order": order.iter().map(|k| em.stream[*k].dec.esi).collect::<Vec<_>>()});
            let (nw, nc, st) = deliver_judge(&em, &pk, &RxOpts::default(), "esi_above_16_bits", &desc, &mut cr.violations);
            cr.count("writers", nw);
            cr.count("completes", nc);
            cr.states = st;
            if nw > 0 {
                cr.shape = Some(util::fnv(&format!("hi|{}|{}", i, len)));
            }
            cr.sample = Some(json!({"len": len, "high_esi_symbols": high.len(), "writers": nw, "completes": nc, "k": k_src, "tail_esis": order.iter().rev().take(10).map(|k| em.stream[*k].dec.esi).collect::<Vec<_>>()}));
            limit(&mut cr.violations, 2);
            cr
        }));
        gens.push(Gen::new("restarted_sender", n_rs, move |ctx, i| {
            let mut rng = Rng::keyed(ctx.seed, "C03rs", 0, i as u64);
            let mut cr = CaseResult::default();
            let fec = *rng.pick(&[Fec::NoCode, Fec::Rs28, Fec::RaptorQ]);
            let mut oti = OtiSpec::new(fec, 16, 4, if fec == Fec::NoCode { 0 } else { 1 });
            oti.inband_fti = rng.chance(1, 2);
            let len = rng.range(40, 300) as usize;
            let mk = |rng: &mut Rng| {
                let mut spec = SenderSpec::new(OtiSpec::new(Fec::NoCode, 4096, 8, 0));
                spec.tsi = 1;
                spec.fdt_carousel = CarouselSpec::DelayMs(3_600_000);
                let mut o = ObjSpec::new(rng.bytes(len), "file:///restart/o.bin");
                o.oti = Some(oti.clone());
                o.md5 = false;
                emit(&spec, &[o], &EmitOpts { step_ms: 10, max_instants: 30, ..Default::default() })
            };
            let (a, b) = match (mk(&mut rng), mk(&mut rng)) {
                (Ok(a), Ok(b)) => (a, b),
                _ => return cr,
            };
            let ep = a.spec.endpoint();
            // the first session is cut after its FDT and 1 .. n-1 object packets (some of them lost)
            let first_obj = a.stream.iter().position(|p| p.toi() != 0).unwrap_or(0);
            let nobj = a.stream.len() - first_obj;
            if nobj < 2 {
                return cr;
            }
            let cut = first_obj + rng.range(1, nobj as u64 - 1) as usize;
            let keep_a: Vec<usize> = (0..cut).filter(|k| *k < first_obj || rng.chance(3, 4)).collect();
            let cleanup_between = rng.chance(1, 2);
            let r = util::guarded(|| {
                let (builder, log) = vh::mwriter::MonBuilder::new(Default::default());
                let mut rx = flute::receiver::MultiReceiver::new(builder.clone(), Some(RxOpts::default().config), false);
                for k in &keep_a {
                    let _ = rx.push(&ep, &a.stream[*k].bytes, a.stream[*k].t);
                }
                let cs = flute::verif::new_alc_pkt_close_session(&0u128, 1);
                let _ = rx.push(&ep, &cs, a.stream[cut - 1].t);
                if cleanup_between {
                    rx.cleanup(a.stream[cut - 1].t);
                }
                for p in &b.stream {
                    let _ = rx.push(&ep, &p.bytes, p.t);
                }
                drop(rx);
                let l = log.borrow();
                l.writers.iter().map(|w| (w.state, w.data.clone())).collect::<Vec<_>>()
            });
            let writers = match r {
                Ok(w) => w,
                Err(p) => {
                    cr.violations.push(Violation::new("panic", format!("{} @ {}", p.msg, p.short_loc())).with("site", p.file()).with("tag", "restarted_sender"));
                    return cr;
                }
            };
            let (da, db) = (&a.objs[0].data, &b.objs[0].data);
            let wit = json!({"oti": oti.json(), "len": len, "first_session_packets_delivered": keep_a, "cut": cut, "cleanup_between": cleanup_between});
            let mut completes = 0u64;
            let mut v2 = false;
            for (st, data) in &writers {
                if *st != WState::Complete {
                    continue;
                }
                completes += 1;
                v2 |= data == db;
                if data != da && data != db {
                    let from_a = data.iter().zip(da.iter()).filter(|(x, y)| x == y).count();
                    let from_b = data.iter().zip(db.iter()).filter(|(x, y)| x == y).count();
                    cr.violations.push(Violation::new("complete_with_wrong_bytes", format!(
                        "sender stopped after {} packets (close-session) and restarted with the same TSI / TOI / FDT id: a writer completed with {} bytes that are neither version ({} bytes agree with the first, {} with the second)", keep_a.len(), data.len(), from_a, from_b))
                        .with("tag", "restarted_sender").with("fec", fec.name()).with("md5", false).witness(wit.clone()));
                }
            }
            if !v2 {
                cr.violations.push(Violation::new("second_session_not_delivered", format!("the restarted session (clean, in order, after a close-session packet) is not delivered: writers {:?}", writers.iter().map(|w| w.0).collect::<Vec<_>>()))
                    .with("tag", "restarted_sender").with("fec", fec.name()).witness(wit));
            }
            cr.count("histories", 1);
            cr.count("writers", writers.len() as u64);
            cr.count("completes", completes);
            if completes > 0 {
                cr.shape = Some(util::fnv(&format!("rs|{}|{}|{}|{}", fec.name(), oti.inband_fti, cleanup_between, cut * 4 / a.stream.len().max(1))));
            }
            if i % 97 == 0 {
                cr.sample = Some(json!({"fec": fec.name(), "cut_after": cut, "writers": writers.len(), "completes": completes}));
            }
            cr
        }));
        gens
    });
}
