//! C19 - FDT expiry: delivery only through an FDT instance unexpired on the
//! receiver's estimate of the sender's clock (own clock corrected by the SCT
//! offset, or uncorrected without SCT); skew of any size does not matter;
//! objects announced only by expired instances are neither completed nor failed;
//! with checking disabled expiry is ignored.
use flute::core::UDPEndpoint;
use flute::receiver::{Config as RxConfig, MultiReceiver};
use serde_json::json;
use std::time::{Duration, SystemTime};
use vh::mwriter::{MonBuilder, Script, WState};
use vh::report::*;
use vh::session::md5_b64;
use vh::util::{self, Rng};
use vh::wire::{self, Fti, Sct, NTP_UNIX_OFFSET};

/// sender-clock instants are seconds (f64) after this base: 2024-01-01T00:00:00Z
const BASE: u64 = 1_704_067_200;

fn st(secs_after_base: f64) -> SystemTime {
    SystemTime::UNIX_EPOCH + Duration::from_micros(((BASE as f64 + secs_after_base) * 1e6) as u64)
}

#[derive(Clone, Debug)]
struct Inst {
    id: u32,
    /// sender instant at which the FDT packets are emitted
    ts_emit: f64,
    /// Expires as sender instant (whole seconds after BASE)
    expires: i64,
    /// the instance lists the object under test (otherwise another TOI only)
    lists: bool,
    /// this instance carries no EXT_TIME although the scenario's other instances do (another head-end, a sender
    /// restarted without in-band SCT): it is judged on the receiver's own clock, uncorrected
    no_sct: bool,
}

#[derive(Clone, Debug)]
struct Scn {
    insts: Vec<Inst>,
    /// sender instant at which the object packets are emitted
    ts_obj: f64,
    object_first: bool,
    sct: bool,
    /// EXT_TIME carries SCT-High only (32-bit NTP seconds, RFC 5651 allows it) instead of SCT-High + SCT-Low
    sct_hi_only: bool,
    check: bool,
    transit: f64,
    inband_fti: bool,
    /// the application calls cleanup() around every push (a timer): housekeeping must not change what is delivered
    cleanup: bool,
    /// seconds over which the (then multi-packet) FDT instances are emitted and received - a paced or low-bitrate
    /// sender; every packet is stamped with its own sending time
    fdt_spread: f64,
    /// Config::object_receive_once
    receive_once: bool,
    /// the object's packets carry no close-object flag (the object stays in the receiver while it has no FDT)
    no_close_flag: bool,
    /// FLUTE version announced in EXT_FDT: 2 (RFC 6726) or 1 (RFC 3926 profile - flute's own sender stamps the same
    /// NTP EXT_TIME in both profiles)
    fdt_version: u8,
}

fn fdt_packets(tsi: u64, inst: &Inst, sct: bool, hi_only: bool, data_len: usize, md5: &str, e: usize, spread: f64, version: u8) -> Vec<(f64, Vec<u8>)> {
    let expires_ntp = (BASE as i64 + inst.expires) as u64 + NTP_UNIX_OFFSET;
    let xml = format!(
        "<?xml version=\"1.0\" encoding=\"UTF-8\"?>\n<FDT-Instance xmlns=\"urn:IETF:metadata:2005:FLUTE:FDT\" Expires=\"{}\" FEC-OTI-FEC-Encoding-ID=\"0\" FEC-OTI-Maximum-Source-Block-Length=\"64\" FEC-OTI-Encoding-Symbol-Length=\"{}\"><File TOI=\"{}\" Content-Location=\"file:///x/{}.bin\" Content-Length=\"{}\" Transfer-Length=\"{}\" Content-MD5=\"{}\"/></FDT-Instance>",
        expires_ntp, e, if inst.lists { 5 } else { 6 }, if inst.lists { "expiry" } else { "other" }, data_len, data_len, md5);
    // a slowly sent instance is made of several packets
    let xml = if spread > 0.0 { format!("{}{}", xml, " ".repeat(1500)) } else { xml };
    let x = xml.as_bytes();
    let fe = 600usize;
    let k = x.len().div_ceil(fe);
    let fti = Fti { fec: 0, l: x.len() as u64, e: fe as u16, b: 64, ..Default::default() };
    let mut out = vec![];
    for esi in 0..k {
        let mut exts = vec![wire::ext_fdt(version, inst.id)];
        let sent_at = inst.ts_emit + if k > 1 { spread * esi as f64 / (k - 1) as f64 } else { 0.0 };
        if sct {
            let us = ((BASE as f64 + sent_at) * 1e6) as u64;
            let (hi, lo) = wire::unix_us_to_ntp(us);
            exts.push(wire::ext_time(&Sct { hi: Some(hi), lo: if hi_only { None } else { Some(lo) }, ert: None, slc: None }, 0));
        }
        exts.push(wire::ext_fti(&fti));
        let l = wire::enc_lct(tsi, 0, 0);
        out.push((sent_at, wire::encode(&l, &exts, &wire::payload_id(0, 0, esi as u32, 0, 8), &x[esi * fe..((esi + 1) * fe).min(x.len())])));
    }
    out
}

struct Outcome {
    writers: Vec<(String, bool)>, // (trace, data ok)
    fdt_callbacks: usize,
}

/// Run the scenario with a given receiver clock skew (seconds).
fn run(s: &Scn, skew: f64, data: &[u8]) -> Result<Outcome, util::PanicInfo> {
    let tsi = 9u64;
    let e = 16usize;
    let md5 = md5_b64(data);
    let k = data.len().div_ceil(e);
    let fti = Fti { fec: 0, l: data.len() as u64, e: e as u16, b: 64, ..Default::default() };
    let mut objp = vec![];
    for esi in 0..k {
        let mut l = wire::enc_lct(tsi, 5, 0);
        // no close-object flag when the object travels before its FDT: the flag would (legitimately)
        // interrupt an object that has no FDT yet, which is not what this property is about
        l.b = esi + 1 == k && !s.object_first && !s.no_close_flag;
        let exts: Vec<Vec<u8>> = if s.inband_fti { vec![wire::ext_fti(&fti)] } else { vec![] };
        objp.push(wire::encode(&l, &exts, &wire::payload_id(0, 0, esi as u32, 0, 8), &data[esi * e..((esi + 1) * e).min(data.len())]));
    }
    // (receiver instant, packet)
    let mut timeline: Vec<(f64, Vec<u8>)> = vec![];
    for inst in &s.insts {
        for (n, (sent_at, p)) in fdt_packets(tsi, inst, s.sct && !inst.no_sct, s.sct_hi_only, data.len(), &md5, e, s.fdt_spread, s.fdt_version).into_iter().enumerate() {
            timeline.push((sent_at + s.transit + skew + n as f64 * 1e-4, p));
        }
    }
    for (n, p) in objp.into_iter().enumerate() {
        timeline.push((s.ts_obj + s.transit + skew + n as f64 * 1e-4, p));
    }
    timeline.sort_by(|a, b| a.0.partial_cmp(&b.0).unwrap());
    util::guarded(|| {
        let (b, log) = MonBuilder::new(Script::default());
        let cfg = RxConfig { object_timeout: None, enable_fdt_expiration_check: s.check, object_receive_once: s.receive_once, ..Default::default() };
        let mut rx = MultiReceiver::new(b, Some(cfg), false);
        let ep = UDPEndpoint::new(None, "224.0.0.1".into(), 3400);
        for (t, p) in &timeline {
            if s.cleanup {
                rx.cleanup(st(*t));
            }
            let _ = rx.push(&ep, p, st(*t));
            if s.cleanup {
                rx.cleanup(st(*t));
            }
        }
        drop(rx);
        let l = log.borrow();
        Outcome { writers: l.writers.iter().map(|w| (l.abstract_trace_of(w.wid), w.state != WState::Complete || w.data == data)).collect(), fdt_callbacks: l.fdts.len() }
    })
}

/// Reference: is the object delivered, per the property, for this scenario and skew?
fn expected(s: &Scn, skew: f64) -> bool {
    if !s.check {
        return true;
    }
    // receiver instant at which delivery would start
    let first_fdt = s.insts.iter().map(|i| i.ts_emit).fold(f64::INFINITY, f64::min);
    let tr_obj = s.ts_obj + s.transit + skew;
    // instances in arrival order; delivery starts when both the object and a valid listing instance are there
    let mut arrivals: Vec<&Inst> = s.insts.iter().collect();
    arrivals.sort_by(|a, b| a.ts_emit.partial_cmp(&b.ts_emit).unwrap());
    let _ = first_fdt;
    // estimate of the sender clock through instance i at receiver instant tr
    let est = |i: &Inst, tr: f64| if s.sct && !i.no_sct { tr - (i.ts_emit + s.transit + skew - i.ts_emit) } else { tr };
    // candidate start instants: the object's first packet (instances complete before it), or the
    // completion of an instance arriving after the object
    for i in arrivals.iter().filter(|i| i.lists) {
        let tr_fdt = i.ts_emit + s.fdt_spread + s.transit + skew;
        // the instance itself must be unexpired when it completes
        if est(i, tr_fdt) > i.expires as f64 {
            continue;
        }
        let start = if tr_fdt <= tr_obj { tr_obj } else { tr_fdt };
        if est(i, start) <= i.expires as f64 {
            return true;
        }
    }
    false
}

fn main() {
    let prop = Property {
        id: "C19",
        level: "exploration",
        rule: "hand-built sessions (independent encoder) with full control of the sender clock stamped in EXT_TIME, the Expires value and the receiver clock of every push: receiver skew {0, +-3 s, +-60 s, +-1 h, +-1 y, -30 y, +11 y} x transit {0, 0.2 s} x FDT duration {5 s, 30 s, 1 h} x object emitted at Expires -10 s/-3 s/+3 s/+10 s/+1 h x sender time absent / SCT-High+SCT-Low / SCT-High only x expiry check on/off x FDT-before-object / object-before-FDT x with / without cleanup() calls around every push x instance renewed by a later one or not x FDT emitted after its own expiry x in-band/FDT-only FTI; oracle 1: delivered iff a complete instance listing the object is unexpired at the estimated sender instant of the delivery start (reference computed from the scenario, +-2 s around Expires never generated); oracle 2 (metamorphic): with SCT the writer log is identical for every skew; oracle 3: objects announced only by expired instances get no writer at all; a case is one scenario x all skews, non-trivial when at least one writer or FDT callback was observed; distinct = scenario parameters; variants 7/8: the carousel repeats the same instance one second after the object's packets (no close-object flag), with object_receive_once on and off; single-instance and renewed-instance scenarios also as FLUTE v1 sessions (EXT_FDT version 1)",
        assumptions: vec![
            "an object already attached while its FDT was valid may finish later (the property constrains the start of delivery)".into(),
            "receiver clocks before 1970 or after the NTP era end are not generated".into(),
            "transit <= 0.2 s stays inside the +-2 s guard band".into(),
        ],
        exhaustive: true,
        budget_quick_s: 120,
        budget_thorough_s: 1200,
    };
    run_property(prop, |ctx| {
        let mut scns: Vec<Scn> = vec![];
        let th = ctx.tier == Tier::Thorough;
        let durs: Vec<i64> = if th { vec![3, 5, 11, 30, 31, 600, 3600, 3 * 86400] } else { vec![5, 30, 3600] };
        let offs: Vec<f64> = if th { vec![-86400.0, -3600.0, -60.0, -10.0, -3.0, -2.5, 2.5, 3.0, 10.0, 60.0, 3600.0, 86400.0] } else { vec![-10.0, -3.0, 3.0, 10.0, 3600.0] };
        let pubs: Vec<f64> = if th { vec![100.01, 100.37, 100.99] } else { vec![100.37] };
        for &pub_t in &pubs {
        for &dur in &durs {
            for &off in &offs {
                for &(sct, sct_hi_only) in &[(true, false), (true, true), (false, false)] {
                    for &check in &[true, false] {
                        for &object_first in &[false, true] {
                            for &transit in &[0.0f64, 0.2] {
                                for variant in 0..9 {
                                    // publish at sender second pub_t (100.37 in the quick tier); Expires = floor + dur
                                    let expires = 100 + dur;
                                    let ts_obj_rel = expires as f64 + off;
                                    if !object_first && ts_obj_rel <= pub_t + 1.0 {
                                        continue; // the object would travel before its FDT
                                    }
                                    let mut insts = vec![Inst { id: 1, ts_emit: pub_t, expires, lists: true, no_sct: false }];
                                    let (ts_obj, mut inband_fti);
                                    if object_first {
                                        // the object is emitted first; the FDT instance is emitted later, at expires+off
                                        ts_obj = pub_t - 1.0;
                                        insts[0].ts_emit = ts_obj_rel; // FDT emitted (and stamped) at that sender instant
                                        inband_fti = variant % 2 == 0;
                                    } else {
                                        ts_obj = ts_obj_rel;
                                        inband_fti = variant % 2 == 0;
                                    }
                                    match variant {
                                        2 => {
                                            // renewed by a later instance (valid one hour more) emitted 1 s before the object
                                            let t2 = if object_first { insts[0].ts_emit + 1.0 } else { ts_obj - 1.0 };
                                            insts.push(Inst { id: 2, ts_emit: t2, expires: t2.floor() as i64 + 3600, lists: true, no_sct: false });
                                        }
                                        3 => {
                                            // a second instance that is already expired when emitted
                                            let t2 = if object_first { insts[0].ts_emit + 1.0 } else { ts_obj - 1.0 };
                                            insts.push(Inst { id: 2, ts_emit: t2, expires: t2.floor() as i64 - 20, lists: true, no_sct: false });
                                        }
                                        4 => {
                                            // a newer, valid instance that does NOT list the object (it announces another one):
                                            // the object stays announced only by the first instance
                                            let t2 = if object_first { insts[0].ts_emit + 1.0 } else { ts_obj - 1.0 };
                                            if t2 <= insts[0].ts_emit {
                                                continue;
                                            }
                                            insts.push(Inst { id: 2, ts_emit: t2, expires: t2.floor() as i64 + 3600, lists: false, no_sct: false });
                                        }
                                        5 | 6 => {
                                            // like 2 (renewed by a later instance valid one hour more) and 3 (a second instance already
                                            // expired when emitted), but the SECOND instance carries no EXT_TIME: the offset observed
                                            // in the first one is not its to use
                                            if !sct {
                                                continue;
                                            }
                                            let t2 = if object_first { insts[0].ts_emit + 1.0 } else { ts_obj - 1.0 };
                                            let exp2 = if variant == 5 { t2.floor() as i64 + 3600 } else { t2.floor() as i64 - 20 };
                                            insts.push(Inst { id: 2, ts_emit: t2, expires: exp2, lists: true, no_sct: true });
                                        }
                                        7 | 8 => {
                                            // the carousel repeats the SAME instance (same id, same content, stamped with its new
                                            // sending time) one second after the object's packets, which carry no close-object flag:
                                            // an object still waiting for an FDT must not be attached through a copy of an instance
                                            // that has expired since it was first decoded; with and without receive-once
                                            if object_first {
                                                continue;
                                            }
                                            inband_fti = variant == 7;
                                            insts.push(Inst { id: 1, ts_emit: ts_obj + 1.0, expires, lists: true, no_sct: false });
                                            for receive_once in [true, false] {
                                                for cleanup in [false, true] {
                                                    scns.push(Scn { insts: insts.clone(), ts_obj, object_first, sct, sct_hi_only, check, transit, inband_fti, cleanup, fdt_spread: 0.0, receive_once, no_close_flag: true, fdt_version: 2 });
                                                }
                                            }
                                            continue;
                                        }
                                        _ => {}
                                    }
                                    for cleanup in [false, true] {
                                        scns.push(Scn { insts: insts.clone(), ts_obj, object_first, sct, sct_hi_only, check, transit, inband_fti, cleanup, fdt_spread: 0.0, receive_once: true, no_close_flag: false, fdt_version: 2 });
                                    }
                                    // single instance / renewed instance: also as a FLUTE v1 session (EXT_FDT version 1)
                                    if variant == 0 || variant == 2 {
                                        scns.push(Scn { insts: insts.clone(), ts_obj, object_first, sct, sct_hi_only, check, transit, inband_fti, cleanup: false, fdt_spread: 0.0, receive_once: true, no_close_flag: false, fdt_version: 1 });
                                    }
                                    // the single-instance, FDT-first scenarios also with an FDT of several packets received over
                                    // 8 seconds (it is complete well before the object starts)
                                    if variant == 0 && !object_first && ts_obj_rel > pub_t + 8.0 + 1.0 {
                                        scns.push(Scn { insts: insts.clone(), ts_obj, object_first, sct, sct_hi_only, check, transit, inband_fti, cleanup: false, fdt_spread: 8.0, receive_once: true, no_close_flag: false, fdt_version: 2 });
                                    }
                                }
                            }
                        }
                    }
                }
            }
        }
        }
        let n = scns.len();
        let scns = std::sync::Arc::new(scns);
        let thorough = ctx.tier == Tier::Thorough;
        let mut gens = vec![];
        gens.push(Gen::new("scenarios_x_skews", n, move |ctx, i| {
            let s = &scns[i];
            let mut rng = Rng::keyed(ctx.seed, "C19", 0, i as u64);
            let data = rng.bytes(40 + (i % 5) * 16);
            let year = 365.25 * 86400.0;
            let mut skews: Vec<f64> = vec![0.0, 3.0, -3.0, 60.0, -60.0, 3600.0, -3600.0, year, -year, -30.0 * year, 11.0 * year];
            if thorough {
                for _ in 0..20 {
                    let mag = 10f64.powf(rng.below(9) as f64) * (1.0 + rng.below(9) as f64);
                    let sg = if rng.chance(1, 2) { 1.0 } else { -1.0 };
                    let v = sg * mag;
                    if v > -30.0 * year && v < 11.0 * year {
                        skews.push(v + rng.below(1000) as f64 / 1000.0);
                    }
                }
            }
            let mut cr = CaseResult::default();
            let mut ref_out: Option<Vec<(String, bool)>> = None;
            let mut any = false;
            for &skew in &skews {
                let wit = json!({"scenario": format!("{:?}", s), "skew_s": skew});
                let o = match run(s, skew, &data) {
                    Ok(o) => o,
                    Err(p) => {
                        cr.violations.push(Violation::new("panic", format!("skew {} s: {} @ {}", skew, p.msg, p.short_loc())).with("site", p.file()).with("skew_sign", if skew < 0.0 { "neg" } else { "pos" }).witness(wit));
                        continue;
                    }
                };
                any |= !o.writers.is_empty() || o.fdt_callbacks > 0;
                let delivered = o.writers.iter().any(|w| w.0.ends_with("C"));
                let want = expected(s, skew);
                let f = |v: Violation| v.with("sct", s.sct).with("sct_hi_only", s.sct_hi_only).with("cleanup_calls", s.cleanup).with("fdt_received_over_seconds", s.fdt_spread > 0.0).with("check", s.check).with("object_first", s.object_first).with("instances", s.insts.len() as u64).with("an_instance_without_sct", s.insts.iter().any(|i| i.no_sct)).with("flute_version", s.fdt_version as u64).with("instance_repeated", s.no_close_flag).with("receive_once", s.receive_once).with("skew_zero", skew == 0.0).with("skew_sign", if skew < 0.0 { "neg" } else { "pos" }).with("skew_abs_gt_1day", skew.abs() > 86400.0);
                if delivered != want {
                    cr.violations.push(f(Violation::new(if want { "valid_fdt_but_not_delivered" } else { "delivered_through_expired_fdt" }, format!(
                        "receiver skew {} s: object {} although the reference says {} (writers {:?}); scenario {:?}", skew, if delivered { "delivered" } else { "not delivered" }, if want { "deliver" } else { "do not deliver" }, o.writers, s)))
                        .witness(wit.clone()));
                }
                if !want {
                    // neither completed nor reported as failed: no writer at all
                    if !o.writers.is_empty() {
                        cr.violations.push(f(Violation::new("writer_for_expired_only_object", format!("receiver skew {} s: object announced only by expired instances, yet writers {:?}", skew, o.writers))).witness(wit.clone()));
                    }
                }
                if o.writers.iter().any(|w| !w.1) {
                    cr.violations.push(f(Violation::new("bytes", "completed with wrong bytes".to_string())).witness(wit.clone()));
                }
                // metamorphic: with SCT (or checking off) the skew must not change the writer log
                if (s.sct && s.insts.iter().all(|i| !i.no_sct)) || !s.check {
                    match &ref_out {
                        None => ref_out = Some(o.writers.clone()),
                        Some(r) => {
                            if *r != o.writers {
                                cr.violations.push(f(Violation::new("skew_changes_outcome", format!("writer log {:?} with skew {} s differs from {:?} with skew 0; scenario {:?}", o.writers, skew, r, s))).witness(wit.clone()));
                            }
                        }
                    }
                }
                cr.states.push(util::fnv(&format!("{}|{}|{:?}", want, delivered, o.writers.len())));
            }
            cr.states.sort();
            cr.states.dedup();
            cr.count("receiver_runs", skews.len() as u64);
            if any {
                cr.shape = Some(util::fnv(&format!("s{}", i)));
            }
            if i % 97 == 0 {
                cr.sample = Some(json!({"scenario": format!("{:?}", s), "skews": skews.len(), "expected_at_skew_0": expected(s, 0.0)}));
            }
            limit(&mut cr.violations, 2);
            cr
        }));
        gens
    });
}
