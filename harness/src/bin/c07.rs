//! C07 - block partitioning equals RFC 5052 §9.1; both ends agree; no overflow.
use serde_json::json;
use vh::report::*;
use vh::session::{ref_partition, CencSpec, Fec, ObjSpec, OtiSpec, SPkt, SenderSpec};
use vh::scenario::{emit, receive, receive_stream, EmitOpts, RxOpts};
use vh::util::{self, Rng};

fn check_triple(b: u64, l: u64, e: u64, full_sum: bool) -> Result<(u64, String), Violation> {
    // flute under test (overflow-checks on: any wrap panics)
    let r = util::guarded(|| flute::verif::block_partitioning(b, l, e));
    let wit = json!({"B": b, "L": l, "E": e});
    let (al, asm, nl, n) = match r {
        Ok(v) => v,
        Err(p) => {
            return Err(Violation::new("panic", format!("block_partitioning({},{},{}) panicked: {}", b, l, e, p.msg))
                .with("site", p.file())
                .witness(wit))
        }
    };
    let p = ref_partition(b as u128, l as u128, e as u128);
    if (al as u128, asm as u128, nl as u128, n as u128) != (p.a_large, p.a_small, p.nb_large, p.n) {
        return Err(Violation::new("quadruple", format!(
            "partition({},{},{}) = ({},{},{},{}) but RFC 5052 gives ({},{},{},{})",
            b, l, e, al, asm, nl, n, p.a_large, p.a_small, p.nb_large, p.n)).witness(wit));
    }
    // structural identities on flute's own answer
    let t = (l as u128).div_ceil(e as u128);
    if nl as u128 * al as u128 + (n as u128 - nl as u128) * asm as u128 != t {
        return Err(Violation::new("cover", format!("blocks do not cover T={} symbols", t)).witness(wit));
    }
    if al > b {
        return Err(Violation::new("bound", format!("a_large {} > B {}", al, b)).witness(wit));
    }
    // block lengths: which SBNs to evaluate
    let mut sbns: Vec<u64> = vec![];
    if full_sum || n <= 64 {
        sbns.extend(0..n);
    } else {
        for s in [0, 1, nl.saturating_sub(1), nl, nl + 1, n - 2, n - 1] {
            if s < n && !sbns.contains(&s) {
                sbns.push(s);
            }
        }
    }
    let mut sum: u128 = 0;
    for &sbn in &sbns {
        if sbn > u32::MAX as u64 {
            continue;
        }
        let r = util::guarded(|| flute::verif::block_length(al, asm, nl, l, e, sbn as u32));
        let bl = match r {
            Ok(v) => v,
            Err(pn) => {
                return Err(Violation::new("panic", format!(
                    "block_length(sbn={}) for partition({},{},{}) panicked: {}", sbn, b, l, e, pn.msg))
                    .with("site", pn.file()).witness(wit))
            }
        };
        let want = p.block_bytes(sbn as u128, l as u128, e as u128);
        if bl as u128 != want {
            return Err(Violation::new("block_length", format!(
                "block_length(sbn={}) = {} but the RFC partition of ({},{},{}) gives {}", sbn, bl, b, l, e, want))
                .witness(wit));
        }
        if sbn + 1 < n && bl as u128 != p.k(sbn as u128) * e as u128 {
            return Err(Violation::new("short_block", format!("block {} of {} is short", sbn, n)).witness(wit));
        }
        sum += bl as u128;
    }
    if (full_sum || n <= 64) && sum != l as u128 {
        return Err(Violation::new("sum", format!("block lengths sum to {} != L {}", sum, l)).witness(wit));
    }
    // receiver's reconstruction of B from Z (RaptorQ / Raptor scheme info)
    if n > 0 && n <= 65535 {
        let z = n as u128;
        let bprime = (l as u128).div_ceil(z).div_ceil(e as u128);
        if bprime <= u32::MAX as u128 {
            let r = util::guarded(|| flute::verif::block_partitioning(bprime as u64, l, e));
            match r {
                Ok(q) if q == (al, asm, nl, n) => {}
                Ok(q) => {
                    return Err(Violation::new("reconstructed_b", format!(
                        "partition(B'={} from Z={},L={},E={}) = {:?} differs from sender partition {:?} (B={})",
                        bprime, z, l, e, q, (al, asm, nl, n), b)).witness(wit))
                }
                Err(pn) => {
                    return Err(Violation::new("panic", format!("partition with reconstructed B panicked: {}", pn.msg))
                        .with("site", pn.file()).witness(wit))
                }
            }
        }
    }
    let shape = format!("N{}|I{}|d{}|r{}", n.min(20), nl.min(20), (al - asm), (l % e.max(1) != 0) as u8);
    Ok((util::fnv(&shape), shape))
}

fn main() {
    let prop = Property {
        id: "C07",
        level: "exploration",
        rule: "triples (B,E,L): complete small cube + boundary lattice + seeded random large triples, each evaluated on flute's partition functions under overflow checks and compared with a u128 reference; a case (= one slab of the cube or one batch) is non-trivial when N>=1 for at least one triple; distinct = distinct (N,I,a_large-a_small,short-last-symbol) shapes observed; end-to-end cases compare the (SBN,#source ESI) structure on the wire and the receiver's delivery",
        assumptions: vec![
            "reference partition in u128 arithmetic is the trusted base".into(),
            "overflow-checks=on in the harness profile turns any wrapped intermediate into a panic".into(),
        ],
        exhaustive: true,
        budget_quick_s: 100,
        budget_thorough_s: 900,
    };
    run_property(prop, |ctx| {
        let (bmax, emax, lmax) = ctx.tier.pick((64u64, 24u64, 4000u64), (160, 64, 30000));
        let mut gens = vec![];
        // one case per (B,E) slab: all L in 0..=lmax
        let slabs = (bmax * emax) as usize;
        gens.push(Gen::new("cube", slabs, move |_ctx, i| {
            let b = (i as u64 / emax) + 1;
            let e = (i as u64 % emax) + 1;
            let mut cr = CaseResult::default();
            let mut shapes = std::collections::HashSet::new();
            let mut n_eval = 0u64;
            for l in 0..=lmax {
                n_eval += 1;
                match check_triple(b, l, e, true) {
                    Ok((h, _)) => {
                        shapes.insert(h);
                    }
                    Err(v) => {
                        if cr.violations.len() < 3 {
                            cr.violations.push(v)
                        }
                    }
                }
            }
            cr.count("triples", n_eval);
            cr.shape = Some(util::fnv(&format!("slab{}x{}", b, e)));
            cr.states = shapes.into_iter().collect();
            if i % 97 == 0 {
                cr.sample = Some(json!({"B": b, "E": e, "L": format!("0..={}", lmax), "triples": n_eval}));
            }
            cr
        }));
        // boundary lattice
        let bs: Vec<u64> = vec![1, 2, 3, 255, 256, 65535, 65536, (1 << 31) - 1, 1 << 31, (1u64 << 32) - 2, (1u64 << 32) - 1];
        let es: Vec<u64> = vec![1, 2, 3, 255, 256, 1024, 1400, 32767, 32768, 65534, 65535];
        let mut ls: Vec<u64> = vec![0, 1, 2, 3];
        for k in [8u32, 16, 24, 31, 32, 33, 40, 47, 48] {
            let p = 1u64 << k;
            for d in [-2i64, -1, 0, 1] {
                let v = (p as i64 + d) as u64;
                if v < (1u64 << 48) {
                    ls.push(v);
                }
            }
        }
        ls.sort();
        ls.dedup();
        let bs2 = bs.clone();
        let es2 = es.clone();
        let ls2 = ls.clone();
        gens.push(Gen::new("boundary", bs.len() * es.len(), move |_ctx, i| {
            let b = bs2[i / es2.len()];
            let e = es2[i % es2.len()];
            let mut cr = CaseResult::default();
            let mut shapes = std::collections::HashSet::new();
            for &l in &ls2 {
                match check_triple(b, l, e, false) {
                    Ok((h, _)) => {
                        shapes.insert(h);
                    }
                    Err(v) => {
                        if cr.violations.len() < 3 {
                            cr.violations.push(v)
                        }
                    }
                }
            }
            cr.count("triples", ls2.len() as u64);
            cr.shape = Some(util::fnv(&format!("bnd{}x{}", b, e)));
            cr.states = shapes.into_iter().collect();
            if i % 17 == 0 {
                cr.sample = Some(json!({"B": b, "E": e, "L_values": ls2.len(), "L_max": ls2.last()}));
            }
            cr
        }));
        // seeded random large triples, batches of 2000
        let batches = ctx.tier.pick(200usize, 100_000);
        gens.push(Gen::new("random_large", batches, move |ctx, i| {
            let mut rng = Rng::keyed(ctx.seed, "C07rand", 0, i as u64);
            let mut cr = CaseResult::default();
            let mut shapes = std::collections::HashSet::new();
            let mut last = json!(null);
            for _ in 0..2000 {
                let bb = 1 + (rng.next() >> rng.range(32, 63));
                let ee = 1 + (rng.next() >> rng.range(48, 63));
                let ll = rng.next() >> rng.range(16, 63);
                let b = bb.min((1u64 << 32) - 1);
                let e = ee.min(65535);
                let l = ll.min((1u64 << 48) - 1);
                match check_triple(b, l, e, false) {
                    Ok((h, _)) => {
                        shapes.insert(h);
                    }
                    Err(v) => {
                        if cr.violations.len() < 3 {
                            cr.violations.push(v)
                        }
                    }
                }
                last = json!({"B": b, "E": e, "L": l});
            }
            cr.count("triples", 2000);
            cr.shape = Some(util::fnv(&format!("rnd{}", i)));
            cr.states = shapes.into_iter().collect();
            if i < 2 {
                cr.sample = Some(last);
            }
            cr
        }));
        // what flute's receiver side rebuilds from an in-band EXT_FTI built by flute's sender side:
        // RaptorQ (6) and Raptor (1) do not carry B, it is derived from (F, T, Z); the rebuilt OTI must
        // give the sender's partition. Lattice of lengths around every multiple of Z*T.
        let fti_cases = ctx.tier.pick(400usize, 60_000);
        gens.push(Gen::new("ext_fti_rebuild", fti_cases, move |ctx, i| {
            use flute::core::FECEncodingID;
            let mut rng = Rng::keyed(ctx.seed, "C07fti", 0, i as u64);
            let mut cr = CaseResult::default();
            let (fec, fid) = *rng.pick(&[(Fec::RaptorQ, FECEncodingID::RaptorQ), (Fec::Raptor, FECEncodingID::Raptor), (Fec::RaptorQ, FECEncodingID::RaptorQ),
                (Fec::NoCode, FECEncodingID::NoCode), (Fec::Rs28, FECEncodingID::ReedSolomonGF28), (Fec::Rs28Us, FECEncodingID::ReedSolomonGF28UnderSpecified)]);
            let e = *rng.pick(&[4u16, 8, 16, 64, 1024, 1400, 1428]);
            let bmax = match fec { Fec::Rs28 | Fec::Rs28Us => 250u64, Fec::Raptor => 8192, Fec::NoCode => u32::MAX as u64, _ => 56403 };
            // No-Code carries B in a 32-bit field: values at and above 2^16 belong to the quantifier (B < 2^32)
            let b = (*rng.pick(&[1u64, 2, 3, 4, 5, 7, 8, 10, 16, 63, 64, 100, 255, 1000, 65535, 65536, 65544, (1 << 17) + 3, 1 << 31, u32::MAX as u64])).min(bmax) as u32;
            let mut checked = 0u64;
            let mut shapes = std::collections::BTreeSet::new();
            for _ in 0..200 {
                // Z blocks, then a length on the lattice Z*T*k + r
                let z = rng.range(1, 12);
                let k = if b > 100_000 { rng.range(1, 200) } else { rng.range(1, b as u64) };
                let r = match rng.below(4) { 0 => 0, 1 => rng.range(1, z), 2 => rng.range(0, z * e as u64), _ => z * e as u64 - 1 };
                let l = (z * e as u64 * k + r).max(1);
                let p = ref_partition(b as u128, l as u128, e as u128);
                if p.n == 0 || p.n > 255 {
                    continue;
                }
                let oti = flute::verif::oti_with_scheme(fid, e, b, if fec == Fec::NoCode { 0 } else { 2 }, p.n as u16, 1, 4, true);
                let f = flute::verif::PktFields { payload: vec![0u8; e as usize], transfer_length: l, esi: 0, sbn: 0, toi: 1, fdt_id: None,
                    cenc: flute::core::lct::Cenc::Null, inband_cenc: false, close_object: false, source_block_length: p.k(0) as u32, sender_current_time: false };
                let wit = json!({"fec": fec.name(), "B": b, "E": e, "L": l, "Z": p.n as u64});
                let r = util::guarded(|| {
                    let bytes = flute::verif::new_alc_pkt(&oti, &0u128, 1, &f, flute::sender::Profile::RFC6726, util::at(0));
                    flute::core::alc::parse_alc_pkt(&bytes).map(|ap| (ap.oti.clone(), ap.transfer_length))
                });
                match r {
                    Ok(Ok((Some(roti), Some(tl)))) => {
                        checked += 1;
                        let q = ref_partition(roti.maximum_source_block_length as u128, tl as u128, roti.encoding_symbol_length as u128);
                        shapes.insert((p.n, p.nb_large > 0, l % e as u64 == 0));
                        if q != p || tl != l {
                            cr.violations.push(Violation::new("ext_fti_partition", format!(
                                "OTI rebuilt from EXT_FTI (B={},E={},L={}) gives partition {:?}; the sender's (B={},E={},L={}) is {:?}",
                                roti.maximum_source_block_length, roti.encoding_symbol_length, tl, q, b, e, l, p)).with("fec", fec.name()).witness(wit));
                        }
                    }
                    Ok(Ok(_)) => cr.violations.push(Violation::new("ext_fti_missing", "packet built with in-band FTI parses without OTI / transfer length").with("fec", fec.name()).witness(wit)),
                    Ok(Err(e)) => cr.violations.push(Violation::new("ext_fti_unparsable", format!("flute cannot parse its own packet: {:?}", e)).with("fec", fec.name()).witness(wit)),
                    Err(pn) => cr.violations.push(Violation::new("panic", format!("{} @ {}", pn.msg, pn.short_loc())).with("site", pn.file()).with("fec", fec.name()).witness(wit)),
                }
            }
            limit(&mut cr.violations, 2);
            cr.count("ext_fti_rebuilt", checked);
            if checked > 0 {
                cr.shape = Some(util::fnv(&format!("fti|{}|{}|{}|{:?}", fec.name(), e, b, shapes)));
            }
            cr.states = shapes.iter().map(|s| util::fnv(&format!("fti{:?}", s))).collect();
            if i % 97 == 0 {
                cr.sample = Some(json!({"fec": fec.name(), "E": e, "B": b, "triples_checked": checked}));
            }
            cr
        }));
        // objects of several thousand blocks (the receiver pre-allocates 2048 block slots and creates the others
        // lazily): both ends must still agree on N = ceil(T/B)
        let big_ns: Vec<u64> = ctx.tier.pick(vec![2047u64, 2048, 2049, 2500, 4097], vec![2047, 2048, 2049, 2050, 2500, 4095, 4096, 4097, 6000, 10000]);
        let n_big = big_ns.len() * 2 * 2; // No-Code and Raptor: flute limits the Reed-Solomon schemes to 255 blocks, RaptorQ has Z <= 255
        gens.push(Gen::new("many_blocks", n_big, move |ctx, i| {
            let mut rng = Rng::keyed(ctx.seed, "C07big", 0, i as u64);
            let nblocks = big_ns[i % big_ns.len()];
            let fec = [Fec::NoCode, Fec::Raptor][(i / big_ns.len()) % 2];
            let uniform = (i / big_ns.len() / 2) % 2 == 0;
            // uniform: B = 1 (N blocks of one symbol); otherwise B = 5 with T = 5N - 2 (large and small blocks of 5 / 4)
            let (b, t) = if uniform { (1u32, nblocks) } else { (5u32, 5 * nblocks - 2) };
            let e = *rng.pick(&[4u16, 8]);
            let mut oti = OtiSpec::new(fec, e, b, if fec == Fec::NoCode { 0 } else { 1 });
            oti.al = 4;
            oti.inband_fti = rng.chance(1, 2);
            let l = if fec == Fec::Raptor { t * e as u64 } else { (t - 1) * e as u64 + rng.range(1, e as u64) };
            let data = rng.bytes(l as usize);
            let spec = SenderSpec::new(OtiSpec::new(Fec::NoCode, 1024, 64, 0));
            let mut obj = ObjSpec::new(data.clone(), "file:///c07-big.bin");
            obj.oti = Some(oti.clone());
            let mut cr = CaseResult::default();
            let wit = json!({"oti": oti.json(), "L": l, "N": nblocks});
            let p = ref_partition(b as u128, l as u128, e as u128);
            if p.n != nblocks as u128 {
                cr.inconclusive = Some(format!("generator: partition has {} blocks, wanted {}", p.n, nblocks));
                return cr;
            }
            let r = util::guarded(|| {
                let em = emit(&spec, &[obj.clone()], &EmitOpts { max_packets: 200_000, ..Default::default() })?;
                let rx = receive_stream(&em, &RxOpts::default());
                Ok::<_, String>((em, rx))
            });
            let (em, rx) = match r {
                Ok(Ok(v)) => v,
                Ok(Err(e)) => {
                    cr.inconclusive = Some(format!("emit failed: {}", e));
                    return cr;
                }
                Err(pn) => {
                    cr.violations.push(Violation::new(if pn.is_step_budget() { "hang" } else { "panic" }, format!("{} @ {}", pn.msg, pn.short_loc())).with("site", if pn.is_step_budget() { pn.step_site() } else { pn.file() }).with("fec", fec.name()).witness(wit));
                    return cr;
                }
            };
            let toi = match em.tois[0] {
                Some(t) => t,
                None => {
                    cr.inconclusive = Some(format!("object refused: {:?}", em.add_err[0]));
                    return cr;
                }
            };
            let mut per_block: std::collections::BTreeMap<u32, std::collections::BTreeSet<u32>> = Default::default();
            for pk in em.stream.iter().filter(|p| p.toi() == toi) {
                if (pk.dec.sbn as u128) < p.n && (pk.dec.esi as u128) < p.k(pk.dec.sbn as u128) {
                    per_block.entry(pk.dec.sbn).or_default().insert(pk.dec.esi);
                }
            }
            let bad = (0..p.n as u32).find(|sbn| per_block.get(sbn).map(|s| s.len()).unwrap_or(0) as u128 != p.k(*sbn as u128));
            if per_block.len() as u128 != p.n || bad.is_some() {
                cr.violations.push(Violation::new("wire_structure", format!("{} blocks with source symbols on the wire, partition says {} (first wrong block {:?})", per_block.len(), p.n, bad)).with("fec", fec.name()).with("many_blocks", true).witness(wit.clone()));
            }
            let c = rx.log.completes(toi);
            if c.len() != 1 || c[0].data != data {
                cr.violations.push(Violation::new("receiver_disagrees", format!("object of {} blocks: receiver did not rebuild it (complete writers: {}, writer traces {:?})", p.n, c.len(), rx.log.for_toi(toi).iter().map(|w| rx.log.abstract_trace_of(w.wid)).collect::<Vec<_>>()))
                    .with("fec", fec.name()).with("many_blocks", true).witness(wit.clone()));
            }
            cr.count("object_packets", em.stream.iter().filter(|p| p.toi() == toi).count() as u64);
            cr.shape = Some(util::fnv(&format!("big|{}|{}|{}", fec.name(), nblocks, uniform)));
            cr.states = vec![util::fnv(&format!("big{}", nblocks > 2048))];
            if i % 7 == 0 {
                cr.sample = Some(json!({"oti": oti.json(), "L": l, "blocks": nblocks, "delivered": c.len() == 1}));
            }
            cr
        }));
        // content-encoded objects: the partition is that of the TRANSFER length (compressed), on both ends, in EXT_FTI
        // (Z for RaptorQ / Raptor) and on the wire - highly compressible data so that content and transfer lengths give
        // different block counts; delivered FDT-first and object-first (OTI taken from EXT_FTI)
        let n_cenc = ctx.tier.pick(400usize, 20_000);
        gens.push(Gen::new("end_to_end_cenc", n_cenc, move |ctx, i| {
            let mut rng = Rng::keyed(ctx.seed, "C07cenc", 0, i as u64);
            let fec = *rng.pick(&[Fec::RaptorQ, Fec::Raptor, Fec::RaptorQ, Fec::NoCode, Fec::Rs28]);
            let e = *rng.pick(&[8u16, 16, 32]);
            let b = match fec { Fec::Raptor | Fec::RaptorQ => rng.range(4, 10) as u32, _ => rng.range(2, 8) as u32 };
            let mut oti = OtiSpec::new(fec, e, b, if fec == Fec::NoCode { 0 } else { 1 });
            oti.al = 4;
            oti.inband_fti = true;
            // compressible content: a short random phrase repeated, plus some noise
            let plen = rng.range(3, 9) as usize;
            let phrase = rng.bytes(plen);
            let mut data: Vec<u8> = vec![];
            let target = rng.range(200, 3000) as usize;
            while data.len() < target {
                data.extend_from_slice(&phrase);
                if rng.chance(1, 5) {
                    data.push(rng.below(256) as u8);
                }
            }
            let spec = SenderSpec::new(OtiSpec::new(Fec::NoCode, 1024, 64, 0));
            let mut obj = ObjSpec::new(data.clone(), "file:///c07-cenc.bin");
            obj.oti = Some(oti.clone());
            obj.cenc = *rng.pick(&[CencSpec::Gzip, CencSpec::Zlib, CencSpec::Deflate]);
            obj.inband_cenc = true;
            let mut cr = CaseResult::default();
            let r = util::guarded(|| emit(&spec, &[obj.clone()], &EmitOpts::default()));
            let em = match r {
                Ok(Ok(em)) => em,
                Ok(Err(_)) => return cr,
                Err(pn) => {
                    cr.violations.push(Violation::new("panic", format!("{} @ {}", pn.msg, pn.short_loc())).with("site", pn.file()).with("fec", fec.name()).witness(json!({"oti": oti.json(), "content_length": data.len()})));
                    return cr;
                }
            };
            let (toi, tl) = match (em.tois[0], em.transfer_len[0]) {
                (Some(t), Some(l)) => (t, l),
                _ => return cr, // refused (e.g. Raptor blocks of 2-3 symbols after compression): C01's business
            };
            let wit = json!({"oti": oti.json(), "content_length": data.len(), "transfer_length": tl, "cenc": obj.cenc.name()});
            let p = ref_partition(b as u128, tl as u128, e as u128);
            let pc = ref_partition(b as u128, data.len() as u128, e as u128);
            // wire structure + Z announced in EXT_FTI
            let mut per_block: std::collections::BTreeMap<u32, std::collections::BTreeSet<u32>> = Default::default();
            let mut z_seen = 0u64;
            for pk in em.stream.iter().filter(|p| p.toi() == toi) {
                if (pk.dec.sbn as u128) < p.n && (pk.dec.esi as u128) < p.k(pk.dec.sbn as u128) {
                    per_block.entry(pk.dec.sbn).or_default().insert(pk.dec.esi);
                }
                if let Some(f) = pk.dec.fti.as_ref() {
                    if f.l != tl {
                        cr.violations.push(Violation::new("ext_fti_length", format!("EXT_FTI announces transfer length {} but the object's transfer length is {} (content length {})", f.l, tl, data.len())).with("fec", fec.name()).witness(wit.clone()));
                        break;
                    }
                    if let Some(z) = f.z {
                        z_seen += 1;
                        if z as u128 != p.n {
                            cr.violations.push(Violation::new("ext_fti_z", format!("EXT_FTI announces Z={} source blocks; the partition of the transfer length {} has {} (that of the content length {} has {})", z, tl, p.n, data.len(), pc.n)).with("fec", fec.name()).witness(wit.clone()));
                            break;
                        }
                    }
                }
            }
            let bad = (0..p.n as u32).find(|sbn| per_block.get(sbn).map(|s| s.len()).unwrap_or(0) as u128 != p.k(*sbn as u128));
            if per_block.len() as u128 != p.n || bad.is_some() {
                cr.violations.push(Violation::new("wire_structure", format!("blocks on the wire do not match the partition of the transfer length (first wrong block {:?}, {} blocks seen, {} expected)", bad, per_block.len(), p.n)).with("fec", fec.name()).with("cenc", true).witness(wit.clone()));
            }
            // delivery: FDT first, and object first
            let objs: Vec<&SPkt> = em.stream.iter().filter(|p| p.toi() == toi).collect();
            let fdts: Vec<&SPkt> = em.stream.iter().filter(|p| p.toi() == 0).collect();
            for (name, order) in [("fdt_first", em.stream.iter().collect::<Vec<&SPkt>>()),
                ("object_first", objs[..1.min(objs.len())].iter().chain(fdts.iter()).chain(objs[1.min(objs.len())..].iter()).cloned().collect::<Vec<&SPkt>>())] {
                match util::guarded(|| receive(&em.spec.endpoint(), order.iter().map(|p| (p.bytes.as_slice(), p.t)), &RxOpts::default(), None)) {
                    Ok(rx) => {
                        let c = rx.log.completes(toi);
                        cr.count("cenc_receptions", 1);
                        if c.len() != 1 || c[0].data != data {
                            cr.violations.push(Violation::new("receiver_disagrees", format!("content-encoded object, {} delivery: not rebuilt (complete writers: {})", name, c.len())).with("fec", fec.name()).with("cenc", true).with("order", name).witness(wit.clone()));
                        }
                    }
                    Err(pn) => cr.violations.push(Violation::new("panic", format!("{} delivery: {} @ {}", name, pn.msg, pn.short_loc())).with("site", pn.file()).with("fec", fec.name()).witness(wit.clone())),
                }
            }
            cr.count("ext_fti_z_checked", z_seen);
            cr.shape = Some(util::fnv(&format!("cenc|{}|{}|{}|{}", fec.name(), p.n, pc.n, p.nb_large > 0)));
            cr.states = vec![util::fnv(&format!("cenc{}", p.n != pc.n))];
            if i % 53 == 0 {
                cr.sample = Some(json!({"case": wit, "blocks_transfer": p.n as u64, "blocks_content": pc.n as u64}));
            }
            limit(&mut cr.violations, 3);
            cr
        }));
        // end to end: structure on the wire == reference partition, receiver delivers
        let e2e = ctx.tier.pick(600usize, 150_000);
        gens.push(Gen::new("end_to_end", e2e, move |ctx, i| {
            let mut rng = Rng::keyed(ctx.seed, "C07e2e", 0, i as u64);
            let fec = *rng.pick(&[Fec::NoCode, Fec::Rs28, Fec::Rs28Us, Fec::RaptorQ, Fec::Raptor]);
            let e = *rng.pick(&[4u16, 8, 16, 32]);
            let b = match fec {
                Fec::Raptor | Fec::RaptorQ => rng.range(4, 12) as u32,
                _ => rng.range(1, 9) as u32,
            };
            let parity = if fec == Fec::NoCode { 0 } else { rng.range(1, 2) as u32 };
            let mut oti = OtiSpec::new(fec, e, b, parity);
            oti.al = 4;
            oti.inband_fti = rng.chance(1, 2);
            // lengths: for Raptor keep every block at >= 4 symbols (known limitation handled in C01)
            let nblocks = rng.range(1, 6);
            let t = if matches!(fec, Fec::Raptor) {
                (4 * nblocks).max(rng.range(4 * nblocks, b as u64 * nblocks))
            } else {
                rng.range(1, b as u64 * nblocks)
            };
            let l = (t - 1) * e as u64 + if matches!(fec, Fec::Raptor) { e as u64 } else { rng.range(1, e as u64) };
            let data = rng.bytes(l as usize);
            // the FDT travels with a plain No-Code OTI; the object overrides it
            let mut spec = SenderSpec::new(OtiSpec::new(Fec::NoCode, 1024, 64, 0));
            // the sender slices a stream block by block, several blocks per call when blocks are interleaved: the partition
            // it realises must not depend on how the bytes are supplied
            spec.interleave = rng.range(1, 4) as u8;
            let mut obj = ObjSpec::new(data.clone(), "file:///c07.bin");
            obj.oti = Some(oti.clone());
            obj.md5 = rng.chance(1, 2);
            obj.source = match rng.below(7) {
                // a stream handed over at a non-zero position (the application sniffed its first bytes): the transfer
                // still starts at offset 0
                6 if l > 1 => vh::session::SourceSpec::ChunkedAt(vec![4096, 100], rng.range(1, l - 1) as usize),
                0 | 1 | 2 => vh::session::SourceSpec::Buffer,
                3 => vh::session::SourceSpec::Cursor,
                4 => vh::session::SourceSpec::Chunked(vec![*rng.pick(&[1usize, 7, 4096])]),
                _ => vh::session::SourceSpec::File,
            };
            let mut cr = CaseResult::default();
            let wit = json!({"oti": oti.json(), "L": l, "interleave": spec.interleave, "source": format!("{:?}", obj.source)});
            let r = util::guarded(|| {
                let em = emit(&spec, &[obj.clone()], &EmitOpts::default())?;
                let rx = receive_stream(&em, &RxOpts::default());
                Ok::<_, String>((em, rx))
            });
            let (em, rx) = match r {
                Ok(Ok(v)) => v,
                Ok(Err(e)) => {
                    cr.inconclusive = Some(format!("emit failed: {}", e));
                    return cr;
                }
                Err(p) => {
                    cr.violations.push(Violation::new("panic", format!("end-to-end run panicked: {} @ {}", p.msg, p.short_loc()))
                        .with("site", p.file()).with("fec", fec.name()).witness(wit));
                    return cr;
                }
            };
            let toi = match em.tois[0] {
                Some(t) => t,
                None => {
                    cr.inconclusive = Some(format!("object refused: {:?}", em.add_err[0]));
                    return cr;
                }
            };
            let p = ref_partition(b as u128, l as u128, e as u128);
            // (SBN -> set of source ESIs) on the wire
            let mut per_block: std::collections::BTreeMap<u32, std::collections::BTreeSet<u32>> = Default::default();
            for pk in em.stream.iter().filter(|p| p.toi() == toi) {
                let k = p.k(pk.dec.sbn as u128) as u32;
                if (pk.dec.sbn as u128) >= p.n {
                    cr.violations.push(Violation::new("wire_sbn", format!("SBN {} on the wire but the partition has {} blocks", pk.dec.sbn, p.n))
                        .with("fec", fec.name()).witness(wit.clone()));
                    return cr;
                }
                if pk.dec.esi < k {
                    per_block.entry(pk.dec.sbn).or_default().insert(pk.dec.esi);
                }
                if let Some(sbl) = pk.dec.sbl {
                    if sbl as u32 != k {
                        cr.violations.push(Violation::new("wire_sbl", format!("source block length {} in payload id of block {} but partition says {}", sbl, pk.dec.sbn, k))
                            .with("fec", fec.name()).witness(wit.clone()));
                        return cr;
                    }
                }
            }
            for sbn in 0..p.n as u32 {
                let k = p.k(sbn as u128) as usize;
                let got = per_block.get(&sbn).map(|s| s.len()).unwrap_or(0);
                if got != k {
                    cr.violations.push(Violation::new("wire_structure", format!(
                        "block {} carries {} distinct source ESIs on the wire, partition says {}", sbn, got, k))
                        .with("fec", fec.name()).witness(wit.clone()));
                    return cr;
                }
            }
            // the OTI flute's own parser rebuilds from the in-band EXT_FTI gives the sender's partition
            // (RaptorQ / Raptor do not carry B: the receiver derives it from F, T, Z)
            let mut fti_checked = 0u64;
            for pk in em.stream.iter().filter(|p| p.toi() == toi) {
                if let Ok(ap) = flute::core::alc::parse_alc_pkt(&pk.bytes) {
                    if let (Some(roti), Some(tl)) = (ap.oti.as_ref(), ap.transfer_length) {
                        fti_checked += 1;
                        let q = ref_partition(roti.maximum_source_block_length as u128, tl as u128, roti.encoding_symbol_length as u128);
                        if q != p || tl != l {
                            cr.violations.push(Violation::new("ext_fti_partition", format!(
                                "flute's parser rebuilds OTI (B={},E={},L={}) from the in-band EXT_FTI: partition {:?}, the sender's is {:?}", roti.maximum_source_block_length, roti.encoding_symbol_length, tl, q, p))
                                .with("fec", fec.name()).witness(wit.clone()));
                            break;
                        }
                    }
                }
            }
            cr.count("ext_fti_decoded_by_flute", fti_checked);
            // ... and a receiver that learns the OTI from the first object packet (FDT arrives second) delivers
            if oti.inband_fti {
                let objs: Vec<&SPkt> = em.stream.iter().filter(|p| p.toi() == toi).collect();
                let fdts: Vec<&SPkt> = em.stream.iter().filter(|p| p.toi() == 0).collect();
                if objs.len() >= 2 && !fdts.is_empty() {
                    let order: Vec<&SPkt> = objs[..1].iter().chain(fdts.iter()).chain(objs[1..].iter()).cloned().collect();
                    let rx2 = util::guarded(|| receive(&em.spec.endpoint(), order.iter().map(|p| (p.bytes.as_slice(), p.t)), &RxOpts::default(), None));
                    match rx2 {
                        Ok(rx2) => {
                            let c2 = rx2.log.completes(toi);
                            cr.count("object_first_receptions", 1);
                            if c2.len() != 1 || c2[0].data != data {
                                cr.violations.push(Violation::new("receiver_disagrees_oti_from_ext_fti", format!(
                                    "receiver that learns the OTI from the first object packet (EXT_FTI) did not rebuild the object (complete writers: {})", c2.len()))
                                    .with("fec", fec.name()).witness(wit.clone()));
                            }
                        }
                        Err(pn) => {
                            cr.violations.push(Violation::new("panic", format!("object-first reception panicked: {} @ {}", pn.msg, pn.short_loc()))
                                .with("site", pn.file()).with("fec", fec.name()).witness(wit.clone()));
                        }
                    }
                }
            }
            // receiver agrees: delivered byte exact, and reported OTI gives the same partition
            let c = rx.log.completes(toi);
            if c.len() != 1 || c[0].data != data {
                cr.violations.push(Violation::new("receiver_disagrees", format!(
                    "receiver did not rebuild the object (complete writers: {})", c.len()))
                    .with("fec", fec.name()).witness(wit.clone()));
                return cr;
            }
            if let Some(roti) = c[0].meta.oti.as_ref() {
                let rb = roti.maximum_source_block_length as u128;
                let q = ref_partition(rb, l as u128, roti.encoding_symbol_length as u128);
                if q != p {
                    cr.violations.push(Violation::new("receiver_partition", format!(
                        "receiver OTI (B={},E={}) yields partition {:?}, sender's is {:?}", rb, roti.encoding_symbol_length, q, p))
                        .with("fec", fec.name()).witness(wit.clone()));
                }
            }
            cr.count("object_packets", em.stream.iter().filter(|p| p.toi() == toi).count() as u64);
            cr.shape = Some(util::fnv(&format!("{}|N{}|I{}|ib{}", fec.name(), p.n, p.nb_large, oti.inband_fti)));
            cr.states = vec![util::fnv(&format!("{:?}", p))];
            cr.sample = Some(json!({"oti": oti.json(), "L": l, "partition": format!("{:?}", p)}));
            cr
        }));
        gens
    });
}
