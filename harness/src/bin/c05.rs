//! C05 - the filesystem object writer creates, truncates, writes and deletes
//! only inside its destination directory, for every Content-Location an FDT can
//! carry.
use serde_json::json;
use std::collections::BTreeMap;
use std::path::{Path, PathBuf};
use flute::receiver::writer::{ObjectMetadata, ObjectWriter, ObjectWriterBuilder, ObjectWriterBuilderResult};
use std::cell::RefCell;
use std::rc::Rc;
use std::time::SystemTime;
use vh::hostile::{expires_in, wrap_fdt};
use vh::report::*;
use vh::session::md5_b64;
use vh::util::{self, Rng};
use vh::wire::{self, Fti};

const PREFIXES: [&str; 9] = ["file:///", "file://host/", "http://h/", "x:", "x:/", "x://h/", "", "/", "//"];

fn segments(abs: &str, token: &str) -> Vec<String> {
    vec![
        "name".into(),
        "canary.txt".into(),
        ".".into(),
        "..".into(),
        "".into(),
        "%2e%2e".into(),
        "..%2f".into(),
        "a\\..\\b".into(),
        abs.trim_start_matches('/').to_string(),
        token.to_string(),
    ]
}

fn xml_escape(s: &str) -> String {
    let mut o = String::new();
    for c in s.chars() {
        match c {
            '&' => o.push_str("&amp;"),
            '<' => o.push_str("&lt;"),
            '>' => o.push_str("&gt;"),
            '"' => o.push_str("&quot;"),
            '\'' => o.push_str("&apos;"),
            c if (c as u32) < 0x20 => o.push_str(&format!("&#x{:x};", c as u32)),
            c => o.push(c),
        }
    }
    o
}

type Snap = BTreeMap<String, (bool, u64, u64)>; // path -> (is_dir, size, content hash)

fn snapshot(root: &Path, out: &mut Snap) {
    if let Ok(rd) = std::fs::read_dir(root) {
        for e in rd.flatten() {
            let p = e.path();
            let md = match std::fs::symlink_metadata(&p) {
                Ok(m) => m,
                Err(_) => continue,
            };
            if md.is_dir() {
                out.insert(p.to_string_lossy().to_string(), (true, 0, 0));
                snapshot(&p, out);
            } else {
                let h = std::fs::read(&p).map(|b| util::fnv(&util::hex(&b))).unwrap_or(0);
                out.insert(p.to_string_lossy().to_string(), (false, md.len(), h));
            }
        }
    }
}

struct Jail {
    jail: PathBuf,
    dest: PathBuf,
    abs_escape: String,
}

/// Where the jails live: a memory file system when there is one (tens of thousands of small directory trees are
/// created and removed per run; on the sandbox's disk the kernel serialises them on the journal and the 16 worker
/// threads queue up in mkdir / open), the harness's own scratch directory otherwise. Scratch only, removed at exit.
fn jail_base() -> std::path::PathBuf {
    static DIR: std::sync::OnceLock<std::path::PathBuf> = std::sync::OnceLock::new();
    DIR.get_or_init(|| {
        let shm = std::path::Path::new("/dev/shm");
        if std::env::var("VERIF_C05_ON_DISK").is_err() && shm.is_dir() {
            let d = shm.join("vh-c05");
            if std::fs::create_dir_all(&d).is_ok() && std::fs::write(d.join(format!(".probe-{}", std::process::id())), b"x").is_ok() {
                let _ = std::fs::remove_file(d.join(format!(".probe-{}", std::process::id())));
                return d;
            }
        }
        vh::session::sandbox_dir()
    })
    .clone()
}

fn empty_chain_of(tag: &str) -> bool {
    util::fnv(&format!("chain|{}", tag)) % 2 == 0
}

fn make_jail(tag: &str) -> Jail {
    // spread the jails over buckets: one shared parent directory serialises all threads
    let bucket = util::fnv(tag) % 256;
    let jail = jail_base().join(format!("c05-{}", std::process::id())).join(format!("b{}", bucket)).join(format!("c05-{}-{}", std::process::id(), tag));
    let _ = std::fs::remove_dir_all(&jail);
    let root = jail.join("r1").join("r2").join("r3");
    // every other jail: the destination directory is EMPTY and sits in a directory that holds nothing else
    // (a writer that tidies up empty folders after a failed object must not remove them: they are not inside
    // the destination)
    let empty_chain = empty_chain_of(tag);
    let dest = if empty_chain { root.join("outer").join("mid").join("only").join("dest") } else { root.join("outer").join("mid").join("dest") };
    std::fs::create_dir_all(&dest).unwrap();
    std::fs::create_dir_all(jail.join("escape")).unwrap();
    for d in [&jail, &jail.join("r1"), &root, &root.join("outer"), &root.join("outer").join("mid"), &dest, &jail.join("escape")] {
        if empty_chain && *d == dest {
            continue;
        }
        std::fs::write(d.join("canary.txt"), format!("canary of {}", d.display())).unwrap();
        std::fs::write(d.join("name"), "canary named name").unwrap();
    }
    // a sibling whose name has the destination as prefix
    std::fs::create_dir_all(root.join("outer").join("mid").join("dest-sibling")).unwrap();
    std::fs::write(root.join("outer").join("mid").join("dest-sibling").join("canary.txt"), "sibling").unwrap();
    // ... and, next to the destination itself, a file and a second directory whose names extend the destination's name
    if !empty_chain {
        std::fs::write(root.join("outer").join("mid").join("dest.conf"), "configuration next to the destination").unwrap();
        std::fs::create_dir_all(root.join("outer").join("mid").join("dest2")).unwrap();
        std::fs::write(root.join("outer").join("mid").join("dest2").join("secret.key"), "secret").unwrap();
    }
    let abs_escape = jail.join("escape").to_string_lossy().to_string();
    Jail { jail, dest, abs_escape }
}

type Journal = Rc<RefCell<Vec<String>>>;

/// The real filesystem writer behind a wrapper that journals what the receiver asks of it (and what open answered)
struct JournalBuilder {
    inner: flute::receiver::writer::ObjectWriterFSBuilder,
    journal: Journal,
}

struct JournalWriter {
    inner: Box<dyn ObjectWriter>,
    journal: Journal,
}

impl ObjectWriterBuilder for JournalBuilder {
    fn new_object_writer(&self, endpoint: &flute::core::UDPEndpoint, tsi: &u64, toi: &u128, meta: &ObjectMetadata, now: SystemTime) -> ObjectWriterBuilderResult {
        match self.inner.new_object_writer(endpoint, tsi, toi, meta, now) {
            ObjectWriterBuilderResult::StoreObject(w) => {
                self.journal.borrow_mut().push("new".to_string());
                ObjectWriterBuilderResult::StoreObject(Box::new(JournalWriter { inner: w, journal: self.journal.clone() }))
            }
            other => other,
        }
    }
    fn update_cache_control(&self, endpoint: &flute::core::UDPEndpoint, tsi: &u64, toi: &u128, meta: &ObjectMetadata, now: SystemTime) {
        self.inner.update_cache_control(endpoint, tsi, toi, meta, now)
    }
    fn fdt_received(&self, endpoint: &flute::core::UDPEndpoint, tsi: &u64, fdt_xml: &str, expires: SystemTime, meta: &ObjectMetadata, transfer_duration: std::time::Duration, now: SystemTime, ext_time: Option<SystemTime>) {
        self.inner.fdt_received(endpoint, tsi, fdt_xml, expires, meta, transfer_duration, now, ext_time)
    }
}

impl ObjectWriter for JournalWriter {
    fn open(&self, now: SystemTime) -> flute::error::Result<()> {
        let r = self.inner.open(now);
        self.journal.borrow_mut().push(if r.is_ok() { "open=Ok".to_string() } else { "open=Err".to_string() });
        r
    }
    fn write(&self, sbn: u32, data: &[u8], now: SystemTime) -> flute::error::Result<()> {
        self.journal.borrow_mut().push("write".to_string());
        self.inner.write(sbn, data, now)
    }
    fn complete(&self, now: SystemTime) {
        self.journal.borrow_mut().push("complete".to_string());
        self.inner.complete(now)
    }
    fn error(&self, now: SystemTime) {
        self.journal.borrow_mut().push("error".to_string());
        self.inner.error(now)
    }
    fn interrupted(&self, now: SystemTime) {
        self.journal.borrow_mut().push("interrupted".to_string());
        self.inner.interrupted(now)
    }
    fn enable_md5_check(&self) -> bool {
        self.inner.enable_md5_check()
    }
}

/// Push a hand-built session announcing `location` into a receiver with the
/// filesystem writer. ending: 0 complete, 1 error (MD5 mismatch), 2 interrupted (early B flag)
/// ending 3 / 4: the FDT carries no FEC-OTI at all (the OTI comes in-band with EXT_FTI only, the writer is opened
/// from the object's first packet); 3 = an empty object, 4 = a complete one.
/// Returns the journal of the calls made to the filesystem writer and nb_objects_error() at the end.
fn run_location(dest: &Path, location: &str, ending: usize, data: &[u8]) -> Result<(Vec<String>, usize), util::PanicInfo> {
    let data: &[u8] = if ending == 3 { &[] } else { data };
    let oti_attrs = if ending >= 3 { String::new() } else { format!(" FEC-OTI-FEC-Encoding-ID=\"0\" FEC-OTI-Maximum-Source-Block-Length=\"64\" FEC-OTI-Encoding-Symbol-Length=\"{}\"", 16) };
    let toi: u128 = 9;
    let tsi: u64 = 4;
    let e = 16usize;
    let md5 = if ending == 1 { md5_b64(b"something else") } else { md5_b64(data) };
    let xml = format!(
        "<?xml version=\"1.0\" encoding=\"UTF-8\"?>\n<FDT-Instance xmlns=\"urn:IETF:metadata:2005:FLUTE:FDT\" Expires=\"{}\"{}><File TOI=\"{}\" Content-Location=\"{}\" Content-Length=\"{}\" Transfer-Length=\"{}\" Content-MD5=\"{}\"/></FDT-Instance>",
        expires_in(3600), oti_attrs, toi, xml_escape(location), data.len(), data.len(), md5);
    let mut seq = wrap_fdt(xml.as_bytes(), tsi, 3, 1400, None, true);
    let fti = Fti { fec: 0, l: data.len() as u64, e: e as u16, b: 64, ..Default::default() };
    let k = data.len().div_ceil(e);
    for esi in 0..k {
        let mut l = wire::enc_lct(tsi, toi, 0);
        let last = esi + 1 == k;
        if ending == 2 {
            // close-object flag on the first packet and the last symbol never sent
            l.b = esi == 0;
            if last {
                continue;
            }
        } else {
            l.b = last;
        }
        let s = esi * e;
        let en = (s + e).min(data.len());
        seq.push(wire::encode(&l, &[wire::ext_fti(&fti)], &wire::payload_id(0, 0, esi as u32, 0, 8), &data[s..en]));
    }
    if data.is_empty() {
        // an empty object: one packet without payload, close-object flag set
        let mut l = wire::enc_lct(tsi, toi, 0);
        l.b = true;
        seq.push(wire::encode(&l, &[wire::ext_fti(&fti)], &wire::payload_id(0, 0, 0, 0, 8), &[]));
    }
    let dest = dest.to_path_buf();
    util::guarded(move || {
        let journal: Journal = Rc::new(RefCell::new(vec![]));
        let w = Rc::new(JournalBuilder { inner: flute::receiver::writer::ObjectWriterFSBuilder::new(&dest, true).expect("dest is a directory"), journal: journal.clone() });
        // endings 3 / 4: the receiver keeps track of failed objects (the default configuration forgets them at once),
        // so that "the object failed" is visible through nb_objects_error()
        let config = if ending >= 3 { Some(flute::receiver::Config { max_objects_error: 16, ..Default::default() }) } else { None };
        let mut rx = flute::receiver::MultiReceiver::new(w, config, false);
        let ep = flute::core::UDPEndpoint::new(None, "224.0.0.1".into(), 3400);
        let now: SystemTime = util::at(1000);
        for b in &seq {
            let _ = rx.push(&ep, b, now);
        }
        let nb_err = if ending >= 3 { rx.nb_objects_error() } else { usize::MAX };
        drop(rx);
        let j = journal.borrow().clone();
        (j, nb_err)
    })
}

fn root_litter(token: &str) -> Vec<String> {
    let mut v = vec![];
    for top in ["/", "/tmp"] {
        if let Ok(rd) = std::fs::read_dir(top) {
            for e in rd.flatten() {
                let n = e.file_name().to_string_lossy().to_string();
                if n.contains(token) {
                    v.push(e.path().to_string_lossy().to_string());
                }
            }
        }
    }
    v
}

/// unescape the quoted C strings of a strace line
fn strace_strings(body: &str) -> Vec<String> {
    let b = body.as_bytes();
    let mut out = vec![];
    let mut i = 0;
    while i < b.len() {
        if b[i] == b'"' {
            let mut cur: Vec<u8> = vec![];
            i += 1;
            while i < b.len() && b[i] != b'"' {
                if b[i] == b'\\' && i + 1 < b.len() {
                    i += 1;
                    match b[i] {
                        b'n' => cur.push(b'\n'),
                        b't' => cur.push(b'\t'),
                        b'r' => cur.push(b'\r'),
                        b'v' => cur.push(0x0b),
                        b'f' => cur.push(0x0c),
                        b'0'..=b'7' => {
                            let mut v = 0u32;
                            let mut n = 0;
                            while n < 3 && i < b.len() && (b'0'..=b'7').contains(&b[i]) {
                                v = v * 8 + (b[i] - b'0') as u32;
                                i += 1;
                                n += 1;
                            }
                            i -= 1;
                            cur.push(v as u8);
                        }
                        b'x' => {
                            let h = std::str::from_utf8(&b[i + 1..(i + 3).min(b.len())]).unwrap_or("0");
                            cur.push(u8::from_str_radix(h, 16).unwrap_or(b'?'));
                            i += 2;
                        }
                        c => cur.push(c),
                    }
                } else {
                    cur.push(b[i]);
                }
                i += 1;
            }
            out.push(String::from_utf8_lossy(&cur).to_string());
        }
        i += 1;
    }
    out
}

fn judge_location(tag: &str, location_of: &dyn Fn(&Jail, &str) -> String, cr: &mut CaseResult) -> Option<String> {
    let token = format!("vhc05-{}-{}", std::process::id(), tag);
    let mut shown = None;
    let mut any_write = false;
    let mut j = make_jail(tag);
    let mut before = Snap::new();
    snapshot(&j.jail, &mut before);
    for ending in 0..5 {
        let location = location_of(&j, &token);
        shown = Some(location.clone());
        let data = format!("payload-of-{}-{}-0123456789abcdef0123456789", tag, ending).into_bytes();
        let r = run_location(&j.dest, &location, ending, &data);
        let mut after = Snap::new();
        snapshot(&j.jail, &mut after);
        let dest_s = format!("{}/", j.dest.to_string_lossy());
        let inside = |p: &str| p.starts_with(&dest_s);
        let end_name = ["complete", "error", "interrupted", "empty_inband_oti", "complete_inband_oti"][ending];
        match &r {
            Err(p) => cr.violations.push(Violation::new("panic", format!("{} @ {}", p.msg, p.short_loc())).with("site", p.file())
                .witness(json!({"location": location, "ending": end_name}))),
            Ok((journal, nb_err)) => {
                // "a location that cannot be mapped inside that directory makes the object fail": once the writer has
                // refused the location (open answered Err) nothing is written, the object is never reported complete
                // and it is counted in error
                if let Some(k) = journal.iter().position(|e| e == "open=Err") {
                    cr.count("locations_refused_by_the_writer", 1);
                    let used = journal[k + 1..].iter().any(|e| e == "write" || e == "complete");
                    if used || *nb_err == 0 {
                        cr.violations.push(Violation::new("refused_not_failed", format!(
                            "Content-Location {:?} ({} ending): the writer refused the location, calls made to it {:?}, nb_objects_error() = {}", location, end_name, journal, nb_err))
                            .with("ending", end_name).with("completed", journal[k + 1..].iter().any(|e| e == "complete")).with("counted_in_error", *nb_err > 0)
                            .witness(json!({"location": location, "ending": end_name, "journal": journal})));
                    }
                }
            }
        }
        let mut touched: Vec<String> = vec![];
        for (p, v) in &after {
            if inside(p) {
                if before.get(p) != Some(v) {
                    any_write = true;
                }
                continue;
            }
            match before.get(p) {
                None => touched.push(format!("created {}", p.replace(&*j.jail.to_string_lossy(), "<jail>"))),
                Some(b) if b != v => touched.push(format!("modified {}", p.replace(&*j.jail.to_string_lossy(), "<jail>"))),
                _ => {}
            }
        }
        for p in before.keys() {
            if !inside(p) && !after.contains_key(p) {
                touched.push(format!("deleted {}", p.replace(&*j.jail.to_string_lossy(), "<jail>")));
            }
        }
        for l in root_litter(&token) {
            touched.push(format!("created {}", l));
            let _ = std::fs::remove_dir_all(&l);
            let _ = std::fs::remove_file(&l);
        }
        let dirty_inside = after.iter().any(|(p, v)| inside(p) && before.get(p) != Some(v));
        if !touched.is_empty() {
            let kind = if touched.iter().any(|t| t.starts_with("deleted") || t.starts_with("modified")) { "canary_damaged" } else { "created_outside" };
            cr.violations.push(Violation::new("escape", format!(
                "Content-Location {:?} ({} ending): outside the destination directory: {:?}", location, end_name, touched))
                .with("kind", kind)
                .with("has_dotdot", location.contains(".."))
                .with("double_slash_abs", location.starts_with("//"))
                .with("parses_as_url", url::Url::parse(&location).is_ok())
                .with("cannot_be_a_base", url::Url::parse(&location).map(|u| u.cannot_be_a_base()).unwrap_or(false))
                .witness(json!({"location": location, "ending": end_name, "touched": touched})));
            // start again from a pristine jail
            let _ = std::fs::remove_dir_all(&j.jail);
            j = make_jail(tag);
        } else if dirty_inside {
            // only the destination changed: reset it
            let _ = std::fs::remove_dir_all(&j.dest);
            std::fs::create_dir_all(&j.dest).unwrap();
            if !empty_chain_of(tag) {
                std::fs::write(j.dest.join("canary.txt"), format!("canary of {}", j.dest.display())).unwrap();
                std::fs::write(j.dest.join("name"), "canary named name").unwrap();
            }
        }
    }
    let _ = std::fs::remove_dir_all(&j.jail);
    cr.count("sessions", 5);
    if any_write {
        cr.count("locations_written_inside_dest", 1);
    }
    shown
}

/// strace a child that runs a batch of locations; every mutating file syscall
/// between the markers must target a path under the destination.
fn strace_batch(ctx: &Ctx, batch: usize, n: usize) -> CaseResult {
    let mut cr = CaseResult::default();
    let exe = std::env::current_exe().unwrap();
    let log = jail_base().join(format!("c05-strace-{}-{}.log", std::process::id(), batch));
    let st = std::process::Command::new("strace")
        .args(["-f", "-qq", "-e", "trace=openat,open,creat,mkdir,mkdirat,unlink,unlinkat,rename,renameat,renameat2,rmdir,truncate,access,faccessat,faccessat2,chdir", "-o"])
        .arg(&log)
        .arg(&exe)
        .args(["--strace-child", &ctx.seed.to_string(), &batch.to_string(), &n.to_string()])
        .stdout(std::process::Stdio::piped())
        .stderr(std::process::Stdio::piped())
        .output();
    let out = match st {
        Ok(o) => o,
        Err(e) => {
            cr.inconclusive = Some(format!("strace not runnable: {}", e));
            return cr;
        }
    };
    let txt = std::fs::read_to_string(&log).unwrap_or_default();
    let _ = std::fs::remove_file(&log);
    if !txt.contains("VH-MARK") {
        cr.inconclusive = Some(format!("strace produced no markers (exit {:?}): {}", out.status.code(), String::from_utf8_lossy(&out.stderr).chars().take(200).collect::<String>()));
        return cr;
    }
    let mut dest: Option<String> = None;
    let mut loc = String::new();
    let mut n_sys = 0u64;
    let mut n_mut = 0u64;
    for line in txt.lines() {
        // "<pid> syscall(args) = ret"
        let body = match line.find(' ') {
            Some(i) => &line[i + 1..],
            None => continue,
        };
        let strings = strace_strings(body);
        let first_path = strings.first().map(|s| s.as_str()).unwrap_or("");
        if first_path.starts_with("/VH-MARK-START") {
            // /VH-MARK-START|<dest>|<location hex>
            let mut it = first_path.split('|');
            it.next();
            dest = it.next().map(|s| s.to_string());
            loc = it.next().map(|s| String::from_utf8_lossy(&util::unhex(s)).to_string()).unwrap_or_default();
            continue;
        }
        if first_path.starts_with("/VH-MARK-END") {
            dest = None;
            continue;
        }
        let d = match &dest {
            Some(d) => d.clone(),
            None => continue,
        };
        if body.starts_with("access") || body.starts_with("faccessat") || body.starts_with("chdir") {
            continue;
        }
        n_sys += 1;
        let failed = body.contains(" = -1");
        let mutating = if body.starts_with("openat") || body.starts_with("open(") {
            body.contains("O_CREAT") || body.contains("O_WRONLY") || body.contains("O_RDWR") || body.contains("O_TRUNC")
        } else {
            true // mkdir, unlink, rename, creat, rmdir, truncate
        };
        if !mutating {
            continue;
        }
        n_mut += 1;
        // every quoted path argument of a mutating call must be under dest
        for q in strings.iter() {
            if q.is_empty() {
                continue;
            }
            // lexical normalisation (the child never changes directory)
            let mut parts: Vec<&str> = vec![];
            for c in q.split('/') {
                match c {
                    "" | "." => {}
                    ".." => {
                        parts.pop();
                    }
                    c => parts.push(c),
                }
            }
            let norm = format!("/{}", parts.join("/"));
            if !(norm == d || norm.starts_with(&format!("{}/", d))) {
                cr.violations.push(Violation::new("escape_syscall", format!(
                    "Content-Location {:?}: {} on {:?} (normalised {:?}) outside the destination {:?}{}", loc, body.split('(').next().unwrap_or("?"), q, norm, d, if failed { " [call failed]" } else { "" }))
                    .with("kind", if failed { "attempt_failed" } else { "syscall_succeeded" })
                    .with("has_dotdot", loc.contains(".."))
                    .with("double_slash_abs", loc.starts_with("//"))
                    .with("parses_as_url", url::Url::parse(&loc).is_ok())
                    .with("cannot_be_a_base", url::Url::parse(&loc).map(|u| u.cannot_be_a_base()).unwrap_or(false))
                    .witness(json!({"location": loc, "syscall": body})));
            }
        }
    }
    for l in root_litter("vhc05-") {
        if l.contains(&format!("st{}-", batch)) {
            let _ = std::fs::remove_dir_all(&l);
            let _ = std::fs::remove_file(&l);
        }
    }
    cr.count("file_syscalls_traced", n_sys);
    cr.count("mutating_syscalls_judged", n_mut);
    if n_mut > 0 {
        cr.shape = Some(util::fnv(&format!("strace{}", batch)));
    }
    cr.sample = Some(json!({"strace_batch": batch, "locations": n, "file_syscalls": n_sys, "mutating": n_mut}));
    limit(&mut cr.violations, 6);
    cr
}

fn grammar_location(j_abs: &str, token: &str, idx: usize, depth: usize) -> String {
    // idx encodes prefix and up to `depth` segments (with variable length)
    let segs = segments(j_abs, token);
    let mut x = idx;
    let p = PREFIXES[x % PREFIXES.len()];
    x /= PREFIXES.len();
    let len = 1 + x % depth;
    x /= depth;
    let mut parts = vec![];
    for _ in 0..len {
        parts.push(segs[x % segs.len()].clone());
        x /= segs.len();
    }
    format!("{}{}", p, parts.join("/"))
}

fn random_location(rng: &mut Rng, j_abs: &str, token: &str) -> String {
    let alpha: Vec<&str> = vec!["a", "b", "z", ".", "..", "/", "\\", ":", "%", "2", "e", "E", "f", " ", "~", "?", "#", "@", "%2e", "%2F", "%5c", "file:", "//", token, j_abs, "\u{e9}", "\t", "&", "\"", "<"];
    let n = rng.range(1, 14);
    let mut s = String::new();
    for _ in 0..n {
        let a: &str = *rng.pick(&alpha[..]);
        s.push_str(a);
    }
    s
}

fn strace_child(args: &[String]) -> ! {
    // c05 --strace-child <seed> <batch> <n>
    let seed: u64 = args[2].parse().unwrap();
    let batch: usize = args[3].parse().unwrap();
    let n: usize = args[4].parse().unwrap();
    util::install_quiet_panic_hook();
    let mut rng = Rng::keyed(seed, "C05strace", batch as u64, 0);
    for k in 0..n {
        let tag = format!("st{}-{}", batch, k);
        let token = format!("vhc05-{}-{}", std::process::id(), tag);
        let j = make_jail(&tag);
        let location = if k % 3 == 0 {
            random_location(&mut rng, &j.abs_escape, &token)
        } else {
            grammar_location(&j.abs_escape, &token, rng.below(9 * 4 * 10_000) as usize, 4)
        };
        let ending = k % 5;
        let data = b"0123456789abcdef0123456789abcdef0123456789".to_vec();
        let mark = format!("/VH-MARK-START|{}|{}", j.dest.to_string_lossy(), util::hex(location.as_bytes()));
        let _ = std::fs::metadata(&mark).is_ok();
        let _ = std::path::Path::new(&mark).exists();
        let c = std::ffi::CString::new(mark).unwrap();
        unsafe {
            libc::access(c.as_ptr(), 0);
        }
        let _ = run_location(&j.dest, &location, ending, &data);
        let c = std::ffi::CString::new("/VH-MARK-END").unwrap();
        unsafe {
            libc::access(c.as_ptr(), 0);
        }
        let _ = std::fs::remove_dir_all(&j.jail);
    }
    let _ = std::fs::remove_dir_all(jail_base().join(format!("c05-{}", std::process::id())));
    std::process::exit(0);
}

fn main() {
    let args: Vec<String> = std::env::args().collect();
    if args.get(1).map(|s| s.as_str()) == Some("--strace-child") {
        strace_child(&args);
    }
    // remove what earlier (possibly killed) runs left behind, and our own jails at exit
    // (only what is older than three hours: another C05 run may be at work next to this one)
    if let Ok(rd) = std::fs::read_dir(jail_base()) {
        for e in rd.flatten() {
            let old = e.metadata().ok().and_then(|m| m.modified().ok()).and_then(|t| t.elapsed().ok()).map(|d| d.as_secs() > 3 * 3600).unwrap_or(false);
            if old && e.file_name().to_string_lossy().starts_with("c05-") {
                let _ = std::fs::remove_dir_all(e.path());
            }
        }
    }
    extern "C" fn at_exit() {
        let _ = std::fs::remove_dir_all(jail_base().join(format!("c05-{}", std::process::id())));
    }
    unsafe {
        libc::atexit(at_exit);
    }
    let prop = Property {
        id: "C05",
        level: "exploration",
        rule: "Content-Location strings from the grammar prefix{9} x 1..d segments{10} (d=3 quick, 4 thorough: complete enumeration) plus all locations of 1..d' segments (d'=3 quick, 4 thorough) over {.., ., names of the siblings whose names extend the destination's name, canary names} and seeded random strings are announced by a hand-built FDT and delivered through a real session to the filesystem writer with three endings (complete, MD5 error, interrupted); oracle 1: before/after snapshot (path, type, size, content hash) of a jail three levels above the destination with canaries at every level, a prefix-sibling and filesystem-root litter scan - nothing outside the destination may be created, modified or deleted; oracle 2 (strace sample): every mutating file syscall issued during the session targets a path that normalises under the destination, successful or not; a case is one location (3 sessions), non-trivial when a file was written inside the destination or a syscall was judged; distinct = distinct locations; the real filesystem writer sits behind a journaling wrapper: five endings per location (complete, MD5 error, interrupted, empty object with in-band OTI only, complete object with in-band OTI only), and once open() refused a location nothing is written or completed and (last two endings, receiver remembering failed objects) nb_objects_error() is not 0",
        assumptions: vec![
            "no symlinks are planted inside the destination (a FLUTE sender cannot create them)".into(),
            "reading / stat outside the destination is not a violation".into(),
            "the check runs as root: absolute escapes really create files; the harness uses unique vhc05- names and removes them".into(),
        ],
        exhaustive: true,
        budget_quick_s: 150,
        budget_thorough_s: 1500,
    };
    run_property(prop, |ctx| {
        let mut gens = vec![];
        let depth = ctx.tier.pick(3usize, 4);
        let n = PREFIXES.len() * depth * 10usize.pow(depth as u32);
        gens.push(Gen::new("grammar", n, move |_ctx, i| {
            let mut cr = CaseResult::default();
            // skip encodings whose unused high digits are non-zero (duplicates)
            let len = 1 + (i / PREFIXES.len()) % depth;
            let hi = i / (PREFIXES.len() * depth) / 10usize.pow(len as u32);
            if hi != 0 {
                return cr;
            }
            let tag = format!("g{}", i);
            let shown = judge_location(&tag, &|j, tok| grammar_location(&j.abs_escape, tok, i, depth), &mut cr);
            cr.shape = Some(util::fnv(&tag));
            if i % 997 == 0 {
                cr.sample = Some(json!({"location": shown, "endings": ["complete", "error", "interrupted"]}));
            }
            limit(&mut cr.violations, 3);
            cr
        }));
        // ---- locations that leave the destination with '..' and re-enter a SIBLING whose name starts with the
        // destination's own name (dest-sibling/, dest2/, dest.conf): a confinement test that compares path strings
        // instead of path components lets them through. Complete enumeration to a depth.
        const SIB: [&str; 8] = ["..", "dest-sibling", "dest.conf", "dest2", "canary.txt", "secret.key", "name", "."];
        let sdepth = ctx.tier.pick(3usize, 4);
        let per_prefix: usize = (1..=sdepth).map(|d| SIB.len().pow(d as u32)).sum();
        gens.push(Gen::new("prefix_siblings", PREFIXES.len() * per_prefix, move |_ctx, i| {
            let mut cr = CaseResult::default();
            let p = PREFIXES[i % PREFIXES.len()];
            let mut x = i / PREFIXES.len();
            let mut len = 1;
            while x >= SIB.len().pow(len as u32) {
                x -= SIB.len().pow(len as u32);
                len += 1;
            }
            let mut parts = vec![];
            for _ in 0..len {
                parts.push(SIB[x % SIB.len()]);
                x /= SIB.len();
            }
            let location = format!("{}{}", p, parts.join("/"));
            // the siblings sit next to the destination only in the layout with canaries
            let mut n = 0;
            let mut tag = format!("s{}", i);
            while empty_chain_of(&tag) {
                n += 1;
                tag = format!("s{}x{}", i, n);
            }
            let shown = judge_location(&tag, &|_j, _tok| location.clone(), &mut cr);
            cr.shape = Some(util::fnv(&location));
            if i % 499 == 0 {
                cr.sample = Some(json!({"location": shown, "endings": ["complete", "error", "interrupted"]}));
            }
            limit(&mut cr.violations, 3);
            cr
        }));
        let nr = ctx.tier.pick(3000usize, 50_000);
        gens.push(Gen::new("random_strings", nr, move |ctx, i| {
            let mut cr = CaseResult::default();
            let tag = format!("r{}", i);
            let shown = judge_location(&tag, &|j, tok| {
                let mut rng = Rng::keyed(ctx.seed, "C05r", 0, i as u64);
                random_location(&mut rng, &j.abs_escape, tok)
            }, &mut cr);
            cr.shape = Some(util::fnv(&format!("{:?}", shown.as_ref().map(|s| s.replace(&std::process::id().to_string(), "")))));
            if i % 499 == 0 {
                cr.sample = Some(json!({"location": shown}));
            }
            limit(&mut cr.violations, 3);
            cr
        }));
        let nb = ctx.tier.pick(8usize, 64);
        let per = ctx.tier.pick(60usize, 300);
        gens.push(Gen::new("strace_sample", nb, move |ctx, i| strace_batch(ctx, i, per)));
        gens
    });
}
