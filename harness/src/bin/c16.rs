//! C16 - carousel late join: a receiver that starts at any packet boundary of
//! a carousel session delivers every carouselled object complete and byte-exact
//! within two further full cycles of the objects and the FDT.
use serde_json::json;
use std::collections::{BTreeMap, BTreeSet};
use std::sync::Arc;
use vh::mwriter::WState;
use vh::report::*;
use vh::scenario::*;
use vh::session::*;
use vh::util::{self, Rng};

#[derive(Clone, Debug)]
struct Cfg {
    fec: Fec,
    inband_fti: bool,
    inband_cenc: bool,
    cenc: CencSpec,
    nobj: usize,
    interval: bool,
    full_fdt: bool,
    small_fdt_symbols: bool,
    interleave: u8,
    fdt_same_fec: bool,
    /// one packet per 5 ms poll instead of draining: FDT repetitions land in the middle of object transfers
    paced: bool,
    /// the second object is empty (zero bytes)
    with_empty: bool,
    /// the objects are supplied as streams (in-memory cursor / file on disk) instead of buffers
    stream: bool,
    /// 0: FDT valid for one hour; 1 / 2: FDT valid for 2 s only, a stream twice as long, and late joiners ALSO started in
    /// the last third of the stream, when the first instances have long expired (2: the sender has called set_complete())
    aged: u8,
}

impl Cfg {
    fn name(&self) -> String {
        format!("{}|ib{}|ic{}|{}|n{}|{}|{}|mf{}|il{}|ff{}|{}", self.fec.name(), self.inband_fti, self.inband_cenc, self.cenc.name(), self.nobj,
            if self.interval { "interval" } else { "delay" }, if self.full_fdt { "full" } else { "obt" }, self.small_fdt_symbols, self.interleave, self.fdt_same_fec,
            format!("{}{}", if self.paced { if self.with_empty { "paced+empty" } else { "paced" } } else if self.with_empty { "drain+empty" } else { "drain" }, format!("{}{}", if self.stream { "+stream" } else { "" }, ["", "+aged", "+aged+complete"][self.aged as usize])))
    }
}

struct Built {
    cfg: Cfg,
    run: ScriptRun,
    /// per object: complete transfers as [start, stop)
    transfers: Vec<Vec<(usize, usize)>>,
    /// full FDT emissions: (first index, last index)
    fdt_emissions: Vec<(usize, usize)>,
    cycle_len: usize,
    /// finished transfers (Start .. Stop) that do not carry every source symbol: (object, start, stop, symbols seen, symbols expected)
    incomplete: Vec<(usize, usize, usize, usize, u128)>,
}

fn build(cfg: &Cfg, seed: u64) -> Result<Built, String> {
    let mut rng = Rng::keyed(seed, "C16", util::fnv(&cfg.name()), 0);
    let mut obj_oti = OtiSpec::new(cfg.fec, 16, if cfg.fec == Fec::Raptor { 5 } else { 3 }, if cfg.fec == Fec::NoCode { 0 } else { 1 });
    obj_oti.inband_fti = cfg.inband_fti;
    let mut def = if cfg.fdt_same_fec {
        let mut o = obj_oti.clone();
        o.e = 64;
        o.b = 8;
        vh::gen::make_fdt_capable(&mut o);
        o
    } else {
        OtiSpec::new(Fec::NoCode, if cfg.small_fdt_symbols { 128 } else { 4096 }, 16, 0)
    };
    def.inband_fti = true;
    let mut spec = SenderSpec::new(def);
    spec.full_fdt = cfg.full_fdt;
    spec.interleave = cfg.interleave;
    // paced runs with interleave 1: an FDT repetition every 8th packet slot
    spec.fdt_carousel = CarouselSpec::DelayMs(if cfg.paced && cfg.interleave == 1 { 40 } else { 150 });
    spec.fdt_duration_s = if cfg.aged > 0 { 2 } else { 3600 };
    // one configuration in three starts its FDT instance ids just below 2^20: in ObjectsBeingTransferred mode every
    // transfer start publishes a new instance, so the 20-bit id wraps while the late joiners listen
    let h = util::fnv(&cfg.name());
    if h % 3 == 0 {
        spec.fdt_start_id = 0xFFFFF - [1u32, 3, 6, 10][(h / 3 % 4) as usize];
    }
    spec.queues = vec![(0, 1 + (cfg.nobj as u32 + cfg.interleave as u32) % 3)];
    let mut objs = vec![];
    let mut script = vec![];
    for k in 0..cfg.nobj {
        let len = match cfg.fec {
            Fec::Raptor => 16 * (5 + 5 * k), // full symbols, blocks of 5
            _ => 16 * (4 + 3 * k) - 5,
        };
        let len = if cfg.with_empty && k == 1 { 0 } else { len };
        let mut o = ObjSpec::new(gen_bytes(&mut rng, len), &format!("file:///c/{}", k));
        o.oti = Some(obj_oti.clone());
        o.cenc = cfg.cenc;
        o.inband_cenc = cfg.inband_cenc;
        if cfg.stream {
            o.source = if k % 2 == 0 { SourceSpec::Cursor } else { SourceSpec::File };
        }
        o.carousel = Some(if cfg.interval { CarouselSpec::IntervalMs(200 + 50 * k as u64) } else { CarouselSpec::DelayMs(100 + 30 * k as u64) });
        script.push((When::Start, Op::Add(k)));
        objs.push(o);
    }
    if cfg.aged == 2 {
        script.push((When::Start, Op::SetComplete));
    }
    script.push((When::Start, Op::Publish));
    let mut opts = if cfg.paced { ScriptOpts::every(5, 2400) } else { ScriptOpts::every(50, if cfg.aged > 0 { 170 } else { 80 }) };
    opts.drain = !cfg.paced;
    opts.stop_when_empty = false;
    opts.max_packets = 30_000;
    let run = run_script(&spec, &objs, &script, &opts)?;
    if run.tois.iter().any(|t| t.is_none()) {
        return Err("object refused".into());
    }
    // complete transfers per object
    let mut transfers = vec![];
    let mut incomplete = vec![];
    for (i, _) in objs.iter().enumerate() {
        let toi = run.tois[i].unwrap();
        let oti = run.oti_of(i);
        let part = ref_partition(oti.b as u128, run.transfer_len[i].unwrap() as u128, oti.e as u128);
        let mut list = vec![];
        for (s, e) in run.transfers_of(toi) {
            if let Some(e) = e {
                let mut have = BTreeSet::new();
                for p in run.stream[s..e].iter().filter(|p| p.toi() == toi) {
                    if (p.dec.sbn as u128) < part.n && (p.dec.esi as u128) < part.k(p.dec.sbn as u128) {
                        have.insert((p.dec.sbn, p.dec.esi));
                    }
                }
                if have.len() as u128 == part.t {
                    list.push((s, e));
                } else {
                    incomplete.push((i, s, e, have.len(), part.t));
                }
            }
        }
        transfers.push(list);
    }
    // FDT emissions (rounds of any instance)
    let oti = &run.spec.oti;
    let mut rounds: BTreeMap<u32, (usize, BTreeSet<(u32, u32)>)> = BTreeMap::new();
    let mut fdt_emissions = vec![];
    for (k, p) in run.stream.iter().enumerate() {
        if p.toi() != 0 {
            continue;
        }
        let id = p.dec.fdt.map(|f| f.1).unwrap_or(0);
        let tl = p.dec.fti.as_ref().map(|f| f.l).unwrap_or(0);
        let part = ref_partition(oti.b as u128, tl as u128, oti.e as u128);
        if !((p.dec.sbn as u128) < part.n && (p.dec.esi as u128) < part.k(p.dec.sbn as u128)) {
            continue;
        }
        let ent = rounds.entry(id).or_insert((k, BTreeSet::new()));
        if ent.1.contains(&(p.dec.sbn, p.dec.esi)) {
            *ent = (k, BTreeSet::new());
        }
        if ent.1.is_empty() {
            ent.0 = k;
        }
        ent.1.insert((p.dec.sbn, p.dec.esi));
        if ent.1.len() as u128 == part.t {
            fdt_emissions.push((ent.0, k));
            ent.1.clear();
        }
    }
    let cycle_len = transfers.iter().filter(|t| t.len() >= 2).map(|t| t[1].0 - t[0].0).max().unwrap_or(0).max(fdt_emissions.windows(2).map(|w| w[1].0 - w[0].0).max().unwrap_or(0));
    Ok(Built { cfg: cfg.clone(), run, transfers, fdt_emissions, cycle_len, incomplete })
}

/// index (exclusive) by which, counted from j, every object had two further full
/// transfers and the FDT two further full emissions
fn window_end(b: &Built, j: usize) -> Option<usize> {
    let mut end = 0usize;
    for t in &b.transfers {
        let later: Vec<&(usize, usize)> = t.iter().filter(|(s, _)| *s >= j).collect();
        if later.len() < 2 {
            return None;
        }
        end = end.max(later[1].1);
    }
    let later: Vec<&(usize, usize)> = b.fdt_emissions.iter().filter(|(s, _)| *s >= j).collect();
    if later.len() < 2 {
        return None;
    }
    end = end.max(later[1].1 + 1);
    // an object transfer that began before the second FDT emission ended may need the following one:
    // the property speaks of two full cycles of objects AND FDT, counted together
    for t in &b.transfers {
        let after_fdt: Vec<&(usize, usize)> = t.iter().filter(|(s, _)| *s >= later[0].0).collect();
        if after_fdt.len() < 2 {
            return None;
        }
        end = end.max(after_fdt[1].1);
    }
    Some(end)
}

fn main() {
    let prop = Property {
        id: "C16",
        level: "fault_enumeration",
        rule: "for each carousel configuration (FEC scheme x in-band/FDT-only FTI x in-band/FDT-only CENC x cenc x 1-3 objects x delay/interval carousel x FullFDT/ObjectsBeingTransferred x single/multi-packet FDT x interleave x FDT protected by the same scheme x buffer / stream sources x FDT instance ids starting at 0 or just below the 2^20 wrap) one long stream is produced on a virtual clock and a FRESH receiver is started at EVERY packet offset of one full carousel cycle; it is fed the stream from that offset up to the index by which every object had two further full transfers and the FDT two further full emissions (computed from Start/Stop events and the independent decoder); oracle: every object has a Complete writer with exact bytes and its last writer is not in error; per configuration: the sender neither panics nor hangs and every finished carousel round carries every source symbol; a case is one chunk of join offsets of one configuration, non-trivial when at least one writer completed; distinct = (configuration, chunk); aged configurations: FDT lifetime 2 s, stream of 8.5 s, half after set_complete(), late joiners also started in the last third of the stream; the late joiners of the aged configurations run on a clock 0 / +3 s / -3 s / +1 h away from the sender's",
        assumptions: vec![
            "receiver: no object timeout, max_objects_error 0 and 4 alternating over the join offsets, FDT expiry check on with a 1 h FDT duration (expiry interplay is C19's)".into(),
            "carousel parameters leave room for the objects between FDT repetitions (FDT has absolute priority)".into(),
            "an Error followed by a successful re-download inside the window is tolerated (counted)".into(),
        ],
        exhaustive: true,
        budget_quick_s: 150,
        budget_thorough_s: 1800,
    };
    run_property(prop, |ctx| {
        let mut cfgs: Vec<Cfg> = vec![];
        for fec in ALL_FEC {
            for inband_fti in [true, false] {
                for (cenc, inband_cenc) in [(CencSpec::Null, false), (CencSpec::Gzip, true), (CencSpec::Gzip, false)] {
                    for full_fdt in [true, false] {
                        for v in 0..ctx.tier.pick(4usize, 32) {
                            cfgs.push(Cfg {
                                fec, inband_fti, inband_cenc, cenc,
                                nobj: if v < 4 { 1 + v % 3 } else { 2 + v % 4 },
                                interval: v % 2 == 1,
                                full_fdt,
                                small_fdt_symbols: v % 4 >= 2,
                                interleave: 1 + ((v / 2) % 3) as u8,
                                fdt_same_fec: v % 4 == 3 && fec != Fec::Raptor,
                                paced: false,
                                with_empty: false,
                                stream: false,
                                aged: 0,
                            });

                            let mut paced = cfgs.last().unwrap().clone();
                            paced.paced = true;
                            cfgs.push(paced.clone());
                            if (v % 2 == 1 || v >= 4) && cenc == CencSpec::Null {
                                // (flute sends a stream as it is: a content encoding would have to be applied by the caller)
                                // same configuration, objects supplied as streams (rewound for every carousel round)
                                let mut st = paced.clone();
                                st.stream = true;
                                st.paced = v % 4 == 1;
                                cfgs.push(st);
                            }
                            if paced.nobj >= 2 && v % 2 == 0 {
                                // same configuration with an empty second object
                                let mut e = paced.clone();
                                e.with_empty = true;
                                cfgs.push(e.clone());
                                e.paced = false;
                                cfgs.push(e);
                            }
                            if v < 2 && cenc == CencSpec::Null {
                                // short-lived FDT instances renewed while the carousel runs, late joiners in the last third
                                let mut a = paced.clone();
                                a.paced = false;
                                a.aged = 1 + (v as u8 + inband_fti as u8) % 2;
                                cfgs.push(a);
                            }
                        }
                    }
                }
            }
        }
        let _ = Tier::Quick;
        let mut built: Vec<Built> = vec![];
        let mut not_built = 0;
        // sender-side verdicts per configuration (reported through the generator `configurations`)
        let mut reports: Vec<(String, Vec<Violation>)> = vec![];
        for c in &cfgs {
            let mut rep: Vec<Violation> = vec![];
            let r = util::guarded(|| build(c, ctx.seed));
            if let Ok(Ok(b)) = &r {
                // a carousel round that ends (StopTransfer) without having carried every source symbol can never serve a
                // late joiner, however long it listens
                if let Some((k, s0, e0, have, want)) = b.incomplete.first() {
                    rep.push(Violation::new("carousel_round_incomplete", format!(
                        "{}: {} finished transfer(s) of carouselled objects do not carry every source symbol, e.g. object {} packets [{}, {}): {} of {} source symbols ({} complete transfers of that object in the stream)",
                        c.name(), b.incomplete.len(), k, s0, e0, have, want, b.transfers[*k].len()))
                        .with("fec", c.fec.name()).with("stream_source", c.stream).with("empty_round", *have == 0)
                        .witness(json!({"config": c.name(), "incomplete": b.incomplete.iter().take(8).collect::<Vec<_>>()})));
                }
            }
            if let Err(p) = &r {
                rep.push(Violation::new(if p.is_step_budget() { "hang" } else { "panic" }, format!("{}: the sender {} while the carousel ran: {} @ {}", c.name(), if p.is_step_budget() { "hung" } else { "panicked" }, p.msg, p.short_loc()))
                    .with("site", if p.is_step_budget() { p.step_site() } else { p.file() }).with("fec", c.fec.name()).with("stream_source", c.stream)
                    .witness(json!({"config": c.name()})));
            }
            reports.push((c.name(), rep));
            match r {
                Ok(Ok(b)) => {
                    if b.cycle_len > 0 && b.transfers.iter().all(|t| t.len() >= 4) {
                        built.push(b);
                    } else {
                        not_built += 1;
                        if not_built <= 3 {
                            eprintln!("C16: configuration {} gives no usable carousel (cycle {} transfers {:?})", c.name(), b.cycle_len, b.transfers.iter().map(|t| t.len()).collect::<Vec<_>>());
                        }
                    }
                }
                Ok(Err(e)) => {
                    not_built += 1;
                    if not_built <= 3 {
                        eprintln!("C16: configuration {} not built: {} (e.g. a compressed Raptor object whose blocks have 2-3 symbols is refused by flute)", c.name(), e);
                    }
                }
                Err(p) => {
                    not_built += 1;
                    eprintln!("C16: configuration {} panicked while building: {} @ {}", c.name(), p.msg, p.short_loc());
                }
            }
        }
        eprintln!("C16: {} configurations built, {} not", built.len(), not_built);
        let built = Arc::new(built);
        const CH: usize = 24;
        let mut plan: Vec<(usize, usize, bool)> = vec![];
        for (bi, b) in built.iter().enumerate() {
            for c in 0..b.cycle_len.div_ceil(CH) {
                plan.push((bi, c, false));
                if b.cfg.aged > 0 {
                    plan.push((bi, c, true));
                }
            }
        }
        let n_plan = plan.len();
        let bb = built.clone();
        let mut gens = vec![];
        let reports = Arc::new(std::sync::Mutex::new(reports));
        let n_cfg = cfgs.len();
        let rp = reports.clone();
        gens.push(Gen::new("configurations", n_cfg, move |_ctx, i| {
            let mut cr = CaseResult::default();
            let mut g = rp.lock().unwrap();
            let (name, v) = &mut g[i];
            cr.violations = std::mem::take(v);
            cr.shape = Some(util::fnv(name));
            cr.count("configurations_run_on_the_sender", 1);
            cr
        }));
        gens.push(Gen::new("every_join_offset", n_plan, move |_ctx, i| {
            let (bi, c, late) = plan[i];
            let b = &bb[bi];
            let mut cr = CaseResult::default();
            // join offsets of the second cycle (the first one contains the session start); `late`: of the first cycle
            // that starts in the last third of the stream (the FDT instances of the session start have expired)
            let base = if late {
                let from = b.run.stream.len() * 2 / 3;
                b.transfers.iter().filter_map(|t| t.iter().map(|x| x.0).find(|s| *s >= from)).min().unwrap_or(from)
            } else {
                b.transfers.iter().filter_map(|t| t.first().map(|x| x.0)).min().unwrap_or(0)
            };
            let (mut joins, mut completes, mut tolerated) = (0u64, 0u64, 0u64);
            for j in (base + c * CH)..(base + ((c + 1) * CH).min(b.cycle_len)) {
                let end = match window_end(b, j) {
                    Some(e) => e.min(b.run.stream.len()),
                    None => {
                        cr.inconclusive = Some(format!("{}: stream too short for join offset {}", b.cfg.name(), j));
                        break;
                    }
                };
                joins += 1;
                let rx = util::guarded(|| {
                    let mut o = RxOpts::default();
                    // receivers that remember failed objects (a late joiner may fail an object once before it knows the
                    // FDT: the next cycle must clear that) alternate with receivers that do not
                    o.config.max_objects_error = if j % 2 == 0 { 0 } else { 4 };
                    // one join offset in three: cleanup() after every packet, as an application timer (and the crate's own
                    // tests) call it - housekeeping must not throw away what the late joiner is in the middle of receiving
                    o.cleanup_every_push = j % 3 == 1;
                    // aged configurations (short-lived instances, sender time stamped in EXT_TIME): the receiver's clock is
                    // that of the sender, 3 s ahead of it, 3 s behind it or one hour ahead - expiry is judged on the
                    // sender's clock, so the skew changes nothing
                    let skew_ms: i64 = if b.cfg.aged > 0 && b.run.spec.inband_sct { [0i64, 3_000, -3_000, 3_600_000][j % 4] } else { 0 };
                    let shift = |t: std::time::SystemTime| if skew_ms >= 0 { t + std::time::Duration::from_millis(skew_ms as u64) } else { t - std::time::Duration::from_millis((-skew_ms) as u64) };
                    receive(&b.run.spec.endpoint(), b.run.stream[j..end].iter().map(|p| (p.bytes.as_slice(), shift(p.t))), &o, None)
                });
                let wit = |extra: serde_json::Value| json!({"config": b.cfg.name(), "join_offset": j, "window_end": end, "detail": extra,
                    "joined_at": format!("toi={} sbn={} esi={}", b.run.stream[j].toi(), b.run.stream[j].dec.sbn, b.run.stream[j].dec.esi),
                    "transfers": b.transfers.iter().map(|t| t.iter().take(6).collect::<Vec<_>>()).collect::<Vec<_>>(), "fdt_emissions": b.fdt_emissions.iter().take(8).collect::<Vec<_>>()});
                let rx = match rx {
                    Ok(r) => r,
                    Err(p) => {
                        cr.violations.push(Violation::new(if p.is_step_budget() { "hang" } else { "panic" }, format!("{} @ {}", p.msg, p.short_loc())).with("site", if p.is_step_budget() { p.step_site() } else { p.file() }).with("fec", b.cfg.fec.name()).witness(wit(json!(null))));
                        continue;
                    }
                };
                let join_kind = if b.run.stream[j].toi() == 0 { "mid_or_at_fdt" } else { "mid_or_at_object" };
                for (k, o) in b.run.objs.iter().enumerate() {
                    let toi = b.run.tois[k].unwrap();
                    let ws = rx.log.for_toi(toi);
                    let ok = ws.iter().any(|w| w.state == WState::Complete && w.data == o.data);
                    let traces: Vec<String> = ws.iter().map(|w| rx.log.abstract_trace_of(w.wid)).collect();
                    if ok {
                        completes += 1;
                        if ws.iter().any(|w| matches!(w.state, WState::Error | WState::Interrupted)) {
                            tolerated += 1;
                        }
                    } else {
                        cr.violations.push(Violation::new("late_joiner_misses_object", format!(
                            "{}: receiver joining at packet {} does not deliver object {} (TOI {}) within two further full cycles (window end {}); writers: {:?}", b.cfg.name(), j, k, toi, end, traces))
                            .with("fec", b.cfg.fec.name()).with("inband_fti", b.cfg.inband_fti).with("full_fdt", b.cfg.full_fdt).with("cenc", b.cfg.cenc.name()).with("inband_cenc", b.cfg.inband_cenc)
                            .with("join_kind", join_kind).with("no_writer", ws.is_empty()).with("receiver_keeps_failed_objects", j % 2 == 1).with("cleanup_after_every_push", j % 3 == 1)
                            .with("joined_after_first_instances_expired", late).with("sender_set_complete", b.cfg.aged == 2)
                            .with("receiver_clock_skew_ms", if b.cfg.aged > 0 && b.run.spec.inband_sct { [0i64, 3_000, -3_000, 3_600_000][j % 4] } else { 0 })
                            .witness(wit(json!({"object": k, "writers": traces}))));
                    }
                    if let Some(w) = ws.last() {
                        if ok && matches!(w.state, WState::Error) && ws.iter().rposition(|x| x.state == WState::Complete).map(|p| p + 1 < ws.len()).unwrap_or(false) {
                            // a later error after completion: not this property's business (C01/C03)
                        }
                    }
                    for w in &ws {
                        if w.state == WState::Complete && w.data != o.data {
                            cr.violations.push(Violation::new("bytes", format!("{}: join at {}: TOI {} completed with wrong bytes", b.cfg.name(), j, toi)).with("fec", b.cfg.fec.name()).witness(wit(json!(null))));
                        }
                    }
                }
                cr.states.push(util::fnv(&format!("{}|{}", join_kind, rx.log.writers.len().min(6))));
                if distinct_sigs(&cr.violations) > 4 || cr.violations.len() > 100 {
                    break;
                }
            }
            cr.states.sort();
            cr.states.dedup();
            cr.count("join_offsets", joins);
            cr.count("objects_delivered", completes);
            cr.count("delivered_after_a_failed_attempt", tolerated);
            if completes > 0 {
                cr.shape = Some(util::fnv(&format!("{}|{}|{}", b.cfg.name(), c, late)));
            }
            if c == 0 {
                cr.sample = Some(json!({"config": b.cfg.name(), "cycle_length_packets": b.cycle_len, "stream_packets": b.run.stream.len(), "first_transfers": b.transfers.iter().map(|t| t.iter().take(3).collect::<Vec<_>>()).collect::<Vec<_>>(), "joins_in_chunk": joins}));
            }
            limit(&mut cr.violations, 3);
            cr
        }));
        gens
    });
}
