use vh::session::*;
use vh::scenario::*;
use vh::util::*;
fn main() {
    install_quiet_panic_hook();
    let a: Vec<String> = std::env::args().collect();
    let fec = match a[1].as_str() { "nocode"=>Fec::NoCode, "rs28"=>Fec::Rs28, "rs28us"=>Fec::Rs28Us, "raptorq"=>Fec::RaptorQ, _=>Fec::Raptor };
    let e: u16 = a[2].parse().unwrap(); let b: u32 = a[3].parse().unwrap(); let parity: u32 = a[4].parse().unwrap();
    let l: usize = a[5].parse().unwrap(); let inband = a[6] == "1";
    let cenc = match a.get(7).map(|s| s.as_str()) { Some("gzip")=>CencSpec::Gzip, Some("zlib")=>CencSpec::Zlib, Some("deflate")=>CencSpec::Deflate, _=>CencSpec::Null };
    let mut oti = OtiSpec::new(fec, e, b, parity); oti.al = a.get(8).map(|s| s.parse().unwrap()).unwrap_or(4); oti.inband_fti = inband;
    let mut spec = SenderSpec::new(oti);
    spec.interleave = a.get(9).map(|s| s.parse().unwrap()).unwrap_or(4);
    let mut rng = Rng::new(7);
    let mut obj = ObjSpec::new(gen_bytes(&mut rng, l), "file:///x.bin");
    obj.cenc = cenc;
    let r = guarded(|| {
        let em = emit(&spec, &[obj.clone()], &EmitOpts::default()).unwrap();
        for p in &em.stream { println!("toi={} sbn={} esi={} b={} len={} fti={:?} fdt={:?} cenc={:?}", p.toi(), p.dec.sbn, p.dec.esi, p.dec.lct.b, p.payload().len(), p.dec.fti.as_ref().map(|f| (f.l,f.e,f.b,f.z)), p.dec.fdt, p.dec.cenc); }
        let rx = receive_stream(&em, &RxOpts::default());
        for w in &rx.log.writers { println!("writer {} toi={} {:?} trace={} data_ok={}", w.wid, w.toi, w.state, rx.log.trace_of(w.wid), w.data == obj.data); }
        for f in &rx.log.fdts { println!("{}", f.xml); }
        println!("push ok={} err={}", rx.push_ok, rx.push_err);
    });
    println!("{:?}", r);
}
