//! C06 - ALC/LCT wire format: round trip and differential against the
//! independent codec of `vh::wire`.
//!
//! Relations, all by exact equality of decoded field records:
//!   (1) flute_dec(flute_enc(x)) == x
//!   (2) ref_dec(flute_enc(x))   == x     (layout is the RFC's)
//!   (3) flute_dec(ref_enc(x, extras)) == x  (extras = what flute never emits
//!       but must accept: unknown/long extensions, other width classes, ...)
use flute::core::alc::{get_sender_current_time, parse_alc_pkt, parse_payload_id};
use flute::core::lct::Cenc;
use flute::core::{FECEncodingID, Oti};
use flute::verif::PktFields;
use serde_json::{json, Value};
use std::time::{Duration, SystemTime};
use vh::report::*;
use vh::util::{self, hex, Rng};
use vh::wire::{self, Fti, Sct};

#[derive(Clone, Debug, PartialEq, Eq)]
struct Rec {
    tsi: u64,
    toi: u128,
    cci: u128,
    cp: u8,
    a: bool,
    b: bool,
    hdr_bytes: usize,
    fdt: Option<(u8, u32)>,
    cenc: Option<u8>,
    sct_us: Option<u64>,
    fti: Option<FtiRec>,
    sbn: u32,
    esi: u32,
    sbl: Option<u32>,
    payload: Vec<u8>,
}

/// FTI as comparable values; fields a scheme does not carry are None
#[derive(Clone, Debug, PartialEq, Eq)]
struct FtiRec {
    l: u64,
    e: u16,
    b: Option<u32>,
    max_n: Option<u32>,
    instance: Option<u16>,
    z: Option<u32>,
    n: Option<u32>,
    al: Option<u32>,
}

fn fec_of(id: u8) -> FECEncodingID {
    match id {
        0 => FECEncodingID::NoCode,
        1 => FECEncodingID::Raptor,
        2 => FECEncodingID::ReedSolomonGF2M,
        5 => FECEncodingID::ReedSolomonGF28,
        6 => FECEncodingID::RaptorQ,
        _ => FECEncodingID::ReedSolomonGF28UnderSpecified,
    }
}

fn fti_of_oti(fec: u8, o: &Oti, l: u64) -> FtiRec {
    let sch = flute::verif::oti_scheme(o);
    let max_n = o.maximum_source_block_length as u64 + o.max_number_of_parity_symbols as u64;
    match fec {
        0 => FtiRec { l, e: o.encoding_symbol_length, b: Some(o.maximum_source_block_length), max_n: None, instance: None, z: None, n: None, al: None },
        5 => FtiRec { l, e: o.encoding_symbol_length, b: Some(o.maximum_source_block_length), max_n: Some(max_n as u32), instance: None, z: None, n: None, al: None },
        129 => FtiRec { l, e: o.encoding_symbol_length, b: Some(o.maximum_source_block_length), max_n: Some(max_n as u32), instance: Some(o.fec_instance_id), z: None, n: None, al: None },
        _ => FtiRec { l, e: o.encoding_symbol_length, b: None, max_n: None, instance: None, z: sch.map(|s| s.0), n: sch.map(|s| s.1), al: sch.map(|s| s.2) },
    }
}

fn fti_of_ref(f: &Fti) -> FtiRec {
    match f.fec {
        0 => FtiRec { l: f.l, e: f.e, b: Some(f.b), max_n: None, instance: None, z: None, n: None, al: None },
        5 => FtiRec { l: f.l, e: f.e, b: Some(f.b), max_n: f.max_n, instance: None, z: None, n: None, al: None },
        129 => FtiRec { l: f.l, e: f.e, b: Some(f.b), max_n: f.max_n, instance: f.instance, z: None, n: None, al: None },
        _ => FtiRec { l: f.l, e: f.e, b: None, max_n: None, instance: None, z: f.z, n: f.n, al: f.al.map(|a| a as u32) },
    }
}

fn flute_dec(bytes: &[u8], fallback: &Oti) -> Result<Rec, String> {
    let p = parse_alc_pkt(bytes).map_err(|e| format!("parse_alc_pkt: {}", e.0))?;
    let sct = get_sender_current_time(&p).map_err(|e| format!("get_sender_current_time: {}", e.0))?;
    let oti = p.oti.clone().unwrap_or_else(|| fallback.clone());
    let pid = parse_payload_id(&p, &oti).map_err(|e| format!("parse_payload_id: {}", e.0))?;
    Ok(Rec {
        tsi: p.lct.tsi,
        toi: p.lct.toi,
        cci: p.lct.cci,
        cp: p.lct.cp,
        a: p.lct.close_session,
        b: p.lct.close_object,
        hdr_bytes: p.lct.len,
        fdt: p.fdt_info.as_ref().map(|f| (f.version as u8, f.fdt_instance_id)),
        cenc: p.cenc.map(|c| c as u8),
        sct_us: sct.map(|t| t.duration_since(SystemTime::UNIX_EPOCH).unwrap().as_micros() as u64),
        fti: p.oti.as_ref().map(|o| fti_of_oti(p.lct.cp, o, p.transfer_length.unwrap_or(u64::MAX))),
        sbn: pid.sbn,
        esi: pid.esi,
        sbl: pid.source_block_length,
        payload: p.data[p.data_payload_offset..].to_vec(),
    })
}

fn ref_dec(bytes: &[u8]) -> Result<Rec, String> {
    let p = wire::decode(bytes)?;
    Ok(Rec {
        tsi: p.lct.tsi,
        toi: p.lct.toi,
        cci: p.lct.cci,
        cp: p.lct.cp,
        a: p.lct.a,
        b: p.lct.b,
        hdr_bytes: p.lct.hdr_end,
        fdt: p.fdt,
        cenc: p.cenc,
        sct_us: match &p.time {
            Some(Sct { hi: Some(hi), lo, .. }) => wire::ntp_to_unix_us(*hi, lo.unwrap_or(0)),
            _ => None,
        },
        fti: p.fti.as_ref().map(fti_of_ref),
        sbn: p.sbn,
        esi: p.esi,
        sbl: p.sbl.map(|v| v as u32),
        payload: bytes[p.payload_off..].to_vec(),
    })
}

/// The abstract packet both encoders are given
#[derive(Clone, Debug)]
struct X {
    fec: u8,
    tsi: u64,
    toi: u128,
    cci: u128,
    b: bool,
    fdt: Option<(u8, u32)>,
    cenc: Option<u8>,
    sct_us: Option<u64>,
    fti: Option<FtiRec>,
    // oti values used by flute's encoder even when the FTI is not in band
    e: u16,
    bmax: u32,
    parity: u32,
    z: u32,
    n: u32,
    al: u32,
    instance: u16,
    l: u64,
    sbn: u32,
    esi: u32,
    sbl: u32,
    payload: Vec<u8>,
}

impl X {
    fn json(&self) -> Value {
        json!({"fec": self.fec, "tsi": self.tsi, "toi": self.toi.to_string(), "cci": self.cci.to_string(), "B": self.b,
            "fdt": self.fdt, "cenc": self.cenc, "sct_us": self.sct_us, "fti": self.fti.is_some(), "L": self.l, "E": self.e,
            "Bmax": self.bmax, "parity": self.parity, "Z": self.z, "N": self.n, "Al": self.al, "instance": self.instance,
            "sbn": self.sbn, "esi": self.esi, "sbl": self.sbl, "payload_len": self.payload.len()})
    }
    fn oti(&self) -> Oti {
        let mut o = flute::verif::oti_with_scheme(
            fec_of(self.fec), self.e, self.bmax, self.parity, self.z as u16, self.n as u16, self.al as u8, self.fti.is_some());
        o.fec_instance_id = self.instance;
        o
    }
    fn expect(&self, hdr_bytes: usize, a: bool) -> Rec {
        Rec {
            tsi: self.tsi,
            toi: self.toi,
            cci: self.cci,
            cp: self.fec,
            a,
            b: self.b,
            hdr_bytes,
            fdt: self.fdt,
            cenc: self.cenc,
            sct_us: self.sct_us,
            fti: self.fti.clone(),
            sbn: self.sbn,
            esi: self.esi,
            sbl: if self.fec == 129 { Some(self.sbl) } else { None },
            payload: self.payload.clone(),
        }
    }
    fn flute_enc(&self) -> Vec<u8> {
        let f = PktFields {
            payload: self.payload.clone(),
            transfer_length: self.l,
            esi: self.esi,
            sbn: self.sbn,
            toi: self.toi,
            fdt_id: self.fdt.map(|f| f.1),
            cenc: match self.cenc.unwrap_or(0) {
                1 => Cenc::Zlib,
                2 => Cenc::Deflate,
                3 => Cenc::Gzip,
                _ => Cenc::Null,
            },
            inband_cenc: self.cenc.is_some(),
            close_object: self.b,
            source_block_length: self.sbl,
            sender_current_time: self.sct_us.is_some(),
        };
        let profile = match self.fdt {
            Some((1, _)) => flute::sender::Profile::RFC3926,
            _ => flute::sender::Profile::RFC6726,
        };
        let now = SystemTime::UNIX_EPOCH + Duration::from_micros(self.sct_us.unwrap_or(1_700_000_000_000_000));
        flute::verif::new_alc_pkt(&self.oti(), &self.cci, self.tsi, &f, profile, now)
    }
    fn ref_fti(&self) -> Fti {
        Fti {
            fec: self.fec,
            l: self.l,
            e: self.e,
            b: self.bmax,
            max_n: Some(self.bmax + self.parity),
            instance: Some(self.instance),
            z: Some(self.z),
            n: Some(self.n),
            al: Some(self.al as u8),
            m: None,
            g: None,
        }
    }
}

#[derive(Clone, Debug)]
struct Extras {
    class: (u8, u8, u8),
    c: u8,
    psi: u8,
    res: u8,
    version: u8,
    /// unknown extensions: (position in the extension list, bytes)
    unknown: Vec<(usize, Vec<u8>)>,
    /// extension order permutation seed
    order: u64,
    time_extra: (Option<u32>, Option<u32>),
    a: bool,
}

fn ref_enc(x: &X, ex: &Extras) -> Vec<u8> {
    let mut exts: Vec<Vec<u8>> = vec![];
    if let Some((v, id)) = x.fdt {
        exts.push(wire::ext_fdt(v, id));
    }
    if let Some(c) = x.cenc {
        exts.push(wire::ext_cenc(c));
    }
    if let Some(us) = x.sct_us {
        let (hi, lo) = wire::unix_us_to_ntp(us);
        exts.push(wire::ext_time(&Sct { hi: Some(hi), lo: Some(lo), ert: ex.time_extra.0, slc: ex.time_extra.1 }, 0));
    }
    if x.fti.is_some() {
        exts.push(wire::ext_fti(&x.ref_fti()));
    }
    let mut r = Rng::new(ex.order);
    if ex.order != 0 {
        r.shuffle(&mut exts);
    }
    for (pos, u) in &ex.unknown {
        let p = (*pos).min(exts.len());
        exts.insert(p, u.clone());
    }
    let l = wire::EncLct {
        v: ex.version,
        c: ex.c,
        psi: ex.psi,
        s: ex.class.0,
        o: ex.class.1,
        h: ex.class.2,
        res: ex.res,
        a: ex.a,
        b: x.b,
        cp: x.fec,
        cci: x.cci,
        tsi: x.tsi,
        toi: x.toi,
    };
    let pid = wire::payload_id(x.fec, x.sbn, x.esi, x.sbl as u16, 8);
    wire::encode(&l, &exts, &pid, &x.payload)
}

fn sct_close(a: Option<u64>, b: Option<u64>) -> bool {
    match (a, b) {
        (None, None) => true,
        (Some(a), Some(b)) => a.abs_diff(b) <= 1,
        _ => false,
    }
}

fn cmp(got: &Rec, want: &Rec) -> Option<String> {
    let mut g = got.clone();
    if sct_close(g.sct_us, want.sct_us) {
        g.sct_us = want.sct_us;
    }
    if &g == want {
        return None;
    }
    let mut d = vec![];
    macro_rules! f {
        ($n:ident) => {
            if g.$n != want.$n {
                d.push(format!("{}: got {:?} want {:?}", stringify!($n), g.$n, want.$n));
            }
        };
    }
    f!(tsi);
    f!(toi);
    f!(cci);
    f!(cp);
    f!(a);
    f!(b);
    f!(hdr_bytes);
    f!(fdt);
    f!(cenc);
    f!(sct_us);
    f!(fti);
    f!(sbn);
    f!(esi);
    f!(sbl);
    if g.payload != want.payload {
        d.push(format!("payload: got {} bytes want {} bytes", g.payload.len(), want.payload.len()));
    }
    Some(d.join("; "))
}

fn first_field(diff: &str) -> String {
    diff.split(':').next().unwrap_or("?").to_string()
}

/// Evaluate relations (1) and (2) on x.
fn check_flute_enc(x: &X, out: &mut Vec<Violation>) {
    let r = util::guarded(|| x.flute_enc());
    let bytes = match r {
        Ok(b) => b,
        Err(p) => {
            out.push(Violation::new("enc_panic", format!("flute encoder panicked: {} @ {}", p.msg, p.short_loc()))
                .with("site", p.file()).with("fec", x.fec).witness(x.json()));
            return;
        }
    };
    let want_hdr = match wire::decode(&bytes) {
        Ok(p) => p.lct.hdr_end,
        Err(_) => 0,
    };
    let want = x.expect(want_hdr, false);
    match ref_dec(&bytes) {
        Ok(got) => {
            if let Some(d) = cmp(&got, &want) {
                out.push(Violation::new("rel2_layout", format!("independent decoder reads different values from flute's packet: {}", d))
                    .with("field", first_field(&d)).with("fec", x.fec)
                    .witness(json!({"x": x.json(), "bytes": hex(&bytes)})));
            }
        }
        Err(e) => out.push(Violation::new("rel2_layout", format!("independent decoder rejects flute's packet: {}", e))
            .with("field", "reject").with("fec", x.fec)
            .witness(json!({"x": x.json(), "bytes": hex(&bytes)}))),
    }
    let oti = x.oti();
    match util::guarded(|| flute_dec(&bytes, &oti)) {
        Ok(Ok(got)) => {
            if let Some(d) = cmp(&got, &want) {
                out.push(Violation::new("rel1_roundtrip", format!("flute does not parse back what it built: {}", d))
                    .with("field", first_field(&d)).with("fec", x.fec)
                    .witness(json!({"x": x.json(), "bytes": hex(&bytes)})));
            }
        }
        Ok(Err(e)) => out.push(Violation::new("rel1_roundtrip", format!("flute rejects its own packet: {}", e))
            .with("field", "reject").with("fec", x.fec)
            .witness(json!({"x": x.json(), "bytes": hex(&bytes)}))),
        Err(p) => out.push(Violation::new("dec_panic", format!("flute decoder panicked on its own packet: {} @ {}", p.msg, p.short_loc()))
            .with("site", p.file()).with("fec", x.fec)
            .witness(json!({"x": x.json(), "bytes": hex(&bytes)}))),
    }
}

/// Evaluate relation (3) on (x, extras).
fn check_ref_enc(x: &X, ex: &Extras, out: &mut Vec<Violation>) {
    let bytes = ref_enc(x, ex);
    // the reference must read its own packet (trusted-base self check)
    let own = ref_dec(&bytes);
    let hdr = match &own {
        Ok(r) => r.hdr_bytes,
        Err(e) => panic!("reference codec cannot read its own packet: {} {:?} {:?}", e, x, ex),
    };
    let want = x.expect(hdr, ex.a);
    if let Some(d) = cmp(own.as_ref().unwrap(), &want) {
        panic!("reference codec does not round trip: {} {:?} {:?}", d, x, ex);
    }
    let oti = x.oti();
    let maxhel = ex.unknown.iter().map(|(_, u)| if u[0] < 128 { u[1] as u32 } else { 1 }).max().unwrap_or(0);
    let feat = json!({"class": format!("{:?}", ex.class), "c": ex.c, "psi": ex.psi, "res": ex.res, "v": ex.version,
        "unknown": ex.unknown.iter().map(|(p, u)| json!({"pos": p, "het": u[0], "len": u.len()})).collect::<Vec<_>>(),
        "shuffled": ex.order != 0, "ert": ex.time_extra.0.is_some(), "slc": ex.time_extra.1.is_some()});
    match util::guarded(|| flute_dec(&bytes, &oti)) {
        Ok(Ok(got)) => {
            if let Some(d) = cmp(&got, &want) {
                out.push(Violation::new("rel3_accept", format!("flute parses an RFC-conformant packet to different values: {}", d))
                    .with("field", first_field(&d)).with("fec", x.fec).with("unknown_hel_ge_64", maxhel >= 64)
                    .witness(json!({"x": x.json(), "extras": feat, "bytes": hex(&bytes)})));
            }
        }
        Ok(Err(e)) => out.push(Violation::new("rel3_accept", format!("flute rejects an RFC-conformant packet: {}", e))
            .with("field", "reject").with("fec", x.fec).with("unknown_hel_ge_64", maxhel >= 64)
            .witness(json!({"x": x.json(), "extras": feat, "bytes": hex(&bytes)}))),
        Err(p) => out.push(Violation::new("dec_panic", format!("flute decoder panicked on an RFC-conformant packet: {} @ {}", p.msg, p.short_loc()))
            .with("site", p.file()).with("fec", x.fec).with("unknown_hel_ge_64", maxhel >= 64)
            .witness(json!({"x": x.json(), "extras": feat, "bytes": hex(&bytes)}))),
    }
}

const FECS: [u8; 5] = [0, 5, 129, 6, 1];

/// values of a width class: smallest value needing `w` bits at 16-bit
/// granularity, largest, and seeded random ones
fn class_values(rng: &mut Rng, w: u32, nrand: usize) -> Vec<u128> {
    let lo: u128 = if w <= 16 { 0 } else { 1u128 << (w - 16) };
    let hi: u128 = if w >= 128 { u128::MAX } else { (1u128 << w) - 1 };
    let mut v = vec![lo, hi, lo / 2 + hi / 2 + 1, hi - 1];
    if w <= 16 {
        v.push(1);
    }
    for _ in 0..nrand {
        let span = hi - lo;
        v.push(lo + rng.u128() % (span + 1));
    }
    v.sort();
    v.dedup();
    v
}

/// draw an in-domain X for scheme `fec`
fn gen_x(rng: &mut Rng, fec: u8, tsi: u64, toi: u128, cci: u128, flags: u32, boundary: bool) -> X {
    // flags: bit0 B, bit1 cenc, bit2 sct, bit3 fti
    let is_fdt = toi == 0;
    let pick_u = |rng: &mut Rng, max: u64, b: bool| -> u64 {
        if b {
            *rng.pick(&[0u64, 1, max / 2, max - 1, max])
        } else {
            rng.below(max + 1)
        }
    };
    let (e, bmax, parity, z, n, al, instance, lmax, sbn_max, esi_max): (u64, u64, u64, u64, u64, u64, u64, u64, u64, u64) = match fec {
        0 => (pick_u(rng, 65535, boundary).max(1), pick_u(rng, u32::MAX as u64, boundary).max(1), 0, 0, 0, 0, 0, (1 << 48) - 1, 65535, 65535),
        5 => {
            let b = pick_u(rng, 254, boundary).max(1);
            (pick_u(rng, 65535, boundary).max(1), b, rng.range(0, 255 - b), 0, 0, 0, 0, (1 << 48) - 1, (1 << 24) - 1, 255)
        }
        129 => {
            let b = pick_u(rng, 65534, boundary).max(1);
            (pick_u(rng, 65535, boundary).max(1), b, rng.range(0, 65535 - b), 0, 0, 0, pick_u(rng, 65535, boundary), (1 << 48) - 1, u32::MAX as u64, 65535)
        }
        6 => {
            let al = *rng.pick(&[1u64, 2, 4, 8]);
            let e = (pick_u(rng, 65535 / al, boundary).max(1)) * al;
            (e, 1, 0, pick_u(rng, 255, boundary).max(1), pick_u(rng, 65535, boundary).max(1), al, 0, (1 << 40) - 1, 255, (1 << 24) - 1)
        }
        _ => {
            let al = *rng.pick(&[1u64, 2, 4, 8]);
            let e = (pick_u(rng, 65535 / al, boundary).max(1)) * al;
            (e, 1, 0, pick_u(rng, 65535, boundary).max(1), pick_u(rng, 255, boundary).max(1), al, 0, (1 << 40) - 1, 65535, 65535)
        }
    };
    let l = if boundary { *rng.pick(&[0u64, 1, 1 << 16, 1 << 32, lmax - 1, lmax, lmax / 2]) } else { rng.next() >> rng.range(24, 63) }.min(lmax);
    let fti_on = is_fdt || flags & 8 != 0;
    let sct_on = flags & 4 != 0;
    let cenc_on = flags & 2 != 0;
    let sct_us = if sct_on {
        // 1970 .. end of NTP era 0 (2036-02-07 06:28:15)
        let max_s: u64 = (1u64 << 32) - 1 - wire::NTP_UNIX_OFFSET;
        Some(if boundary {
            *rng.pick(&[0u64, 1, 999_999, 1_000_000, max_s * 1_000_000, max_s * 1_000_000 + 999_999, 1_704_067_200_123_456])
        } else {
            rng.below(max_s * 1_000_000 + 1_000_000)
        })
    } else {
        None
    };
    let plen = if boundary { *rng.pick(&[0usize, 1, 3, 1400]) } else { rng.below(64) as usize };
    let mut x = X {
        fec,
        tsi,
        toi,
        cci,
        b: flags & 1 != 0,
        fdt: if is_fdt { Some((if rng.chance(1, 4) { 1 } else { 2 }, if boundary { *rng.pick(&[0u32, 1, 0xFFFFF, 0x80000]) } else { rng.below(1 << 20) as u32 })) } else { None },
        cenc: if cenc_on { Some(rng.below(4) as u8) } else { None },
        sct_us,
        fti: None,
        e: e as u16,
        bmax: bmax as u32,
        parity: parity as u32,
        z: z as u32,
        n: n as u32,
        al: al as u32,
        instance: instance as u16,
        l,
        sbn: pick_u(rng, sbn_max, boundary) as u32,
        esi: pick_u(rng, esi_max, boundary) as u32,
        sbl: if fec == 129 { pick_u(rng, 65535, boundary) as u32 } else { 0 },
        payload: rng.bytes(plen),
    };
    // flute: an FDT packet with cenc Null carries no EXT_CENC unless inband_cenc
    if fti_on {
        let o = x.oti();
        x.fti = Some(fti_of_oti(fec, &o, l));
        // NoCode carries no parity, RaptorQ/Raptor no B: normalise the abstract value
        x.fti.as_mut().unwrap().l = l;
    }
    x
}

fn main() {
    let prop = Property {
        id: "C06",
        level: "exploration",
        rule: "field tuples x enumerated over all width classes (CCI 32..128 bit, TSI 16/32/48, TOI 16..112, incl. TOI 0 = FDT) x flags x 5 FEC ids x 2^3 extension subsets with boundary + seeded random values inside each class; every tuple is encoded by flute and decoded by flute and by the independent codec (relations 1,2), and encoded by the independent codec with extras (all admissible S/O/H classes, C, PSI, reserved bits, unknown variable/fixed extensions with HEL up to 255, extension order, ERT/SLC time words, close-session) and decoded by flute (relation 3); a case is one class combination; distinct = class combinations for which at least one tuple went through all applicable relations",
        assumptions: vec![
            "vh::wire (written from the RFC field tables in DESIGN.md appendix A) is the trusted base; it is self-checked on every relation-3 packet".into(),
            "FEC 1 (Raptor) EXT_FTI: position of F/T is flute's layout on both sides (RFC text unavailable offline), see DESIGN.md C06 G".into(),
            "FEC 2 (RS GF(2^m)) is not implemented by flute's sender/receiver; only the other five ids are judged".into(),
            "SCT compared with 1 us tolerance (NTP fraction rounding)".into(),
        ],
        exhaustive: true,
        budget_quick_s: 100,
        budget_thorough_s: 900,
    };
    run_property(prop, |ctx| {
        let mut gens = vec![];
        // ---- relations (1)(2): class enumeration on flute's encoder
        // cci classes 0..3, tsi classes 16/32/48, toi classes: 0(FDT),16..112
        let cci_w = [32u32, 64, 96, 128];
        let tsi_w = [16u32, 32, 48];
        let toi_w = [0u32, 16, 32, 48, 64, 80, 96, 112];
        let ncls = cci_w.len() * tsi_w.len() * toi_w.len() * FECS.len() * 16;
        let nrand = ctx.tier.pick(2usize, 600);
        gens.push(Gen::new("flute_enc_classes", ncls, move |ctx, i| {
            let mut k = i;
            let flags = (k % 16) as u32;
            k /= 16;
            let fec = FECS[k % FECS.len()];
            k /= FECS.len();
            let tw = toi_w[k % toi_w.len()];
            k /= toi_w.len();
            let sw = tsi_w[k % tsi_w.len()];
            k /= tsi_w.len();
            let cw = cci_w[k];
            let mut rng = Rng::keyed(ctx.seed, "C06a", 0, i as u64);
            let mut cr = CaseResult::default();
            let ccis = class_values(&mut rng, cw, 1);
            let tsis = class_values(&mut rng, sw, 1);
            let tois: Vec<u128> = if tw == 0 { vec![0] } else { class_values(&mut rng, tw, 1).into_iter().filter(|v| *v != 0).collect() };
            let mut n = 0u64;
            for (j, &toi) in tois.iter().enumerate() {
                for (jj, &tsi) in tsis.iter().enumerate() {
                    let cci = ccis[(j + jj) % ccis.len()];
                    for r in 0..(1 + nrand) {
                        let x = gen_x(&mut rng, fec, tsi as u64, toi, cci, flags, r == 0);
                        check_flute_enc(&x, &mut cr.violations);
                        n += 1;
                        if cr.sample.is_none() {
                            cr.sample = Some(json!({"x": x.json(), "bytes": hex(&x.flute_enc())}));
                        }
                    }
                }
            }
            cr.count("tuples_rel12", n);
            limit(&mut cr.violations, 3);
            cr.shape = Some(util::fnv(&format!("a|{}|{}|{}|{}|{}", cw, sw, tw, fec, flags)));
            cr.states = vec![util::fnv(&format!("{}|{}|{}", cw, sw, tw))];
            cr
        }));
        // ---- relation (3): reference encoder with extras
        // class enumeration: C x admissible (S,O,H) for representative (tsi,toi) x fec x flags
        let reps: Vec<(u64, u128)> = vec![
            (0, 0), (1, 0), (0xFFFF, 0), (0x1_0000, 0), (0xFFFF_FFFF, 0), (0x1_0000_0000, 0), (0xFFFF_FFFF_FFFF, 0),
            (1, 1), (1, 0xFFFF), (1, 0x1_0000), (0x1_0000, 0xFFFF_FFFF), (1, 0x1_0000_0000), (0xFFFF_FFFF_FFFF, 0xFFFF_FFFF_FFFF),
            (1, 1u128 << 48), (1, (1u128 << 64) - 1), (0x1_0000, 1u128 << 64), (1, (1u128 << 80) - 1), (1, 1u128 << 80),
            (0x1234, (1u128 << 96) - 1), (1, 1u128 << 96), (0xFFFF_FFFF_FFFF, (1u128 << 112) - 1), (0, 5),
        ];
        let mut combos: Vec<(u64, u128, (u8, u8, u8), u8)> = vec![];
        for (tsi, toi) in &reps {
            for cls in wire::classes_for(*tsi, *toi) {
                for c in 0..4u8 {
                    combos.push((*tsi, *toi, cls, c));
                }
            }
        }
        let ncombo = combos.len() * FECS.len() * 8;
        let reps_per = ctx.tier.pick(3usize, 600);
        gens.push(Gen::new("ref_enc_classes", ncombo, move |ctx, i| {
            let mut k = i;
            let flags = ((k % 8) as u32) << 1; // cenc, sct, fti
            k /= 8;
            let fec = FECS[k % FECS.len()];
            k /= FECS.len();
            let (tsi, toi, cls, c) = combos[k];
            let mut rng = Rng::keyed(ctx.seed, "C06b", 0, i as u64);
            let mut cr = CaseResult::default();
            let mut n = 0u64;
            for r in 0..reps_per {
                let cci = match c {
                    0 => rng.next() as u128 & 0xFFFF_FFFF,
                    1 => rng.next() as u128,
                    2 => rng.u128() >> 32,
                    _ => rng.u128(),
                };
                let fl = flags | rng.below(2) as u32;
                let x = gen_x(&mut rng, fec, tsi, toi, cci, fl, r == 0);
                let mut unknown = vec![];
                let nunk = if r == 0 { 0 } else { rng.below(3) };
                for _ in 0..nunk {
                    let pos = rng.below(5) as usize;
                    if rng.chance(1, 3) {
                        let het = *rng.pick(&[128u8, 130, 191, 194, 200, 255]);
                        unknown.push((pos, wire::ext_unknown_fixed(het, rng.next() as u8)));
                    } else {
                        let het = *rng.pick(&[0u8, 1, 3, 4, 10, 63, 65, 100, 127]);
                        // keep the header within HDR_LEN (255 words)
                        let hel = *rng.pick(&[1u8, 2, 3, 4, 8, 16, 32, 63, 64, 65, 100, 128, 200]);
                        unknown.push((pos, wire::ext_unknown_var(het, hel, rng.next() as u8)));
                    }
                }
                // keep total header <= 255 words
                let mut total: usize = 4 + 16 + 8 + 16 + 48;
                unknown.retain(|(_, u)| {
                    total += u.len();
                    total <= 1020
                });
                let ex = Extras {
                    class: cls,
                    c,
                    psi: if r == 0 { 0 } else { rng.below(4) as u8 },
                    res: if r == 0 { 0 } else { rng.below(4) as u8 },
                    version: 1,
                    unknown,
                    order: if r % 2 == 0 { 0 } else { rng.next() | 1 },
                    time_extra: (if rng.chance(1, 3) { Some(rng.next() as u32) } else { None }, if rng.chance(1, 3) { Some(rng.next() as u32) } else { None }),
                    a: rng.chance(1, 4),
                };
                check_ref_enc(&x, &ex, &mut cr.violations);
                n += 1;
                if cr.sample.is_none() && r == 1 {
                    cr.sample = Some(json!({"x": x.json(), "class": format!("{:?}", cls), "C": c, "bytes": hex(&ref_enc(&x, &ex))}));
                }
            }
            cr.count("tuples_rel3", n);
            limit(&mut cr.violations, 3);
            cr.shape = Some(util::fnv(&format!("b|{}|{}|{:?}|{}|{}|{}", tsi, toi, cls, c, fec, flags)));
            cr.states = vec![util::fnv(&format!("{:?}|{}", cls, c))];
            cr
        }));
        // ---- relation (3), directed: every HEL 1..=255 for one unknown variable extension
        gens.push(Gen::new("unknown_hel_sweep", 252 * FECS.len(), move |ctx, i| {
            // 12 header bytes + 4*HEL <= 255 words => HEL <= 252
            let hel = (i % 252) as u8 + 1;
            let fec = FECS[i / 252];
            let mut rng = Rng::keyed(ctx.seed, "C06c", 0, i as u64);
            let mut cr = CaseResult::default();
            // header = 4 + 4 (cci) + 4 (tsi/toi) + ext: leave room for FTI (16) => hel <= 247
            let with_fti = hel <= 236;
            let x = gen_x(&mut rng, fec, 7, 9, 0, if with_fti { 8 } else { 0 }, false);
            for pos in [0usize, 9] {
                let ex = Extras {
                    class: wire::minimal_class(7, 9),
                    c: 0,
                    psi: 0,
                    res: 0,
                    version: 1,
                    unknown: vec![(pos, wire::ext_unknown_var(33, hel, 0x40))],
                    order: 0,
                    time_extra: (None, None),
                    a: false,
                };
                check_ref_enc(&x, &ex, &mut cr.violations);
            }
            cr.count("tuples_rel3", 2);
            limit(&mut cr.violations, 2);
            cr.shape = Some(util::fnv(&format!("c|{}|{}", hel, fec)));
            if hel == 65 {
                cr.sample = Some(json!({"hel": hel, "fec": fec, "x": x.json()}));
            }
            cr
        }));
        // ---- SCT sweep: second boundaries and microsecond grid, relations (1)(2)
        let nsct = ctx.tier.pick(2000usize, 5_000_000);
        gens.push(Gen::new("sct_sweep", nsct / 100, move |ctx, i| {
            let mut rng = Rng::keyed(ctx.seed, "C06d", 0, i as u64);
            let mut cr = CaseResult::default();
            let max_s: u64 = (1u64 << 32) - 1 - wire::NTP_UNIX_OFFSET;
            for j in 0..100u64 {
                let s = if j < 10 { [0, 1, max_s, max_s - 1, 1_000_000_000, 2_085_978_495, 1_704_067_200, 86_399, 86_400, 946_684_800][j as usize] } else { rng.below(max_s + 1) };
                let us = if j % 3 == 0 { *rng.pick(&[0u64, 1, 2, 499_999, 500_000, 999_998, 999_999]) } else { rng.below(1_000_000) };
                let mut x = gen_x(&mut rng, 0, 3, 0, 0, 4, false);
                x.sct_us = Some(s * 1_000_000 + us);
                check_flute_enc(&x, &mut cr.violations);
                let ex = Extras { class: wire::minimal_class(3, 0), c: 0, psi: 0, res: 0, version: 1, unknown: vec![], order: 0, time_extra: (None, None), a: false };
                check_ref_enc(&x, &ex, &mut cr.violations);
            }
            cr.count("sct_values", 100);
            limit(&mut cr.violations, 3);
            cr.shape = Some(util::fnv(&format!("d|{}", i)));
            cr
        }));
        // ---- close-session packet and raw push_lct_header (PSI, A flag)
        gens.push(Gen::new("lct_header_api", 4 * 3 * 7, move |ctx, i| {
            let mut rng = Rng::keyed(ctx.seed, "C06e", 0, i as u64);
            let cw = [32u32, 64, 96, 128][i % 4];
            let sw = [16u32, 32, 48][(i / 4) % 3];
            let tw = [16u32, 32, 48, 64, 80, 96, 112][i / 12];
            let mut cr = CaseResult::default();
            let mut n = 0;
            for cci in class_values(&mut rng, cw, 1) {
                for tsi in class_values(&mut rng, sw, 1) {
                    for toi in class_values(&mut rng, tw, 1) {
                        for flags in 0..16u8 {
                            let psi = flags & 3;
                            let a = flags & 4 != 0;
                            let b = flags & 8 != 0;
                            let mut data = vec![];
                            let r = util::guarded(|| flute::core::lct::push_lct_header(&mut data, psi, &cci, tsi as u64, &toi, 0, b, a));
                            if let Err(p) = r {
                                cr.violations.push(Violation::new("enc_panic", format!("push_lct_header panicked: {}", p.msg)).with("site", p.file()));
                                continue;
                            }
                            n += 1;
                            data.extend_from_slice(&[0, 0, 0, 0]);
                            match wire::decode(&data) {
                                Ok(p) => {
                                    let ok = p.lct.cci == cci && p.lct.tsi == tsi as u64 && p.lct.toi == toi && p.lct.psi == psi
                                        && p.lct.a == a && p.lct.b == b && p.lct.v == 1 && p.lct.res == 0 && p.lct.hdr_end + 4 == data.len();
                                    if !ok {
                                        cr.violations.push(Violation::new("rel2_layout", format!("push_lct_header(cci={},tsi={},toi={},psi={},A={},B={}) decodes to {:?}", cci, tsi, toi, psi, a, b, p.lct))
                                            .with("field", "lct").witness(json!({"bytes": hex(&data)})));
                                    }
                                }
                                Err(e) => cr.violations.push(Violation::new("rel2_layout", format!("push_lct_header output rejected: {}", e)).with("field", "reject").witness(json!({"bytes": hex(&data)}))),
                            }
                        }
                    }
                }
            }
            // close session packet
            let tsi = class_values(&mut rng, sw, 0)[1] as u64;
            let cs = flute::verif::new_alc_pkt_close_session(&0u128, tsi);
            match (wire::decode(&cs), util::guarded(|| parse_alc_pkt(&cs).map(|p| (p.lct.close_session, p.lct.tsi, p.lct.toi)))) {
                (Ok(p), Ok(Ok((a, t, toi)))) => {
                    if !(p.lct.a && !p.lct.b && p.lct.tsi == tsi && a && t == tsi && toi == 0) {
                        cr.violations.push(Violation::new("close_session", "close-session packet does not carry A=1 / TSI").witness(json!({"bytes": hex(&cs)})));
                    }
                }
                (r, f) => cr.violations.push(Violation::new("close_session", format!("close-session packet not decodable: {:?} {:?}", r.err(), f.err().map(|p| p.msg))).witness(json!({"bytes": hex(&cs)}))),
            }
            cr.count("lct_headers", n);
            limit(&mut cr.violations, 3);
            cr.shape = Some(util::fnv(&format!("e|{}|{}|{}", cw, sw, tw)));
            cr
        }));
        // ---- EXT_FDT as a real SENDER emits it over a series of publications: the instance id comes from sender state
        // (start value, +1 per publication, wrap at 2^20), the version from the profile. Every FDT packet is decoded by
        // the independent codec and by flute's parser.
        let starts: Vec<u32> = vec![0, 1, 0xFFFE, 0xFFFF, 0x10000, 0xFFFFC, 0xFFFFD, 0xFFFFE, 0xFFFFF];
        let nst = starts.len();
        gens.push(Gen::new("sender_fdt_ids", nst * 2 * 2, move |_ctx, i| {
            let start = starts[i % nst];
            let rfc3926 = (i / nst) % 2 == 1;
            let full = (i / nst / 2) % 2 == 0;
            let mut cr = CaseResult::default();
            let mut spec = vh::session::SenderSpec::new(vh::session::OtiSpec::new(vh::session::Fec::NoCode, 1400, 8, 0));
            spec.fdt_start_id = start;
            spec.rfc3926 = rfc3926;
            spec.full_fdt = full;
            let want_v: u8 = if rfc3926 { 1 } else { 2 };
            let r = util::guarded(|| {
                let mut sender = spec.sender()?;
                let mut seen: Vec<(u8, u32, Option<(u8, u32)>)> = vec![];
                for k in 0..8u64 {
                    sender.publish(util::at(k * 10)).map_err(|e| format!("publish: {:?}", e))?;
                    for _ in 0..50 {
                        match sender.read(util::at(k * 10)) {
                            None => break,
                            Some(b) => {
                                let d = wire::decode(&b).map_err(|e| format!("undecodable: {}", e))?;
                                if let Some((v, id)) = d.fdt {
                                    let fl = parse_alc_pkt(&b).ok().and_then(|p| p.fdt_info.map(|f| (f.version as u8, f.fdt_instance_id)));
                                    seen.push((v, id, fl));
                                }
                            }
                        }
                    }
                }
                Ok::<_, String>(seen)
            });
            let wit = json!({"fdt_start_id": start, "rfc3926": rfc3926, "full_fdt": full});
            match r {
                Ok(Ok(seen)) => {
                    let mut ids: Vec<u32> = vec![];
                    for (v, id, fl) in &seen {
                        if *v != want_v {
                            cr.violations.push(Violation::new("ext_fdt_version", format!("sender with fdt_start_id {:#x} ({} profile): an FDT packet carries EXT_FDT version {} (instance id {:#x}), {} expected", start, if rfc3926 { "RFC 3926" } else { "RFC 6726" }, v, id, want_v))
                                .with("field", "fdt").with("after_wrap", *id < start).witness(wit.clone()));
                            break;
                        }
                        if *fl != Some((*v, *id)) {
                            cr.violations.push(Violation::new("rel1_roundtrip", format!("EXT_FDT on the wire is (V={}, id={:#x}), flute's parser reports {:?}", v, id, fl)).with("field", "fdt").with("fec", 0u64).witness(wit.clone()));
                            break;
                        }
                        if ids.last() != Some(id) {
                            ids.push(*id);
                        }
                    }
                    for (k, id) in ids.iter().enumerate() {
                        let want = ((start as u64 + k as u64) % (1 << 20)) as u32;
                        if *id != want {
                            cr.violations.push(Violation::new("ext_fdt_id_sequence", format!("sender with fdt_start_id {:#x}: instance ids on the wire {:x?}, the {}-th should be {:#x}", start, ids, k, want)).with("field", "fdt").witness(wit.clone()));
                            break;
                        }
                    }
                    cr.count("sender_fdt_packets", seen.len() as u64);
                    if seen.len() >= 8 {
                        cr.shape = Some(util::fnv(&format!("sfdt|{}|{}|{}", start, rfc3926, full)));
                    }
                    cr.sample = Some(json!({"fdt_start_id": start, "rfc3926": rfc3926, "ids_on_the_wire": ids}));
                }
                Ok(Err(e)) => cr.inconclusive = Some(e),
                Err(p) => cr.violations.push(Violation::new("panic", format!("{} @ {}", p.msg, p.short_loc())).with("site", p.file())),
            }
            cr
        }));
        gens
    });
}
