use vh::session::*;
use vh::scenario::*;
use vh::util::*;
fn main() {
    install_quiet_panic_hook();
    let mut spec = SenderSpec::new(OtiSpec::new(Fec::NoCode, 4096, 8, 0));
    spec.full_fdt = false;
    spec.fdt_start_id = 0;
    let o = ObjSpec::new(vec![1u8; 100], "file:///a");
    let script = vec![(When::Start, Op::Add(0)), (When::Start, Op::Publish)];
    let run = run_script(&spec, &[o], &script, &ScriptOpts::every(100, 20)).unwrap();
    println!("{:?}", run.summary(20));
    println!("{:?}", run.sub_events);
    for p in run.stream.iter().filter(|p| p.toi()==0) { let x = String::from_utf8_lossy(p.payload()).to_string(); println!("fdt#{:?} lists_toi1={} len={}", p.dec.fdt, x.contains("TOI=\"1\""), x.len()); }
}
