//! C10 - FDT instances list exactly the announced objects, survive XML
//! (independent parser + XSD), carry the next instance id modulo 2^20 and
//! Expires = publish time + FDT duration; an instance is superseded before it
//! expires as long as the sender is polled.
use serde_json::{json, Map, Value};
use std::collections::{BTreeMap, BTreeSet};
use std::sync::{Arc, Mutex};
use std::time::{Duration, SystemTime};
use vh::gen::{self, hostile_strings};
use vh::report::*;
use vh::scenario::*;
use vh::session::*;
use vh::util::{self, Rng};
use vh::wire::NTP_UNIX_OFFSET;

#[derive(Clone, Debug)]
struct Inst {
    id: u32,
    first_idx: usize,
    t_first: SystemTime,
    /// time of the packet that completed the first full emission (all source symbols seen)
    t_complete: Option<SystemTime>,
    bytes: Option<Vec<u8>>,
    xml: Option<String>,
    copies_differ: bool,
}

fn instances(run: &ScriptRun) -> Vec<Inst> {
    let oti = &run.spec.oti;
    let mut order: Vec<u32> = vec![];
    let mut per: BTreeMap<u32, Vec<usize>> = BTreeMap::new();
    for (k, p) in run.stream.iter().enumerate() {
        if p.toi() == 0 {
            if let Some((_, id)) = p.dec.fdt {
                if !per.contains_key(&id) {
                    order.push(id);
                }
                per.entry(id).or_default().push(k);
            }
        }
    }
    let mut out = vec![];
    for id in order {
        let idx = &per[&id];
        let first = idx[0];
        let tl = run.stream[first].dec.fti.as_ref().map(|f| f.l).unwrap_or(0);
        let part = ref_partition(oti.b as u128, tl as u128, oti.e as u128);
        let mut have: BTreeMap<(u32, u32), usize> = BTreeMap::new();
        let mut t_complete = None;
        let mut copies_differ = false;
        let need: usize = part.t as usize;
        for k in idx {
            let p = &run.stream[*k];
            let key = (p.dec.sbn, p.dec.esi);
            if (p.dec.sbn as u128) < part.n && (p.dec.esi as u128) < part.k(p.dec.sbn as u128) {
                match have.get(&key) {
                    Some(prev) => {
                        if run.stream[*prev].payload() != p.payload() {
                            copies_differ = true;
                        }
                    }
                    None => {
                        have.insert(key, *k);
                        if have.len() == need && t_complete.is_none() {
                            t_complete = Some(p.t);
                        }
                    }
                }
            }
        }
        let mut bytes = None;
        if have.len() == need {
            let mut b: Vec<u8> = vec![];
            for (_, k) in &have {
                b.extend_from_slice(run.stream[*k].payload());
            }
            b.truncate(tl as usize);
            if b.len() == tl as usize {
                bytes = Some(b);
            }
        }
        let xml = bytes.as_ref().and_then(|b| inflate(run.spec.fdt_cenc, b).ok()).and_then(|p| String::from_utf8(p).ok());
        out.push(Inst { id, first_idx: first, t_first: run.stream[first].t, t_complete, bytes, xml, copies_differ });
    }
    out
}

fn ntp_sec(t: SystemTime) -> u64 {
    t.duration_since(SystemTime::UNIX_EPOCH).unwrap().as_secs() + NTP_UNIX_OFFSET
}

/// model timeline: (time, listed set in FullFDT mode, set in transmission)
fn timeline(run: &ScriptRun) -> Vec<(SystemTime, BTreeSet<u128>, BTreeSet<u128>)> {
    #[derive(Clone)]
    enum Ev {
        Op(usize),
        Sub(usize),
    }
    // order: virtual time first (a Stop seen at the end of an earlier instant precedes the
    // operations of a later instant at the same packet index); inside one instant and one packet
    // index the driver executes operations before the read that raises subscriber events
    let mut evs: Vec<(SystemTime, usize, u8, usize, Ev)> = vec![];
    for (k, o) in run.ops.iter().enumerate() {
        evs.push((o.t, o.pkt_index, 0, k, Ev::Op(k)));
    }
    for (k, (i, e)) in run.sub_events.iter().enumerate() {
        let t = match e {
            SubEv::Start(_, t) | SubEv::Stop(_, t) => *t,
        };
        evs.push((t, *i, 1, k, Ev::Sub(k)));
    }
    evs.sort_by_key(|e| (e.0, e.1, e.2, e.3));
    let mut listed: BTreeSet<u128> = BTreeSet::new();
    let mut tx: BTreeSet<u128> = BTreeSet::new();
    let mut done: BTreeMap<u128, u32> = BTreeMap::new();
    let mut out = vec![(util::t0(), listed.clone(), tx.clone())];
    for (_, _, _, _, e) in evs {
        match e {
            Ev::Op(k) => {
                let o = &run.ops[k];
                match &o.op {
                    Op::Add(i) | Op::AddWithHandle(i) if o.ok => {
                        if let Some(t) = o.note.strip_prefix("toi=").and_then(|s| s.parse::<u128>().ok()) {
                            listed.insert(t);
                            let _ = i;
                        }
                    }
                    Op::Remove(i) if o.ok => {
                        if let Some(t) = run.tois[*i] {
                            listed.remove(&t);
                        }
                    }
                    _ => {}
                }
                out.push((o.t, listed.clone(), tx.clone()));
            }
            Ev::Sub(k) => {
                let (_, se) = &run.sub_events[k];
                match se {
                    SubEv::Start(t, at) => {
                        tx.insert(*t);
                        out.push((*at, listed.clone(), tx.clone()));
                    }
                    SubEv::Stop(t, at) => {
                        tx.remove(t);
                        let n = done.entry(*t).or_insert(0);
                        *n += 1;
                        if let Some(i) = run.tois.iter().position(|x| *x == Some(*t)) {
                            if run.objs[i].carousel.is_none() && *n >= run.objs[i].max_transfer_count {
                                listed.remove(t);
                            }
                        }
                        out.push((*at, listed.clone(), tx.clone()));
                    }
                }
            }
        }
    }
    out
}

fn scheme_b64(oti: &OtiSpec, tl: u64) -> Option<String> {
    use base64::Engine;
    let p = ref_partition(oti.b as u128, tl as u128, oti.e as u128);
    let z = (p.n as u64).max(1);
    match oti.fec {
        Fec::RaptorQ => Some(base64::engine::general_purpose::STANDARD.encode([z as u8, (oti.n.max(1) >> 8) as u8, oti.n.max(1) as u8, oti.al])),
        Fec::Raptor => Some(base64::engine::general_purpose::STANDARD.encode([(z >> 8) as u8, z as u8, 1, oti.al])),
        _ => None,
    }
}

fn file_expect(run: &ScriptRun, i: usize, publish_window: (SystemTime, SystemTime), pub_sec: Option<u64>) -> Value {
    let o = &run.objs[i];
    let oti = run.oti_of(i);
    let tl = run.transfer_len[i].unwrap_or(0);
    let mut m = Map::new();
    m.insert("Content-Location".into(), json!(url::Url::parse(&o.location).map(|u| u.as_str().to_string()).unwrap_or_default()));
    m.insert("Content-Length".into(), json!(o.data.len().to_string()));
    m.insert("Transfer-Length".into(), json!(tl.to_string()));
    m.insert("Content-Type".into(), json!(o.content_type));
    m.insert("Content-Encoding".into(), if o.cenc == CencSpec::Null { Value::Null } else { json!(o.cenc.name()) });
    m.insert("Content-MD5".into(), if o.md5 { json!(md5_b64(&o.data)) } else { Value::Null });
    m.insert("File-ETag".into(), o.e_tag.clone().map(|s| json!(s)).unwrap_or(Value::Null));
    m.insert("groups".into(), json!(o.groups.clone().unwrap_or_default()));
    let cache = match o.cache {
        None => json!({"kind": "none"}),
        Some(CacheSpec::NoCache) => json!({"kind": "no-cache"}),
        Some(CacheSpec::MaxStale) => json!({"kind": "max-stale"}),
        // relative directive: counted from the publication of THIS instance (its Expires attribute minus the FDT
        // duration gives the publication second), not from any earlier one
        Some(CacheSpec::ExpiresSecs(s)) => match pub_sec {
            Some(ps) => json!({"kind": "expires", "min": ps + s - 1, "max": ps + s + 1}),
            None => json!({"kind": "expires", "min": ntp_sec(publish_window.0) + s - 1, "max": ntp_sec(publish_window.1) + s + 1}),
        },
        Some(CacheSpec::ExpiresAtSecs(s)) => {
            let t = ntp_sec(util::t0() + Duration::from_secs(s));
            json!({"kind": "expires", "min": t - 1, "max": t + 1})
        }
    };
    m.insert("cache".into(), cache);
    let mut ot = Map::new();
    ot.insert("FEC-OTI-FEC-Encoding-ID".into(), json!(oti.fec.id().to_string()));
    ot.insert("FEC-OTI-Maximum-Source-Block-Length".into(), json!(oti.b.to_string()));
    ot.insert("FEC-OTI-Encoding-Symbol-Length".into(), json!(oti.e.to_string()));
    ot.insert("FEC-OTI-Max-Number-of-Encoding-Symbols".into(), json!((oti.b + oti.parity).to_string()));
    match scheme_b64(oti, tl) {
        Some(s) => {
            ot.insert("FEC-OTI-Scheme-Specific-Info".into(), json!(s));
        }
        None => {
            // not applicable to the scheme: an inherited instance-level value is harmless
            ot.insert("FEC-OTI-Scheme-Specific-Info".into(), json!("*"));
        }
    }
    m.insert("oti".into(), Value::Object(ot));
    Value::Object(m)
}

struct Item {
    id: String,
    xml: String,
    expect: Value,
    gen: &'static str,
    case: usize,
}

/// Structural checks done in Rust + expectation items for the Python/expat/XSD stage.
fn judge_run(run: &ScriptRun, gname: &'static str, case: usize, items: &Mutex<Vec<Item>>, cr: &mut CaseResult) {
    let insts = instances(run);
    let tl = timeline(run);
    let dur = run.spec.fdt_duration_s;
    if std::env::var_os("VERIF_C10_DEBUG").is_some() {
        eprintln!("ops: {:?}", run.ops.iter().map(|o| format!("{:?}@{} t={} ok={} {}", o.op, o.pkt_index, util::since_t0_us(o.t) / 1000, o.ok, o.note.chars().take(60).collect::<String>())).collect::<Vec<_>>());
        eprintln!("spec: {}", run.spec.json());
        eprintln!("sub: {:?}", run.sub_events.iter().map(|(i, e)| format!("{}:{:?}", i, match e { SubEv::Start(t, at) => format!("Start({})@{}", t, util::since_t0_us(*at) / 1000), SubEv::Stop(t, at) => format!("Stop({})@{}", t, util::since_t0_us(*at) / 1000) })).collect::<Vec<_>>());
        for i in &insts {
            let l: Vec<&str> = i.xml.as_deref().unwrap_or("").split("TOI=\"").skip(1).map(|s| s.split('"').next().unwrap_or("")).collect();
            eprintln!("inst {} first_idx {} t={} lists {:?} xml_len={} npk={}", i.id, i.first_idx, util::since_t0_us(i.t_first) / 1000, l, i.xml.as_ref().map(|x| x.len()).unwrap_or(0), run.stream.iter().filter(|p| p.dec.fdt.map(|f| f.1) == Some(i.id)).count());
        }
        eprintln!("stream: {:?}", run.summary(60));
    }
    let wit = |extra: Value| json!({"run": run.json(), "detail": extra});
    let mode = if run.spec.full_fdt { "full" } else { "obt" };
    // ids: consecutive modulo 2^20 from fdt_start_id, same id => same bytes
    for (k, inst) in insts.iter().enumerate() {
        let want = (run.spec.fdt_start_id as u64 + k as u64) % (1 << 20);
        if inst.id as u64 != want {
            cr.violations.push(Violation::new("instance_id", format!("{}-th FDT instance on the wire has id {}, expected {} (start {})", k, inst.id, want, run.spec.fdt_start_id))
                .with("mode", mode).with("wrap", want < run.spec.fdt_start_id as u64).witness(wit(json!({"ids": insts.iter().map(|i| i.id).collect::<Vec<_>>()}))));
            break;
        }
        if inst.copies_differ {
            cr.violations.push(Violation::new("id_reused", format!("FDT instance id {} carries two different contents", inst.id)).with("mode", mode).witness(wit(json!(null))));
        }
    }
    let poll_secs: Vec<u64> = run.instants.iter().map(|ms| ntp_sec(util::at(*ms))).collect();
    let mut prev_pub = 0u64;
    let mut local_items = vec![];
    for inst in &insts {
        let xml = match &inst.xml {
            Some(x) => x.clone(),
            None => {
                if inst.bytes.is_some() {
                    cr.violations.push(Violation::new("not_utf8_or_inflate", format!("FDT instance {} does not inflate / is not UTF-8", inst.id)).with("mode", mode).witness(wit(json!(null))));
                }
                continue; // incomplete emission at the end of the run
            }
        };
        // Expires candidates: a poll instant not later than the first emission
        let cands: Vec<String> = run.instants.iter().zip(poll_secs.iter())
            .filter(|(ms, s)| util::at(**ms) <= inst.t_first && **s >= prev_pub)
            .map(|(_, s)| (s + dur).to_string()).collect::<BTreeSet<_>>().into_iter().collect();
        // admissible listings at the publish second (decoded from Expires by the Python side is
        // not possible, so: all model sets in force during any candidate second)
        let exp_attr = xml.split("Expires=\"").nth(1).and_then(|s| s.split('"').next()).and_then(|s| s.parse::<u64>().ok());
        let pub_sec = exp_attr.map(|e| e.saturating_sub(dur));
        let mut alts: BTreeSet<Vec<String>> = BTreeSet::new();
        if let Some(ps) = pub_sec {
            prev_pub = ps;
            let mut last_before: Option<&(SystemTime, BTreeSet<u128>, BTreeSet<u128>)> = None;
            for e in &tl {
                let s = ntp_sec(e.0);
                if s < ps {
                    last_before = Some(e);
                }
                if s == ps && e.0 <= inst.t_first {
                    let set = if run.spec.full_fdt { &e.1 } else { &e.2 };
                    alts.insert(set.iter().map(|t| t.to_string()).collect());
                }
            }
            if let Some(e) = last_before {
                let set = if run.spec.full_fdt { &e.1 } else { &e.2 };
                alts.insert(set.iter().map(|t| t.to_string()).collect());
            }
        }
        let first_pub = util::at(*run.instants.first().unwrap_or(&0));
        let mut files = Map::new();
        for (i, t) in run.tois.iter().enumerate() {
            if let Some(t) = t {
                files.insert(t.to_string(), file_expect(run, i, (first_pub, inst.t_first), pub_sec));
            }
        }
        let complete_set = run.ops.iter().any(|o| o.op == Op::SetComplete && o.t <= inst.t_first);
        let mut expect = json!({
            "expires_any": cands,
            "full_fdt": run.spec.full_fdt,
            "groups": run.spec.groups.clone().unwrap_or_default(),
            "files": files,
            "listing_alternatives": alts.into_iter().collect::<Vec<_>>(),
        });
        // Complete attribute: set_complete before the publish second => must be present; never before
        if !complete_set {
            expect["complete"] = json!(false);
        }
        local_items.push(Item { id: format!("{}:{}:{}", gname, case, inst.id), xml, expect, gen: gname, case });
    }
    cr.count("fdt_instances", insts.len() as u64);
    cr.count("fdt_packets", run.stream.iter().filter(|p| p.toi() == 0).count() as u64);
    if !local_items.is_empty() {
        cr.shape = Some(util::fnv(&format!("{}|{}|{}|{}|{}|{}", gname, mode, run.objs.len(), insts.len().min(8), run.spec.fdt_cenc.name(), run.spec.oti.fec.name())));
        cr.states.push(util::fnv(&format!("{}|{}", mode, insts.len().min(12))));
    }
    if cr.sample.is_none() {
        if let Some(it) = local_items.first() {
            cr.sample = Some(json!({"sender": run.spec.json(), "ops": run.ops.iter().map(|o| format!("{:?}", o.op)).collect::<Vec<_>>(),
                "instance_ids": insts.iter().map(|i| i.id).collect::<Vec<_>>(), "first_xml": it.xml.chars().take(700).collect::<String>()}));
        }
    }
    // receiver side: fdt_received carries the same XML
    let rx = util::guarded(|| {
        receive(&run.spec.endpoint(), run.stream.iter().map(|p| (p.bytes.as_slice(), p.t)), &RxOpts::default(), None)
    });
    match rx {
        Ok(rx) => {
            for f in &rx.log.fdts {
                if !insts.iter().any(|i| i.xml.as_deref() == Some(f.xml.as_str())) {
                    cr.violations.push(Violation::new("receiver_xml", "fdt_received delivered an XML document that is not byte-identical to any emitted instance".to_string())
                        .with("mode", mode).witness(wit(json!({"received": f.xml.chars().take(400).collect::<String>()}))));
                }
            }
            cr.count("fdt_received_callbacks", rx.log.fdts.len() as u64);
            // ... and the metadata flute's receiver hands to new_object_writer are the values the sender was given
            // (groups = FDT-Instance level groups followed by the File level ones); attribute values containing raw
            // tab / newline / CR are left to the XML-side comparison (attribute-value normalisation, known finding)
            let mut n_meta = 0u64;
            for w in &rx.log.writers {
                let i = match run.tois.iter().position(|t| *t == Some(w.toi)) {
                    Some(i) => i,
                    None => continue,
                };
                let obj = &run.objs[i];
                n_meta += 1;
                let raw_ws = |s: &Option<String>| s.as_ref().map(|x| x.contains(|c| c == '\t' || c == '\n' || c == '\r')).unwrap_or(false);
                for (field, msg) in vh::oracle::check_meta(w, obj, &run.spec, run.transfer_len[i].unwrap_or(0), util::at(0), util::at(0)) {
                    let judged = match field.as_str() {
                        "groups" | "content_location" | "content_length" | "transfer_length" | "md5" | "cenc" => true,
                        "content_type" => !raw_ws(&Some(obj.content_type.clone())),
                        "e_tag" => !raw_ws(&obj.e_tag),
                        _ => false,
                    };
                    if judged {
                        cr.violations.push(Violation::new("receiver_metadata", format!("new_object_writer metadata of TOI {}: field {}: {}", w.toi, field, msg))
                            .with("mode", mode).with("field", field.clone()).witness(wit(json!({"object": obj.json()}))));
                    }
                }
            }
            cr.count("receiver_metadata_compared", n_meta);
            // ... and every object the instances list is found there by flute's receiver: the whole stream was pushed
            // in emission order, so an object with a packet on the wire was announced before it and new_object_writer
            // has been called for its TOI (whatever the width of the TOI)
            let mut n_listed = 0u64;
            for (i, t) in run.tois.iter().enumerate() {
                let t = match t {
                    Some(t) => *t,
                    None => continue,
                };
                let needle = format!("TOI=\"{}\"", t);
                let first_pkt = match run.stream.iter().position(|p| p.toi() == t) {
                    Some(k) => k,
                    None => continue,
                };
                // listed by an instance flute's receiver received (fdt_received) that was complete on the wire before the first packet
                let listed = insts.iter().any(|inst| inst.t_complete.is_some() && inst.xml.as_deref().map(|x| x.contains(&needle)).unwrap_or(false)
                    && rx.log.fdts.iter().any(|f| Some(f.xml.as_str()) == inst.xml.as_deref())
                    && run.stream[..first_pkt].iter().filter(|p| p.toi() == 0 && p.dec.fdt.map(|f| f.1) == Some(inst.id)).count() > 0
                    && inst.t_complete.map(|tc| tc <= run.stream[first_pkt].t).unwrap_or(false));
                if !listed {
                    continue;
                }
                n_listed += 1;
                if !rx.log.writers.iter().any(|w| w.toi == t) {
                    cr.violations.push(Violation::new("receiver_listing", format!("TOI {} is listed by an FDT instance flute's receiver received before the object, yet the receiver never found its File entry (no new_object_writer call)", t))
                        .with("mode", mode).with("toi_ge_2_64", t >= (1u128 << 64)).with("toi_bits", run.spec.toi_bits).witness(wit(json!({"object": run.objs[i].json(), "toi": t.to_string()}))));
                }
            }
            cr.count("receiver_listed_objects_looked_up", n_listed);
        }
        Err(p) => cr.violations.push(Violation::new("panic", format!("receiver panicked: {} @ {}", p.msg, p.short_loc())).with("site", p.file()).witness(wit(json!(null)))),
    }
    // the expat / XSD stage works on a bounded set of documents (memory: a thorough run emits millions of instances;
    // every instance is judged structurally above): everything up to 120 000 documents, one in sixteen beyond, 300 000 at most
    let mut g = items.lock().unwrap();
    for it in local_items {
        if g.len() < 120_000 || (g.len() < 300_000 && util::fnv(&it.id) % 16 == 0) {
            g.push(it);
        } else {
            cr.count("xml_documents_not_sent_to_expat_stage", 1);
        }
    }
}

fn hostile_meta(rng: &mut Rng, o: &mut ObjSpec, k: usize) {
    let hs = hostile_strings();
    let long: String = "L".repeat(2048);
    let pick = |rng: &mut Rng| -> String {
        if rng.chance(1, 12) {
            long.clone()
        } else {
            rng.pick(&hs).to_string()
        }
    };
    o.content_type = format!("t/{}", pick(rng));
    o.e_tag = if rng.chance(2, 3) { Some(pick(rng)) } else { None };
    o.groups = if rng.chance(1, 2) { Some(vec![pick(rng), format!("g{}", k)]) } else { None };
    let seg = match rng.below(6) {
        0 => "a b".to_string(),
        1 => "q?x=1&y=<2>".to_string(),
        2 => "caf\u{e9}/\u{4e2d}".to_string(),
        3 => "%41%2F%25".to_string(),
        4 => "quote\"apos'".to_string(),
        _ => format!("plain{}", k),
    };
    o.location = format!("{}/o{}/{}", *rng.pick(&["file://", "http://example.org", "https://h:8080/p"]), k, seg);
}

fn main() {
    let prop = Property {
        id: "C10",
        level: "exploration",
        rule: "random operation scripts (add / publish / remove / set_complete over 1..8 objects with hostile metadata strings, per-object OTI overrides for all schemes, every cache-control variant, session and object groups, FDT cenc, both publish modes, fdt_start_id incl. just below the 2^20 wrap, durations 2 s..3 d, virtual time across several expiry periods) are run on the real sender; every emitted FDT instance is reassembled by the independent decoder and judged: ids consecutive mod 2^20, one content per id, Expires = publish second + duration, listing = model set (built from the operation log and Start/Stop events) in force at the publish second, every attribute equal to what the sender was given after parsing with expat (pychk/fdt_check.py), XSD validation with xmllint, fdt_received XML identical; supersession is judged on dedicated expiry workloads polled every 50 ms; a case is one script, non-trivial when at least one complete instance was observed; distinct = discretised script shape; receiver_listing: every object listed by an instance flute's receiver got before the object's first packet is found by it (new_object_writer called), TOIs up to 112 bits; failed_publish: refused publications (instance larger than the session OTI can carry, Raptor block of 2-3 symbols) between accepted ones take no instance id",
        assumptions: vec![
            "order of File elements is free".into(),
            "an FDT instance without any File element (empty listing) is schema-invalid by construction of the RFC 6726 schema; XSD validity is only judged for instances listing at least one file (well-formedness and all other checks still apply)".into(),
            "when several model sets were in force during the publish second, any of them is an admissible listing".into(),
            "supersession is only judged for drain polling with period <= 100 ms and no explicit publish interfering".into(),
            "trusted: expat (python xml.etree), xmllint + the repository's XSD, independent wire decoder".into(),
        ],
        exhaustive: false,
        budget_quick_s: 150,
        budget_thorough_s: 1500,
    };
    let items: Arc<Mutex<Vec<Item>>> = Arc::new(Mutex::new(vec![]));
    run_property(prop, move |ctx| {
        let mut gens = vec![];
        let n_scripts = ctx.tier.pick(2500usize, 60_000);
        let it = items.clone();
        gens.push(Gen::new("op_scripts", n_scripts, move |ctx, i| {
            let mut rng = Rng::keyed(ctx.seed, "C10a", 0, i as u64);
            let o = gen::GenOpts { max_objects: 8, max_symbols: 12, sources: false, realistic_every: 0, ..Default::default() };
            let (mut spec, mut objs) = gen::gen_session(&mut rng, &o);
            spec.fdt_start_id = *rng.pick(&[0u32, 1, 5, (1 << 20) - 3, (1 << 20) - 2, (1 << 20) - 1, 524288]);
            if rng.chance(1, 3) {
                spec.fdt_start_id = rng.below(1 << 20) as u32;
            }
            spec.fdt_duration_s = *rng.pick(&[1u64, 2, 5, 10, 11, 30, 31, 3600, 259_200]);
            spec.fdt_carousel = CarouselSpec::DelayMs(*rng.pick(&[200u64, 1000, 5000]));
            for (k, ob) in objs.iter_mut().enumerate() {
                hostile_meta(&mut rng, ob, k);
                if rng.chance(1, 4) {
                    ob.carousel = Some(CarouselSpec::DelayMs(*rng.pick(&[100u64, 700])));
                }
            }
            // script: adds spread over time, publishes, removals, set_complete
            let horizon_ms: u64 = *rng.pick(&[3_000u64, 8_000, 25_000, 70_000]);
            let step: u64 = *rng.pick(&[50u64, 100, 250]);
            let mut script: Vec<(When, Op)> = vec![];
            let mut t = 0u64;
            let mut added: Vec<usize> = vec![];
            for k in 0..objs.len() {
                if k > 0 && rng.chance(1, 2) {
                    t += rng.range(0, horizon_ms / 4);
                }
                script.push((if t == 0 { When::Start } else { When::TimeMs(t) }, Op::Add(k)));
                added.push(k);
                if rng.chance(2, 3) {
                    script.push((if t == 0 { When::Start } else { When::TimeMs(t) }, Op::Publish));
                }
                if rng.chance(1, 5) && !added.is_empty() {
                    let r = *rng.pick(&added);
                    let tt = t + rng.range(0, horizon_ms / 4);
                    script.push((When::TimeMs(tt), Op::Remove(r)));
                    script.push((When::TimeMs(tt), Op::Publish));
                    t = tt;
                }
            }
            if rng.chance(1, 2) {
                script.push((When::TimeMs(t), Op::Publish));
            }
            if rng.chance(1, 6) {
                script.push((When::TimeMs(t + 10), Op::SetComplete));
                script.push((When::TimeMs(t + 10), Op::Publish));
            }
            // keep When times non decreasing (run_script executes in script order)
            let mut last = 0u64;
            for s in script.iter_mut() {
                if let When::TimeMs(x) = &mut s.0 {
                    if *x < last {
                        *x = last;
                    }
                    last = *x;
                }
            }
            let mut opts = ScriptOpts::every(step, (horizon_ms / step) as usize);
            opts.stop_when_empty = false;
            opts.max_packets = 6000;
            let mut cr = CaseResult::default();
            match util::guarded(|| run_script(&spec, &objs, &script, &opts)) {
                Ok(Ok(run)) => judge_run(&run, "op_scripts", i, &it, &mut cr),
                Ok(Err(e)) => {
                    if !e.starts_with("publish") {
                        cr.inconclusive = Some(e);
                    }
                }
                Err(p) => cr.violations.push(Violation::new(if p.is_step_budget() { "hang" } else { "panic" }, format!("{} @ {}", p.msg, p.short_loc())).with("site", if p.is_step_budget() { p.step_site() } else { p.file() })
                    .witness(json!({"sender": spec.json(), "objects": objs.iter().map(|o| o.json()).collect::<Vec<_>>(), "script": format!("{:?}", script)}))),
            }
            limit(&mut cr.violations, 4);
            cr
        }));
        // ---- wrap: many publications from just below 2^20
        let it = items.clone();
        gens.push(Gen::new("id_wrap", 24, move |ctx, i| {
            let mut rng = Rng::keyed(ctx.seed, "C10w", 0, i as u64);
            let mut spec = SenderSpec::new(OtiSpec::new(Fec::NoCode, 4096, 8, 0));
            spec.fdt_start_id = (1 << 20) - 1 - (i as u32 % 6);
            spec.full_fdt = i % 2 == 0;
            spec.fdt_carousel = CarouselSpec::DelayMs(100);
            let npub = 8 + i % 5;
            let mut objs = vec![];
            let mut script = vec![];
            for k in 0..npub {
                let mut o = ObjSpec::new(rng.bytes(10 + k), &format!("file:///w/{}", k));
                o.max_transfer_count = 1;
                objs.push(o);
                let w = if k == 0 { When::Start } else { When::TimeMs(k as u64 * 400) };
                script.push((w.clone(), Op::Add(k)));
                script.push((w, Op::Publish));
            }
            let mut opts = ScriptOpts::every(100, 60);
            opts.stop_when_empty = false;
            let mut cr = CaseResult::default();
            match util::guarded(|| run_script(&spec, &objs, &script, &opts)) {
                Ok(Ok(run)) => {
                    judge_run(&run, "id_wrap", i, &it, &mut cr);
                    let ids: Vec<u32> = instances(&run).iter().map(|x| x.id).collect();
                    if !ids.iter().any(|x| *x < 8) || !ids.iter().any(|x| *x > (1 << 20) - 8) {
                        cr.inconclusive = Some(format!("wrap not crossed: ids {:?}", ids));
                    }
                    cr.sample = Some(json!({"fdt_start_id": spec.fdt_start_id, "instance_ids": ids}));
                }
                Ok(Err(e)) => cr.inconclusive = Some(e),
                Err(p) => cr.violations.push(Violation::new("panic", format!("{} @ {}", p.msg, p.short_loc())).with("site", p.file())),
            }
            cr
        }));
        // ---- publications that FAIL (the instance does not fit what the session OTI can carry: Reed-Solomon with 255
        // blocks of one 16-byte symbol; or it would be a Raptor block of 2-3 symbols, which flute refuses) between
        // publications that succeed: a failed publication emits nothing and takes no instance id
        let it = items.clone();
        gens.push(Gen::new("failed_publish", ctx.tier.pick(48usize, 2000), move |ctx, i| {
            let mut rng = Rng::keyed(ctx.seed, "C10f", 0, i as u64);
            let mut oti = if i % 3 == 1 { OtiSpec::new(Fec::Raptor, 700, 16, 2) } else { OtiSpec::new(Fec::Rs28, 16, 1, 1) };
            oti.inband_fti = true;
            let mut spec = SenderSpec::new(oti);
            spec.fdt_start_id = *rng.pick(&[0u32, 5, 100, (1 << 20) - 3]);
            spec.full_fdt = i % 2 == 0;
            spec.fdt_carousel = CarouselSpec::DelayMs(150);
            spec.queues = vec![(0, rng.range(1, 4) as u32)];
            let nobj = 14usize;
            let mut objs = vec![];
            for k in 0..nobj {
                let mut o = ObjSpec::new(rng.bytes(20 + k), &format!("file:///failed-publish/{}/{}", "d".repeat(rng.range(1, 160) as usize), k));
                o.oti = Some(OtiSpec::new(Fec::NoCode, 64, 4, 0));
                if spec.full_fdt {
                    o.carousel = Some(CarouselSpec::DelayMs(200));
                } else {
                    o.max_transfer_count = rng.range(1, 3) as u32;
                }
                objs.push(o);
            }
            // random walk on the number of listed objects: additions and removals every 300 ms, each followed by publish
            let mut script = vec![(When::Start, Op::Add(0)), (When::Start, Op::Publish)];
            let mut next = 1usize;
            let mut live: Vec<usize> = vec![0];
            for step in 1..10u64 {
                let w = When::TimeMs(step * 300);
                let grow = live.len() < 2 || (next < nobj && rng.chance(3, 5));
                if grow && next < nobj {
                    for _ in 0..rng.range(1, 4) {
                        if next < nobj {
                            script.push((w.clone(), Op::Add(next)));
                            live.push(next);
                            next += 1;
                        }
                    }
                } else if spec.full_fdt {
                    for _ in 0..rng.range(1, 4) {
                        if live.len() > 1 {
                            let k = live.remove(rng.below(live.len() as u64) as usize);
                            script.push((w.clone(), Op::Remove(k)));
                        }
                    }
                }
                script.push((w, Op::Publish));
            }
            let mut opts = ScriptOpts::every(100, 45);
            opts.stop_when_empty = false;
            let mut cr = CaseResult::default();
            match util::guarded(|| run_script(&spec, &objs, &script, &opts)) {
                Ok(Ok(run)) => {
                    judge_run(&run, "failed_publish", i, &it, &mut cr);
                    let pubs: Vec<bool> = run.ops.iter().filter(|o| o.op == Op::Publish).map(|o| o.ok).collect();
                    let failed_then_ok = pubs.iter().position(|x| !*x).map(|p| pubs[p..].iter().any(|x| *x)).unwrap_or(false);
                    cr.count("publications_refused", pubs.iter().filter(|x| !**x).count() as u64);
                    cr.count("scripts_with_a_refused_publication_followed_by_an_accepted_one", failed_then_ok as u64);
                    let ids: Vec<u32> = instances(&run).iter().map(|x| x.id).collect();
                    cr.sample = Some(json!({"fdt_start_id": spec.fdt_start_id, "publish_results": pubs, "instance_ids": ids}));
                }
                Ok(Err(e)) => cr.inconclusive = Some(e),
                Err(p) => cr.violations.push(Violation::new("panic", format!("{} @ {}", p.msg, p.short_loc())).with("site", p.file())),
            }
            cr
        }));
        // ---- supersession: an instance is replaced before it expires (drain polling, 50 ms)
        let durs: [u64; 11] = [1, 2, 3, 5, 9, 10, 11, 20, 30, 31, 60];
        gens.push(Gen::new("supersession", durs.len() * 12, move |ctx, i| {
            let dur = durs[i % durs.len()];
            let variant = (i / durs.len()) % 6;
            // second half: the static-carousel recipe - add, set_complete(), publish, then poll for ever; a complete FDT
            // still expires and must be renewed like any other
            let complete_first = i / durs.len() >= 6;
            let mut rng = Rng::keyed(ctx.seed, "C10s", 0, i as u64);
            let mut spec = SenderSpec::new(OtiSpec::new(Fec::NoCode, 1400, 8, 0));
            spec.fdt_duration_s = dur;
            spec.full_fdt = variant % 2 == 0;
            spec.fdt_carousel = CarouselSpec::DelayMs([100u64, 500, 1000][variant % 3]);
            // start at a sub-second offset: Expires is in whole NTP seconds
            let offset_ms = [0u64, 250, 500, 900, 999, 1][variant];
            let mut o = ObjSpec::new(rng.bytes(3000), "file:///s/keepalive.bin");
            o.carousel = Some(CarouselSpec::DelayMs(300));
            let script = if complete_first { vec![(When::Start, Op::Add(0)), (When::Start, Op::SetComplete), (When::Start, Op::Publish)] } else { vec![(When::Start, Op::Add(0)), (When::Start, Op::Publish)] };
            let n = ((dur * 3 + 4) * 1000 / 50) as usize;
            let opts = ScriptOpts { instants: (0..n as u64).map(|k| offset_ms + k * 50).collect(), drain: true, max_packets: 400_000, max_per_instant: 20_000, stop_when_empty: false, us: false };
            let mut cr = CaseResult::default();
            match util::guarded(|| run_script(&spec, &[o], &script, &opts)) {
                Ok(Ok(run)) => {
                    let insts = instances(&run);
                    let mut pairs = 0;
                    for w in insts.windows(2) {
                        let (a, b) = (&w[0], &w[1]);
                        let exp_a = a.xml.as_ref().and_then(|x| x.split("Expires=\"").nth(1)).and_then(|s| s.split('"').next()).and_then(|s| s.parse::<u64>().ok());
                        let (exp_a, tb) = match (exp_a, b.t_complete) {
                            (Some(e), Some(t)) => (e, t),
                            _ => continue,
                        };
                        pairs += 1;
                        // instant at which instance a stops being valid: NTP second exp_a (receivers test server_time > Expires)
                        let expiry = SystemTime::UNIX_EPOCH + Duration::from_secs(exp_a - NTP_UNIX_OFFSET);
                        // precondition "as long as the sender is polled": the renewal margin (a quarter of the lifetime the
                        // instance has left when it is published, for short durations) must contain a poll. An instance
                        // published less than five poll periods (250 ms) before its own Expires second - fdt_duration 1 s,
                        // publication late in the second - is not judged
                        if expiry.duration_since(a.t_first).unwrap_or_default() < Duration::from_millis(250) {
                            continue;
                        }
                        if tb > expiry {
                            let late = tb.duration_since(expiry).unwrap();
                            cr.violations.push(Violation::new("not_superseded_before_expiry", format!(
                                "fdt_duration {} s (publish offset {} ms): instance {} expires at NTP {} but instance {} was completely emitted {} ms later",
                                dur, offset_ms, a.id, exp_a, b.id, late.as_millis()))
                                .with("duration_class", if dur <= 10 { "le10" } else if dur <= 30 { "le30" } else { "gt30" })
                                .with("late_lt_1s", late.as_millis() < 1000)
                                .with("publish_offset_ge_900ms", offset_ms >= 900)
                                .with("full_fdt", spec.full_fdt).with("set_complete", complete_first)
                                .witness(json!({"sender": spec.json(), "offset_ms": offset_ms, "instances": insts.iter().map(|x| json!({"id": x.id, "t_first_us": util::since_t0_us(x.t_first) as i64})).collect::<Vec<_>>()})));
                            break;
                        }
                    }
                    // the LAST instance on the wire must still be valid when the run ends (an instance that is never
                    // superseded leaves no pair to judge); 1.5 s of slack keeps this apart from mere lateness
                    if let Some(last) = insts.last() {
                        let exp = last.xml.as_ref().and_then(|x| x.split("Expires=\"").nth(1)).and_then(|s| s.split('"').next()).and_then(|s| s.parse::<u64>().ok());
                        let t_end = util::at(opts.instants.last().copied().unwrap_or(0));
                        if let Some(e) = exp {
                            let expiry = SystemTime::UNIX_EPOCH + Duration::from_secs(e - NTP_UNIX_OFFSET);
                            if t_end > expiry + Duration::from_millis(1500) {
                                cr.violations.push(Violation::new("never_superseded", format!(
                                    "fdt_duration {} s: instance {} (the last one emitted) expired at NTP {} but no successor was emitted although the sender was polled every 50 ms for {} ms more",
                                    dur, last.id, e, t_end.duration_since(expiry).unwrap().as_millis()))
                                    .with("duration_class", if dur <= 10 { "le10" } else if dur <= 30 { "le30" } else { "gt30" })
                                    .with("full_fdt", spec.full_fdt)
                                    .witness(json!({"sender": spec.json(), "offset_ms": offset_ms, "instances": insts.iter().map(|x| json!({"id": x.id, "t_first_us": util::since_t0_us(x.t_first) as i64})).collect::<Vec<_>>()})));
                            }
                        }
                    }
                    cr.count("supersession_pairs", pairs);
                    if pairs > 0 {
                        cr.shape = Some(util::fnv(&format!("sup|{}|{}|{}", dur, variant, complete_first)));
                    }
                    cr.sample = Some(json!({"fdt_duration_s": dur, "offset_ms": offset_ms, "instances": insts.len(), "pairs_judged": pairs}));
                }
                Ok(Err(e)) => cr.inconclusive = Some(e),
                Err(p) => cr.violations.push(Violation::new("panic", format!("{} @ {}", p.msg, p.short_loc())).with("site", p.file())),
            }
            cr
        }));
        // ---- XML stage: expat + XSD over everything collected (runs last)
        let it = items.clone();
        const NB: usize = 32;
        gens.push(Gen::new("xml_expat_xsd", NB, move |_ctx, b| {
            let mut cr = CaseResult::default();
            let mine: Vec<(String, String, Value, &'static str, usize)> = {
                let g = it.lock().unwrap();
                g.iter().enumerate().filter(|(k, _)| k % NB == b).map(|(_, x)| (x.id.clone(), x.xml.clone(), x.expect.clone(), x.gen, x.case)).collect()
            };
            if mine.is_empty() {
                return cr;
            }
            let dir = sandbox_dir();
            let inp = dir.join(format!("c10-{}-{}.in.json", std::process::id(), b));
            let outp = dir.join(format!("c10-{}-{}.out.json", std::process::id(), b));
            let batch = json!({"xsd": "/repo/assets/xsd/FLUTE-FDT-3GPP-Main.xsd",
                "items": mine.iter().map(|(id, xml, e, _, _)| json!({"id": id, "xml": xml, "expect": e})).collect::<Vec<_>>()});
            std::fs::write(&inp, serde_json::to_vec(&batch).unwrap()).unwrap();
            let script = vh::report::verif_root().join("pychk").join("fdt_check.py");
            let st = std::process::Command::new("python3").arg(&script).arg(&inp).arg(&outp).output();
            let res: Option<Value> = std::fs::read(&outp).ok().and_then(|b| serde_json::from_slice(&b).ok());
            let _ = std::fs::remove_file(&inp);
            let _ = std::fs::remove_file(&outp);
            let res = match (st, res) {
                (Ok(_), Some(r)) => r,
                (st, _) => {
                    cr.inconclusive = Some(format!("python checker failed: {:?}", st.map(|o| String::from_utf8_lossy(&o.stderr).chars().take(300).collect::<String>())));
                    return cr;
                }
            };
            if res["xsd_status"].as_str() != Some("ok") {
                cr.inconclusive = Some("xmllint or XSD unavailable: schema validation skipped".into());
            }
            cr.count("xml_parsed_by_expat", res["parsed"].as_u64().unwrap_or(0));
            cr.count("xml_xsd_validated", res["xsd_validated"].as_u64().unwrap_or(0));
            let mut per_sig: std::collections::HashMap<String, usize> = Default::default();
            for f in res["failures"].as_array().cloned().unwrap_or_default() {
                // keep a few witnesses per kind of failure so that a frequent (known) kind
                // can never crowd out a rare one
                let key = format!("{}|{}|{}", f["clause"], f["field"], f["whitespace_normalised"]);
                let n = per_sig.entry(key).or_insert(0);
                *n += 1;
                if *n > 5 {
                    continue;
                }
                let id = f["id"].as_str().unwrap_or("");
                let item = mine.iter().find(|x| x.0 == id);
                let mut v = Violation::new(f["clause"].as_str().unwrap_or("xml"), format!("FDT instance {}: {}", id, f["detail"].as_str().unwrap_or("")));
                if let Some(fld) = f["field"].as_str() {
                    v = v.with("field", fld);
                }
                if let Some(ws) = f["whitespace_normalised"].as_bool() {
                    v = v.with("whitespace_normalised", ws);
                }
                if let Some(x) = item {
                    v = v.with("mode", if x.2["full_fdt"].as_bool() == Some(true) { "full" } else { "obt" });
                    v = v.with("from", x.3).witness(json!({"generator": x.3, "case": x.4, "xml": x.1.chars().take(3000).collect::<String>(), "expect_listing": x.2["listing_alternatives"]}));
                    let ctl = x.1.contains('\t') || x.1.matches('\n').count() > 1;
                    v = v.with("xml_has_raw_tab_or_newline", ctl);
                }
                cr.violations.push(v);
            }
            cr.shape = Some(util::fnv(&format!("xmlbatch{}", b)));
            cr.sample = Some(json!({"batch": b, "documents": mine.len(), "parsed_by_expat": res["parsed"], "xsd_validated": res["xsd_validated"]}));
            cr
        }));
        gens
    });
}
