//! Delivery oracles shared by several properties: what a `Complete` writer
//! must contain for a given object specification.

use crate::mwriter::WriterRec;
use crate::session::*;
use crate::util;
use flute::receiver::writer::ObjectCacheControl;
use serde_json::{json, Map, Value};
use std::time::{Duration, SystemTime};

/// Compare the metadata flute handed to `new_object_writer` with what the
/// sender was given. Returns (field, detail) for every mismatch.
pub fn check_meta(
    w: &WriterRec,
    obj: &ObjSpec,
    spec: &SenderSpec,
    transfer_len: u64,
    first_publish: SystemTime,
    last_publish: SystemTime,
) -> Vec<(String, String)> {
    let mut d = vec![];
    let m = &w.meta;
    let url = url::Url::parse(&obj.location).map(|u| u.as_str().to_string()).unwrap_or_default();
    if m.content_location != url {
        d.push(("content_location".into(), format!("got {:?} want {:?}", m.content_location, url)));
    }
    if m.content_length != Some(obj.data.len()) {
        d.push(("content_length".into(), format!("got {:?} want {}", m.content_length, obj.data.len())));
    }
    if m.transfer_length != Some(transfer_len as usize) {
        d.push(("transfer_length".into(), format!("got {:?} want {}", m.transfer_length, transfer_len)));
    }
    if m.content_type.as_deref() != Some(obj.content_type.as_str()) {
        d.push(("content_type".into(), format!("got {:?} want {:?}", m.content_type, obj.content_type)));
    }
    let want_md5 = if obj.md5 { Some(md5_b64(&obj.data)) } else { None };
    if m.md5 != want_md5 {
        d.push(("md5".into(), format!("got {:?} want {:?}", m.md5, want_md5)));
    }
    let mut want_groups: Vec<String> = spec.groups.clone().unwrap_or_default();
    want_groups.extend(obj.groups.clone().unwrap_or_default());
    let got_groups = m.groups.clone().unwrap_or_default();
    if got_groups != want_groups {
        d.push(("groups".into(), format!("got {:?} want {:?}", got_groups, want_groups)));
    }
    if m.e_tag != obj.e_tag {
        d.push(("e_tag".into(), format!("got {:?} want {:?}", m.e_tag, obj.e_tag)));
    }
    let got_cenc = m.cenc.map(|c| c as u8);
    if got_cenc != Some(obj.cenc.id()) {
        d.push(("cenc".into(), format!("got {:?} want {}", got_cenc, obj.cenc.id())));
    }
    let sec = Duration::from_secs(1);
    let within = |t: SystemTime, lo: SystemTime, hi: SystemTime| t + sec >= lo && t <= hi + sec;
    let cc_ok = match (obj.cache, m.cache_control) {
        (Some(CacheSpec::NoCache), ObjectCacheControl::NoCache) => true,
        (Some(CacheSpec::MaxStale), ObjectCacheControl::MaxStale) => true,
        (Some(CacheSpec::ExpiresSecs(s)), ObjectCacheControl::ExpiresAt(t)) => {
            within(t, first_publish + Duration::from_secs(s), last_publish + Duration::from_secs(s))
        }
        (Some(CacheSpec::ExpiresAtSecs(s)), ObjectCacheControl::ExpiresAt(t)) => {
            let want = util::t0() + Duration::from_secs(s);
            within(t, want, want)
        }
        (None, ObjectCacheControl::ExpiresAtHint(t)) => {
            let dur = Duration::from_secs(spec.fdt_duration_s);
            within(t, first_publish + dur, last_publish + dur)
        }
        _ => false,
    };
    if !cc_ok {
        d.push(("cache_control".into(), format!("got {:?} want {:?} (publish window {:?}..{:?})",
            m.cache_control, obj.cache, util::since_t0_us(first_publish), util::since_t0_us(last_publish))));
    }
    d
}

/// Generic discriminating facts about an object for violation signatures.
pub fn obj_facts(obj: &ObjSpec, oti: &OtiSpec, spec: &SenderSpec, transfer_len: u64) -> Map<String, Value> {
    let p = ref_partition(oti.b as u128, transfer_len as u128, oti.e as u128);
    let mut m = Map::new();
    m.insert("fec".into(), json!(oti.fec.name()));
    m.insert("cenc".into(), json!(obj.cenc.name()));
    m.insert("inband_fti".into(), json!(oti.inband_fti));
    m.insert("min_block_k".into(), json!(p.a_small.min(9) as u64));
    m.insert("n_blocks".into(), json!(p.n.min(9) as u64));
    m.insert("parity".into(), json!(oti.parity.min(9)));
    m.insert("empty".into(), json!(obj.data.is_empty()));
    m.insert("transfers".into(), json!(obj.max_transfer_count));
    m.insert("cache".into(), json!(match obj.cache {
        Some(CacheSpec::NoCache) => "nocache",
        Some(CacheSpec::MaxStale) => "maxstale",
        Some(CacheSpec::ExpiresSecs(_)) => "expires",
        Some(CacheSpec::ExpiresAtSecs(_)) => "expiresat",
        None => "none",
    }));
    m.insert("full_fdt".into(), json!(spec.full_fdt));
    m.insert("fdt_fec".into(), json!(spec.oti.fec.name()));
    m.insert("source".into(), json!(match obj.source {
        SourceSpec::Buffer => "buffer",
        SourceSpec::Cursor => "cursor",
        SourceSpec::Chunked(_) => "chunked",
        SourceSpec::ChunkedAt(..) => "chunked_at",
        SourceSpec::File => "file",
        SourceSpec::BufFile => "buffile",
        SourceSpec::SeekFailsOnce(_) => "seek_fails_once",
        SourceSpec::PathRam => "path_ram",
        SourceSpec::PathNoRam => "path_noram",
    }));
    m
}

/// does the FDT itself (sent with the session's default OTI) have a block the
/// scheme cannot encode? (Raptor needs >= 4 symbols per block). `fdt_len` = XML length.
pub fn fdt_min_block_k(spec: &SenderSpec, fdt_len: u64) -> u64 {
    let p = ref_partition(spec.oti.b as u128, fdt_len as u128, spec.oti.e as u128);
    p.a_small as u64
}
