//! Run a sender specification to a packet stream and a packet list through a
//! receiver, recording everything at the API boundary.

use crate::mwriter::{Log, MonBuilder, Script};
use crate::session::*;
use crate::util::{self};
use flute::receiver::{Config as RxConfig, MultiReceiver};
use flute::sender::Sender;
use serde_json::{json, Value};
use std::sync::Arc;
use std::time::{Duration, SystemTime};

pub struct Emitted {
    pub spec: SenderSpec,
    pub objs: Vec<ObjSpec>,
    /// TOI per object (None when add_object refused it)
    pub tois: Vec<Option<u128>>,
    pub add_err: Vec<Option<String>>,
    /// transfer length of each accepted object as flute reports it
    pub transfer_len: Vec<Option<u64>>,
    pub stream: Vec<SPkt>,
    pub sub_events: Vec<(usize, SubEv)>,
    /// the sender reported nb_objects()==0 before the horizon
    pub finished: bool,
    pub seek_logs: Vec<Option<Arc<std::sync::Mutex<Vec<String>>>>>,
    pub end_time: SystemTime,
}

#[derive(Clone, Debug)]
pub struct EmitOpts {
    /// virtual ms between two drains
    pub step_ms: u64,
    /// maximum number of virtual instants
    pub max_instants: usize,
    pub max_packets: usize,
    /// keep going this many instants after the sender reports no object left
    pub tail_instants: usize,
    pub start_ms: u64,
}

impl Default for EmitOpts {
    fn default() -> Self {
        EmitOpts {
            step_ms: 100,
            max_instants: 400,
            max_packets: 20_000,
            tail_instants: 0,
            start_ms: 0,
        }
    }
}

impl Emitted {
    pub fn json(&self) -> Value {
        json!({"sender": self.spec.json(),
            "objects": self.objs.iter().map(|o| o.json()).collect::<Vec<_>>(),
            "tois": self.tois.iter().map(|t| t.map(|v| v.to_string())).collect::<Vec<_>>(),
            "packets": self.stream.len(), "finished": self.finished})
    }
    pub fn obj_index_of(&self, toi: u128) -> Option<usize> {
        self.tois.iter().position(|t| *t == Some(toi))
    }
    /// OTI in force for object i
    pub fn oti_of(&self, i: usize) -> &OtiSpec {
        self.objs[i].oti.as_ref().unwrap_or(&self.spec.oti)
    }
    pub fn hex_stream(&self, max: usize) -> Vec<String> {
        self.stream.iter().take(max).map(|p| util::hex(&p.bytes)).collect()
    }
}

pub fn cleanup_tmp(paths: &[Option<std::path::PathBuf>]) {
    for p in paths.iter().flatten() {
        std::fs::remove_file(p).ok();
    }
}

/// Add every object, publish, and drain the sender on a virtual clock until it
/// reports no object left (or the horizon is reached).
pub fn emit(spec: &SenderSpec, objs: &[ObjSpec], opts: &EmitOpts) -> Result<Emitted, String> {
    let mut sender = spec.sender()?;
    let rec = Arc::new(Recorder::default());
    sender.subscribe(rec.clone());
    let mut tois = vec![];
    let mut add_err = vec![];
    let mut transfer_len = vec![];
    let mut seek_logs = vec![];
    let mut tmp = vec![];
    for o in objs {
        match build_object(o) {
            Err(e) => {
                tois.push(None);
                add_err.push(Some(format!("build: {}", e)));
                transfer_len.push(None);
                seek_logs.push(None);
            }
            Ok(b) => {
                let tl = b.desc.transfer_length;
                seek_logs.push(b.seek_log.clone());
                tmp.push(b.tmp_path.clone());
                match sender.add_object(o.priority, b.desc) {
                    Ok(t) => {
                        tois.push(Some(t));
                        add_err.push(None);
                        transfer_len.push(Some(tl));
                    }
                    Err(e) => {
                        tois.push(None);
                        add_err.push(Some(format!("{:?}", e)));
                        transfer_len.push(None);
                    }
                }
            }
        }
    }
    let mut now = util::at(opts.start_ms);
    if spec.full_fdt {
        sender.publish(now).map_err(|e| format!("publish: {:?}", e))?;
    }
    let mut stream = vec![];
    let mut finished = false;
    let mut tail = opts.tail_instants;
    for _ in 0..opts.max_instants {
        let r = drain(&mut sender, now, opts.max_packets, &mut stream, Some(&rec));
        if let Err(e) = r {
            cleanup_tmp(&tmp);
            return Err(e);
        }
        if sender.nb_objects() == 0 {
            finished = true;
            if tail == 0 {
                break;
            }
            tail -= 1;
        }
        if stream.len() >= opts.max_packets {
            break;
        }
        now += Duration::from_millis(opts.step_ms);
    }
    drop(sender);
    cleanup_tmp(&tmp);
    let sub_events = rec.events.lock().unwrap().clone();
    Ok(Emitted {
        spec: spec.clone(),
        objs: objs.to_vec(),
        tois,
        add_err,
        transfer_len,
        stream,
        sub_events,
        finished,
        seek_logs,
        end_time: now,
    })
}

pub fn new_sender(spec: &SenderSpec) -> Result<(Sender, Arc<Recorder>), String> {
    let mut s = spec.sender()?;
    let rec = Arc::new(Recorder::default());
    s.subscribe(rec.clone());
    Ok((s, rec))
}

// ---------------------------------------------------------------- receiver

#[derive(Clone, Debug)]
pub struct RxOpts {
    pub config: RxConfig,
    pub script: Script,
}

impl Default for RxOpts {
    fn default() -> Self {
        RxOpts {
            config: RxConfig {
                object_timeout: None,
                ..Default::default()
            },
            script: Script::default(),
        }
    }
}

pub struct Received {
    pub log: Log,
    pub push_err: usize,
    pub push_ok: usize,
    pub pushed: usize,
}

/// Push `pkts` (bytes, receiver time) into a fresh MultiReceiver, stop after
/// `drop_after` packets when given, drop the receiver and return the log.
pub fn receive<'a>(
    endpoint: &flute::core::UDPEndpoint,
    pkts: impl Iterator<Item = (&'a [u8], SystemTime)>,
    opts: &RxOpts,
    drop_after: Option<usize>,
) -> Received {
    let (builder, log) = MonBuilder::new(opts.script.clone());
    let mut rx = MultiReceiver::new(builder.clone(), Some(opts.config), false);
    let mut push_err = 0;
    let mut push_ok = 0;
    let mut pushed = 0;
    for (i, (b, t)) in pkts.enumerate() {
        if let Some(d) = drop_after {
            if i >= d {
                break;
            }
        }
        let r = util::with_budget(PUSH_BUDGET, || rx.push(endpoint, b, t));
        pushed += 1;
        match r {
            Ok(_) => push_ok += 1,
            Err(_) => push_err += 1,
        }
    }
    drop(rx);
    drop(builder);
    let log = std::rc::Rc::try_unwrap(log)
        .map(|c| c.into_inner())
        .unwrap_or_else(|rc| {
            // a writer is still alive: flute leaked it (kept after drop) - copy
            let l = rc.borrow();
            Log {
                writers: l.writers.clone(),
                events: l.events.clone(),
                fdts: l.fdts.clone(),
                cache_updates: l.cache_updates.clone(),
            }
        });
    Received {
        log,
        push_err,
        push_ok,
        pushed,
    }
}

pub fn receive_stream(em: &Emitted, opts: &RxOpts) -> Received {
    receive(
        &em.spec.endpoint(),
        em.stream.iter().map(|p| (p.bytes.as_slice(), p.t)),
        opts,
        None,
    )
}

/// shape signature of an object under an OTI: discretised parameters +
/// resulting partition shape
pub fn obj_shape(o: &ObjSpec, oti: &OtiSpec, tl: u64) -> String {
    let p = ref_partition(oti.b as u128, tl as u128, oti.e as u128);
    let lenclass = |l: u64| -> String {
        let e = oti.e as u64;
        if l == 0 {
            "0".into()
        } else if l < e {
            "<E".into()
        } else if l == e {
            "=E".into()
        } else if l % e == 0 {
            format!("kE")
        } else {
            format!("kE+r")
        }
    };
    format!(
        "{}|E{}|B{}|p{}|ib{}|{}|ic{}|L:{}|N{}|AL{}|AS{}|I{}|x{}|{:?}|{:?}",
        oti.fec.name(),
        oti.e,
        oti.b,
        oti.parity,
        oti.inband_fti,
        o.cenc.name(),
        o.inband_cenc,
        lenclass(tl),
        p.n.min(9),
        p.a_large.min(9),
        p.a_small.min(9),
        p.nb_large.min(9),
        o.max_transfer_count,
        o.carousel.is_some(),
        std::mem::discriminant(&o.source),
    )
}
