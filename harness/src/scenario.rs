//! Run a sender specification to a packet stream and a packet list through a
//! receiver, recording everything at the API boundary.

use crate::mwriter::{Log, MonBuilder, Script};
use crate::session::*;
use crate::util::{self};
use flute::receiver::{Config as RxConfig, MultiReceiver};
use flute::sender::Sender;
use serde_json::{json, Value};
use std::sync::Arc;
use std::time::{Duration, SystemTime};

pub struct Emitted {
    pub spec: SenderSpec,
    pub objs: Vec<ObjSpec>,
    /// TOI per object (None when add_object refused it)
    pub tois: Vec<Option<u128>>,
    pub add_err: Vec<Option<String>>,
    /// transfer length of each accepted object as flute reports it
    pub transfer_len: Vec<Option<u64>>,
    pub stream: Vec<SPkt>,
    pub sub_events: Vec<(usize, SubEv)>,
    /// the sender reported nb_objects()==0 before the horizon
    pub finished: bool,
    pub seek_logs: Vec<Option<Arc<std::sync::Mutex<Vec<String>>>>>,
    pub end_time: SystemTime,
}

#[derive(Clone, Debug)]
pub struct EmitOpts {
    /// virtual ms between two drains
    pub step_ms: u64,
    /// maximum number of virtual instants
    pub max_instants: usize,
    pub max_packets: usize,
    /// keep going this many instants after the sender reports no object left
    pub tail_instants: usize,
    pub start_ms: u64,
}

impl Default for EmitOpts {
    fn default() -> Self {
        EmitOpts {
            step_ms: 100,
            max_instants: 400,
            max_packets: 20_000,
            tail_instants: 0,
            start_ms: 0,
        }
    }
}

impl Emitted {
    pub fn json(&self) -> Value {
        json!({"sender": self.spec.json(),
            "objects": self.objs.iter().map(|o| o.json()).collect::<Vec<_>>(),
            "tois": self.tois.iter().map(|t| t.map(|v| v.to_string())).collect::<Vec<_>>(),
            "packets": self.stream.len(), "finished": self.finished})
    }
    pub fn obj_index_of(&self, toi: u128) -> Option<usize> {
        self.tois.iter().position(|t| *t == Some(toi))
    }
    /// OTI in force for object i
    pub fn oti_of(&self, i: usize) -> &OtiSpec {
        self.objs[i].oti.as_ref().unwrap_or(&self.spec.oti)
    }
    pub fn hex_stream(&self, max: usize) -> Vec<String> {
        self.stream.iter().take(max).map(|p| util::hex(&p.bytes)).collect()
    }
}

/// temporary source files of a run: removed when the run ends, also when it ends by a panic that is caught further up
pub struct TmpFiles(pub Vec<Option<std::path::PathBuf>>);

impl TmpFiles {
    pub fn push(&mut self, p: Option<std::path::PathBuf>) {
        self.0.push(p);
    }
}

impl Drop for TmpFiles {
    fn drop(&mut self) {
        cleanup_tmp(&self.0);
    }
}

pub fn cleanup_tmp(paths: &[Option<std::path::PathBuf>]) {
    for p in paths.iter().flatten() {
        std::fs::remove_file(p).ok();
    }
}

/// Add every object, publish, and drain the sender on a virtual clock until it
/// reports no object left (or the horizon is reached).
pub fn emit(spec: &SenderSpec, objs: &[ObjSpec], opts: &EmitOpts) -> Result<Emitted, String> {
    let mut sender = spec.sender()?;
    let rec = Arc::new(Recorder::default());
    sender.subscribe(rec.clone());
    let mut tois = vec![];
    let mut add_err = vec![];
    let mut transfer_len = vec![];
    let mut seek_logs = vec![];
    let mut tmp = TmpFiles(vec![]);
    for o in objs {
        match build_object(o) {
            Err(e) => {
                tois.push(None);
                add_err.push(Some(format!("build: {}", e)));
                transfer_len.push(None);
                seek_logs.push(None);
            }
            Ok(b) => {
                let tl = b.desc.transfer_length;
                seek_logs.push(b.seek_log.clone());
                tmp.push(b.tmp_path.clone());
                match sender.add_object(o.priority, b.desc) {
                    Ok(t) => {
                        tois.push(Some(t));
                        add_err.push(None);
                        transfer_len.push(Some(tl));
                    }
                    Err(e) => {
                        tois.push(None);
                        add_err.push(Some(format!("{:?}", e)));
                        transfer_len.push(None);
                    }
                }
            }
        }
    }
    let mut now = util::at(opts.start_ms);
    if spec.full_fdt {
        sender.publish(now).map_err(|e| format!("publish: {:?}", e))?;
    }
    let mut stream = vec![];
    let mut finished = false;
    let mut tail = opts.tail_instants;
    for _ in 0..opts.max_instants {
        let r = drain(&mut sender, now, opts.max_packets, &mut stream, Some(&rec));
        if let Err(e) = r {
            drop(tmp);
            return Err(e);
        }
        if sender.nb_objects() == 0 {
            finished = true;
            if tail == 0 {
                break;
            }
            tail -= 1;
        }
        if stream.len() >= opts.max_packets {
            break;
        }
        now += Duration::from_millis(opts.step_ms);
    }
    drop(sender);
    drop(tmp);
    let sub_events = rec.events.lock().unwrap().clone();
    Ok(Emitted {
        spec: spec.clone(),
        objs: objs.to_vec(),
        tois,
        add_err,
        transfer_len,
        stream,
        sub_events,
        finished,
        seek_logs,
        end_time: now,
    })
}

pub fn new_sender(spec: &SenderSpec) -> Result<(Sender, Arc<Recorder>), String> {
    let mut s = spec.sender()?;
    let rec = Arc::new(Recorder::default());
    s.subscribe(rec.clone());
    Ok((s, rec))
}

// ---------------------------------------------------------------- receiver

#[derive(Clone, Debug)]
pub struct RxOpts {
    pub config: RxConfig,
    pub script: Script,
    /// the application calls cleanup() after every push (a timer)
    pub cleanup_every_push: bool,
}

impl Default for RxOpts {
    fn default() -> Self {
        RxOpts {
            config: RxConfig {
                object_timeout: None,
                ..Default::default()
            },
            script: Script::default(),
            cleanup_every_push: false,
        }
    }
}

pub struct Received {
    pub log: Log,
    pub push_err: usize,
    pub push_ok: usize,
    pub pushed: usize,
}

/// Push `pkts` (bytes, receiver time) into a fresh MultiReceiver, stop after
/// `drop_after` packets when given, drop the receiver and return the log.
pub fn receive<'a>(
    endpoint: &flute::core::UDPEndpoint,
    pkts: impl Iterator<Item = (&'a [u8], SystemTime)>,
    opts: &RxOpts,
    drop_after: Option<usize>,
) -> Received {
    let (builder, log) = MonBuilder::new(opts.script.clone());
    let mut rx = MultiReceiver::new(builder.clone(), Some(opts.config), false);
    let mut push_err = 0;
    let mut push_ok = 0;
    let mut pushed = 0;
    for (i, (b, t)) in pkts.enumerate() {
        if let Some(d) = drop_after {
            if i >= d {
                break;
            }
        }
        let r = util::with_budget(PUSH_BUDGET, || rx.push(endpoint, b, t));
        if opts.cleanup_every_push {
            rx.cleanup(t);
        }
        pushed += 1;
        match r {
            Ok(_) => push_ok += 1,
            Err(_) => push_err += 1,
        }
    }
    drop(rx);
    drop(builder);
    let log = std::rc::Rc::try_unwrap(log)
        .map(|c| c.into_inner())
        .unwrap_or_else(|rc| {
            // a writer is still alive: flute leaked it (kept after drop) - copy
            let l = rc.borrow();
            Log {
                writers: l.writers.clone(),
                events: l.events.clone(),
                fdts: l.fdts.clone(),
                cache_updates: l.cache_updates.clone(),
            }
        });
    Received {
        log,
        push_err,
        push_ok,
        pushed,
    }
}

pub fn receive_stream(em: &Emitted, opts: &RxOpts) -> Received {
    receive(
        &em.spec.endpoint(),
        em.stream.iter().map(|p| (p.bytes.as_slice(), p.t)),
        opts,
        None,
    )
}

/// shape signature of an object under an OTI: discretised parameters +
/// resulting partition shape
pub fn obj_shape(o: &ObjSpec, oti: &OtiSpec, tl: u64) -> String {
    let p = ref_partition(oti.b as u128, tl as u128, oti.e as u128);
    let lenclass = |l: u64| -> String {
        let e = oti.e as u64;
        if l == 0 {
            "0".into()
        } else if l < e {
            "<E".into()
        } else if l == e {
            "=E".into()
        } else if l % e == 0 {
            format!("kE")
        } else {
            format!("kE+r")
        }
    };
    format!(
        "{}|E{}|B{}|p{}|ib{}|{}|ic{}|L:{}|N{}|AL{}|AS{}|I{}|x{}|{:?}|{:?}",
        oti.fec.name(),
        oti.e,
        oti.b,
        oti.parity,
        oti.inband_fti,
        o.cenc.name(),
        o.inband_cenc,
        lenclass(tl),
        p.n.min(9),
        p.a_large.min(9),
        p.a_small.min(9),
        p.nb_large.min(9),
        o.max_transfer_count,
        o.carousel.is_some(),
        std::mem::discriminant(&o.source),
    )
}

// ---------------------------------------------------------------- scripted sender runs

#[derive(Clone, Debug, PartialEq, Eq)]
pub enum When {
    /// before the first read
    Start,
    /// as soon as this many packets have been emitted in total
    Packets(usize),
    /// at the first poll instant >= this many ms after the virtual epoch
    TimeMs(u64),
}

#[derive(Clone, Debug, PartialEq, Eq)]
pub enum Op {
    Add(usize),
    Publish,
    Remove(usize),
    Trigger(usize, Option<u64>),
    SetComplete,
    /// allocate a TOI handle and add the object with it
    AddWithHandle(usize),
}

#[derive(Clone, Debug)]
pub struct OpRec {
    pub op: Op,
    pub pkt_index: usize,
    pub t: SystemTime,
    pub ok: bool,
    pub note: String,
}

#[derive(Clone, Debug)]
pub struct StateSample {
    pub pkt_index: usize,
    pub t: SystemTime,
    pub nb_objects: usize,
    /// (object index, toi, is_added, nb_transfers)
    pub per_obj: Vec<(usize, u128, bool, Option<u64>)>,
    /// TOIs listed by get_objects_in_fdt
    pub in_fdt: Vec<u128>,
    /// true when taken after a drain returned None (quiescent)
    pub quiescent: bool,
    /// packets emitted by the drain that just ended
    pub drained: usize,
}

pub struct ScriptRun {
    pub spec: SenderSpec,
    pub objs: Vec<ObjSpec>,
    pub tois: Vec<Option<u128>>,
    pub transfer_len: Vec<Option<u64>>,
    pub stream: Vec<SPkt>,
    pub sub_events: Vec<(usize, SubEv)>,
    pub ops: Vec<OpRec>,
    pub samples: Vec<StateSample>,
    pub seek_logs: Vec<Option<Arc<std::sync::Mutex<Vec<String>>>>>,
    /// poll instants used (ms after epoch)
    pub instants: Vec<u64>,
    pub fdt_xml_at_end: Option<Vec<u8>>,
}

#[derive(Clone, Debug)]
pub struct ScriptOpts {
    /// poll instants, ms after the virtual epoch (non decreasing)
    pub instants: Vec<u64>,
    /// drain (read until None) or single read per instant
    pub drain: bool,
    pub max_packets: usize,
    /// cap on the packets of one drain
    pub max_per_instant: usize,
    /// stop when no object is left and all ops were executed
    pub stop_when_empty: bool,
    /// `instants` are microseconds instead of milliseconds
    pub us: bool,
}

impl ScriptOpts {
    pub fn every(step_ms: u64, n: usize) -> ScriptOpts {
        ScriptOpts {
            instants: (0..n as u64).map(|i| i * step_ms).collect(),
            drain: true,
            max_packets: 50_000,
            max_per_instant: 20_000,
            stop_when_empty: true,
            us: false,
        }
    }
}

fn sample(
    sender: &mut Sender,
    tois: &[Option<u128>],
    pkt_index: usize,
    t: SystemTime,
    quiescent: bool,
    drained: usize,
) -> StateSample {
    let per_obj = tois
        .iter()
        .enumerate()
        .filter_map(|(i, t)| t.map(|t| (i, t)))
        .map(|(i, t)| (i, t, sender.is_added(t), sender.nb_transfers(t)))
        .collect();
    let mut in_fdt: Vec<u128> = sender.get_objects_in_fdt().keys().copied().collect();
    in_fdt.sort();
    StateSample {
        pkt_index,
        t,
        nb_objects: sender.nb_objects(),
        per_obj,
        in_fdt,
        quiescent,
        drained,
    }
}

pub fn run_script(
    spec: &SenderSpec,
    objs: &[ObjSpec],
    script: &[(When, Op)],
    opts: &ScriptOpts,
) -> Result<ScriptRun, String> {
    let (mut sender, rec) = new_sender(spec)?;
    let mut tois: Vec<Option<u128>> = vec![None; objs.len()];
    let mut transfer_len: Vec<Option<u64>> = vec![None; objs.len()];
    let mut seek_logs: Vec<Option<Arc<std::sync::Mutex<Vec<String>>>>> = vec![None; objs.len()];
    let mut tmp = TmpFiles(vec![]);
    let mut stream: Vec<SPkt> = vec![];
    let mut ops: Vec<OpRec> = vec![];
    let mut samples: Vec<StateSample> = vec![];
    let mut done = vec![false; script.len()];
    let mut instants_used = vec![];

    let exec = |sender: &mut Sender,
                    op: &Op,
                    now: SystemTime,
                    pkt_index: usize,
                    tois: &mut Vec<Option<u128>>,
                    transfer_len: &mut Vec<Option<u64>>,
                    seek_logs: &mut Vec<Option<Arc<std::sync::Mutex<Vec<String>>>>>,
                    tmp: &mut Vec<Option<std::path::PathBuf>>|
     -> OpRec {
        let (ok, note) = match op {
            Op::Add(i) | Op::AddWithHandle(i) => match build_object(&objs[*i]) {
                Err(e) => (false, format!("build: {}", e)),
                Ok(mut b) => {
                    let tl = b.desc.transfer_length;
                    seek_logs[*i] = b.seek_log.clone();
                    tmp.push(b.tmp_path.clone());
                    if matches!(op, Op::AddWithHandle(_)) {
                        let h = sender.allocate_toi();
                        b.desc.set_toi(h);
                    }
                    match sender.add_object(objs[*i].priority, b.desc) {
                        Ok(t) => {
                            tois[*i] = Some(t);
                            transfer_len[*i] = Some(tl);
                            (true, format!("toi={}", t))
                        }
                        Err(e) => (false, format!("{:?}", e)),
                    }
                }
            },
            Op::Publish => match sender.publish(now) {
                Ok(_) => (true, String::new()),
                Err(e) => (false, format!("{:?}", e)),
            },
            Op::Remove(i) => match tois[*i] {
                Some(t) => (sender.remove_object(t), String::new()),
                None => (false, "no toi".into()),
            },
            Op::Trigger(i, at) => match tois[*i] {
                Some(t) => (sender.trigger_transfer_at(t, at.map(util::at)), String::new()),
                None => (false, "no toi".into()),
            },
            Op::SetComplete => {
                sender.set_complete();
                (true, String::new())
            }
        };
        OpRec {
            op: op.clone(),
            pkt_index,
            t: now,
            ok,
            note,
        }
    };

    let mut err: Option<String> = None;
    'outer: for (ii, &ms) in opts.instants.iter().enumerate() {
        let now = if opts.us { util::at_us(ms) } else { util::at(ms) };
        let ms_for_ops = if opts.us { ms / 1000 } else { ms };
        instants_used.push(ms);
        let mut drained = 0usize;
        let mut ended_with_none = false;
        loop {
            // due operations
            for (k, (w, op)) in script.iter().enumerate() {
                if done[k] {
                    continue;
                }
                let due = match w {
                    When::Start => ii == 0 && drained == 0,
                    When::Packets(n) => stream.len() >= *n,
                    When::TimeMs(t) => ms_for_ops >= *t,
                };
                // keep script order: an op never runs before an earlier one
                if !due {
                    break;
                }
                let r = exec(&mut sender, op, now, stream.len(), &mut tois, &mut transfer_len, &mut seek_logs, &mut tmp.0);
                ops.push(r);
                done[k] = true;
                samples.push(sample(&mut sender, &tois, stream.len(), now, false, 0));
            }
            rec.pkt_index.store(stream.len(), std::sync::atomic::Ordering::Relaxed);
            let p = util::with_budget(READ_BUDGET, || sender.read(now));
            match p {
                None => {
                    ended_with_none = true;
                    break;
                }
                Some(b) => {
                    match decode_stream_pkt(b, now) {
                        Ok(p) => stream.push(p),
                        Err(e) => {
                            err = Some(format!("undecodable packet emitted: {}", e));
                            break 'outer;
                        }
                    }
                    drained += 1;
                    if !opts.drain {
                        break;
                    }
                    if drained > opts.max_per_instant {
                        err = Some(format!("more than {} packets at one instant", opts.max_per_instant));
                        break 'outer;
                    }
                }
            }
        }
        samples.push(sample(&mut sender, &tois, stream.len(), now, ended_with_none, drained));
        if stream.len() >= opts.max_packets {
            break;
        }
        if opts.stop_when_empty && done.iter().all(|d| *d) && sender.nb_objects() == 0 && drained == 0 {
            break;
        }
    }
    let fdt_xml_at_end = sender
        .fdt_xml_data(if opts.us { util::at_us(*instants_used.last().unwrap_or(&0)) } else { util::at(*instants_used.last().unwrap_or(&0)) })
        .ok();
    drop(sender);
    drop(tmp);
    if let Some(e) = err {
        return Err(e);
    }
    let sub_events = rec.events.lock().unwrap().clone();
    Ok(ScriptRun {
        spec: spec.clone(),
        objs: objs.to_vec(),
        tois,
        transfer_len,
        stream,
        sub_events,
        ops,
        samples,
        seek_logs,
        instants: instants_used,
        fdt_xml_at_end,
    })
}

impl ScriptRun {
    /// view of a scripted run as a plain emitted session (for the channel / decodability helpers)
    pub fn into_emitted(self) -> Emitted {
        let n = self.objs.len();
        let end = self.stream.last().map(|p| p.t).unwrap_or_else(|| util::at(0));
        Emitted { spec: self.spec, objs: self.objs, tois: self.tois, add_err: vec![None; n], transfer_len: self.transfer_len, stream: self.stream,
            sub_events: self.sub_events, finished: true, seek_logs: self.seek_logs, end_time: end }
    }

    pub fn oti_of(&self, i: usize) -> &OtiSpec {
        self.objs[i].oti.as_ref().unwrap_or(&self.spec.oti)
    }
    pub fn json(&self) -> Value {
        json!({"sender": self.spec.json(),
            "objects": self.objs.iter().map(|o| o.json()).collect::<Vec<_>>(),
            "tois": self.tois.iter().map(|t| t.map(|v| v.to_string())).collect::<Vec<_>>(),
            "ops": self.ops.iter().map(|o| format!("{:?}@pkt{} ok={} {}", o.op, o.pkt_index, o.ok, o.note)).collect::<Vec<_>>(),
            "packets": self.stream.len()})
    }
    /// transfers of object `toi` as [start_pkt_index, stop_pkt_index) pairs
    /// (stop = None when the transfer was still running at the end)
    pub fn transfers_of(&self, toi: u128) -> Vec<(usize, Option<usize>)> {
        transfers_of(&self.sub_events, toi)
    }
    pub fn summary(&self, max: usize) -> Vec<String> {
        self.stream
            .iter()
            .take(max)
            .map(|p| {
                format!(
                    "toi={} sbn={} esi={} len={}{}{}",
                    p.toi(),
                    p.dec.sbn,
                    p.dec.esi,
                    p.payload().len(),
                    if p.dec.lct.b { " B" } else { "" },
                    p.dec.fdt.map(|f| format!(" fdt#{}", f.1)).unwrap_or_default()
                )
            })
            .collect()
    }
}

pub fn transfers_of(ev: &[(usize, SubEv)], toi: u128) -> Vec<(usize, Option<usize>)> {
    let mut out: Vec<(usize, Option<usize>)> = vec![];
    for (i, e) in ev {
        match e {
            SubEv::Start(t, _) if *t == toi => out.push((*i, None)),
            SubEv::Stop(t, _) if *t == toi => {
                if let Some(last) = out.last_mut() {
                    if last.1.is_none() {
                        last.1 = Some(*i);
                    }
                }
            }
            _ => {}
        }
    }
    out
}
