#!/usr/bin/env python3
"""Scratch triage helper: group harness/target/violations-<id>.jsonl by chosen signature keys."""
import json, sys, collections
pid = sys.argv[1]; keys = sys.argv[2].split(',') if len(sys.argv) > 2 else ['clause']
flt = dict(kv.split('=') for kv in sys.argv[3:])
c = collections.Counter(); ex = {}
for l in open('/verif/harness/target/violations-%s.jsonl' % pid):
    v = json.loads(l); s = v['sig']
    if any(str(s.get(k)) != val for k, val in flt.items()): continue
    k = tuple(str(s.get(x)) for x in keys)
    c[k] += 1; ex.setdefault(k, (v['gen'], v['case'], v['detail'][:230]))
for k, n in sorted(c.items(), key=lambda x: -x[1]):
    print(n, dict(zip(keys, k)), '::', ex[k])
