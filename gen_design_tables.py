#!/usr/bin/env python3
"""Regenerates the generated tables of DESIGN.md (between BEGIN:/END: markers) from
known_findings.json and seeded/*/meta.json."""
import json, glob, os, re
ROOT = os.path.dirname(os.path.abspath(__file__))

def findings_tables():
    d = json.load(open(os.path.join(ROOT, 'known_findings.json')))
    fixed = [f for f in d['findings'] if f['status'] == 'fixed']
    known = [f for f in d['findings'] if f['status'] == 'known']
    out = []
    out.append('**Known findings (genuine defects recorded, not repaired)** - printed as `KNOWN-FINDING` lines, matched by signature:\n')
    out.append('| id | property | failing input / history | signature |')
    out.append('|---|---|---|---|')
    for f in known:
        out.append('| %s | %s | %s | `%s` |' % (f['id'], f['property'], f['what'].replace('|', '\\|'), json.dumps(f['signature']).replace('|', '\\|')))
    out.append('')
    out.append('**Genuine defects repaired** (%d `fix:` commits in /repo; a fixed entry suppresses nothing):\n' % len(set(f['commit'] for f in fixed)))
    out.append('| id | property | commit | what failed |')
    out.append('|---|---|---|---|')
    for f in fixed:
        out.append('| %s | %s | `%s` | %s |' % (f['id'], f['property'], f['commit'], f['what'].replace('|', '\\|')))
    return '\n'.join(out)

def seeded_table():
    out = ['| seed | property | change (files) | trigger | caught by | note |', '|---|---|---|---|---|---|']
    for m in sorted(glob.glob(os.path.join(ROOT, 'seeded', '*', 'meta.json'))):
        x = json.load(open(m))
        det = '; '.join('%s %s: %s (%s)' % (d['check'], d['tier'], 'CAUGHT' if d['caught'] else 'missed', ', '.join(d['clauses'][:4])) for d in x['detection'])
        note = x.get('note', '')
        note = ('**' + note.split('.')[0] + '.** ' + '.'.join(note.split('.')[1:]).strip()) if note else ''
        out.append('| %s | %s | %s (%s) | %s | %s | %s |' % (x['id'], x['property'], x['summary'].replace('|', '\\|'), ', '.join(os.path.basename(f) for f in x['files']),
                                                        x['trigger'].replace('|', '\\|'), det, note.replace('|', '\\|')))
    return '\n'.join(out)

def main():
    p = os.path.join(ROOT, 'DESIGN.md')
    s = open(p).read()
    for name, fn in (('findings', findings_tables), ('seeded', seeded_table)):
        b, e = '<!-- BEGIN:%s -->' % name, '<!-- END:%s -->' % name
        if b in s and e in s:
            s = s[:s.index(b) + len(b)] + '\n' + fn() + '\n' + s[s.index(e):]
    open(p, 'w').write(s)

if __name__ == '__main__':
    main()
