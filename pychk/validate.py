#!/usr/bin/env python3
"""Validate MANIFEST.json and evidence/*.json against the given schemas."""
import json, sys, glob, os
import jsonschema
root = os.path.dirname(os.path.dirname(os.path.abspath(__file__)))
ok = True
try:
    jsonschema.validate(json.load(open(root + '/MANIFEST.json')), json.load(open('/root/.vp/MANIFEST.schema.json')))
    print('MANIFEST ok')
except Exception as e:
    ok = False; print('MANIFEST INVALID', e)
es = json.load(open('/root/.vp/EVIDENCE.schema.json'))
for f in sorted(glob.glob(root + '/evidence/*.json')):
    try:
        jsonschema.validate(json.load(open(f)), es); print(os.path.basename(f), 'ok')
    except Exception as e:
        ok = False; print(f, 'INVALID', str(e)[:300])
sys.exit(0 if ok else 1)
