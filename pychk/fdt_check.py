#!/usr/bin/env python3
"""Offline checker for FDT instances (C10).

Reads a JSON batch {"xsd": path, "items": [{"id", "xml", "expect"}]}, parses every
XML with expat (xml.etree, independent of quick-xml), compares listing and
attributes with the expectation computed by the harness from what the sender was
given, validates all documents with xmllint --schema, and writes
{"failures": [{"id", "clause", "detail"}], "parsed": n, "xsd_validated": n}.
"""
import json, sys, os, subprocess, tempfile, shutil
import xml.etree.ElementTree as ET

NS = {
    'fdt': 'urn:IETF:metadata:2005:FLUTE:FDT',
    'mbms2005': 'urn:3GPP:metadata:2005:MBMS:FLUTE:FDT',
    'mbms2007': 'urn:3GPP:metadata:2007:MBMS:FLUTE:FDT',
    'mbms2008': 'urn:3GPP:metadata:2008:MBMS:FLUTE:FDT_ext',
    'mbms2009': 'urn:3GPP:metadata:2009:MBMS:FLUTE:FDT_ext',
    'mbms2012': 'urn:3GPP:metadata:2012:MBMS:FLUTE:FDT',
    'mbms2015': 'urn:3GPP:metadata:2015:MBMS:FLUTE:FDT',
    'sv': 'urn:3gpp:metadata:2009:MBMS:schemaVersion',
}
OTI_ATTRS = ['FEC-OTI-FEC-Encoding-ID', 'FEC-OTI-FEC-Instance-ID', 'FEC-OTI-Maximum-Source-Block-Length',
             'FEC-OTI-Encoding-Symbol-Length', 'FEC-OTI-Max-Number-of-Encoding-Symbols', 'FEC-OTI-Scheme-Specific-Info']


def q(ns, name):
    return '{%s}%s' % (NS[ns], name)


def ws_only(got, want):
    """True when the only difference is XML attribute-value normalisation of tab / newline / CR"""
    if got is None or want is None:
        return False
    return got == want.replace('\t', ' ').replace('\n', ' ').replace('\r', ' ')


def check_item(item, fail):
    iid = item['id']
    exp = item['expect']
    try:
        root = ET.fromstring(item['xml'].encode('utf-8'))
    except ET.ParseError as e:
        fail(iid, 'not_well_formed', str(e))
        return False
    if root.tag != q('fdt', 'FDT-Instance'):
        fail(iid, 'root_element', root.tag)
        return True
    if exp.get('expires') is not None and root.get('Expires') != exp['expires']:
        fail(iid, 'expires', 'Expires=%r, expected %r' % (root.get('Expires'), exp['expires']))
    if exp.get('expires_any') is not None and root.get('Expires') not in exp['expires_any']:
        fail(iid, 'expires', 'Expires=%r, expected one of %r' % (root.get('Expires'), exp['expires_any'][:6]))
    if 'full_fdt' in exp:
        got = root.get(q('mbms2008', 'FullFDT'))
        want = 'true' if exp['full_fdt'] else None
        if got != want:
            fail(iid, 'full_fdt', 'FullFDT=%r expected %r' % (got, want))
    if 'complete' in exp:
        got = root.get('Complete')
        want = 'true' if exp['complete'] else None
        if got != want:
            fail(iid, 'complete', 'Complete=%r expected %r' % (got, want))
    if 'groups' in exp:
        got = [g.text or '' for g in root.findall(q('mbms2005', 'Group'))]
        if got != exp['groups']:
            fail(iid, 'instance_groups', 'got %r expected %r' % (got, exp['groups']))
    files = root.findall(q('fdt', 'File'))
    if not files:
        # the RFC 6726 schema requires at least one File; an empty listing (nothing to announce)
        # is the only thing the sender can say then: schema validity is not judged for it
        item['xsd'] = False
    listing = sorted(f.get('TOI') or '?' for f in files)
    alts = exp.get('listing_alternatives')
    if alts is not None:
        if not any(listing == sorted(a) for a in alts):
            fail(iid, 'listing', 'File TOIs %r, admissible listings %r' % (listing, alts[:4]))
            return True
    if len(set(listing)) != len(listing):
        fail(iid, 'duplicate_toi', repr(listing))
    for f in files:
        toi = f.get('TOI')
        fe = exp.get('files', {}).get(toi)
        if fe is None:
            continue
        for attr in ['Content-Location', 'Content-Length', 'Transfer-Length', 'Content-Type', 'Content-Encoding', 'Content-MD5']:
            if attr in fe and f.get(attr) != fe[attr]:
                fail(iid, 'file_attribute', 'TOI %s %s=%r expected %r' % (toi, attr, f.get(attr), fe[attr]), attr, ws_only(f.get(attr), fe[attr]))
        if 'File-ETag' in fe:
            got = f.get(q('mbms2012', 'File-ETag'))
            if got != fe['File-ETag']:
                fail(iid, 'file_attribute', 'TOI %s File-ETag=%r expected %r' % (toi, got, fe['File-ETag']), 'File-ETag', ws_only(got, fe['File-ETag']))
        if 'groups' in fe:
            got = [g.text or '' for g in f.findall(q('mbms2005', 'Group'))]
            if got != fe['groups']:
                fail(iid, 'file_groups', 'TOI %s groups %r expected %r' % (toi, got, fe['groups']))
        if 'cache' in fe:
            cc = f.find(q('mbms2007', 'Cache-Control'))
            want = fe['cache']
            if want['kind'] == 'none':
                if cc is not None:
                    fail(iid, 'cache_control', 'TOI %s unexpected Cache-Control' % toi)
            elif cc is None:
                fail(iid, 'cache_control', 'TOI %s Cache-Control missing, expected %r' % (toi, want))
            else:
                kids = list(cc)
                tagmap = {'no-cache': q('mbms2007', 'no-cache'), 'max-stale': q('mbms2007', 'max-stale'), 'expires': q('mbms2007', 'Expires')}
                if len(kids) != 1 or kids[0].tag != tagmap[want['kind']]:
                    fail(iid, 'cache_control', 'TOI %s Cache-Control children %r expected %s' % (toi, [k.tag for k in kids], want['kind']))
                elif want['kind'] == 'expires':
                    try:
                        v = int(kids[0].text)
                        if not (want['min'] <= v <= want['max']):
                            fail(iid, 'cache_control', 'TOI %s Expires %d not in [%d,%d]' % (toi, v, want['min'], want['max']))
                    except (TypeError, ValueError):
                        fail(iid, 'cache_control', 'TOI %s Expires text %r' % (toi, kids[0].text))
                elif (kids[0].text or '') != 'true':
                    fail(iid, 'cache_control', 'TOI %s %s text %r' % (toi, want['kind'], kids[0].text))
        if 'oti' in fe:
            eff = {}
            for a in OTI_ATTRS:
                v = f.get(a)
                if v is None:
                    v = root.get(a)
                eff[a] = v
            for a, want in fe['oti'].items():
                if want == '*':
                    continue
                if eff.get(a) != want:
                    fail(iid, 'fec_oti', 'TOI %s effective %s=%r expected %r' % (toi, a, eff.get(a), want), a)
    return True


def main():
    batch = json.load(open(sys.argv[1]))
    failures = []

    def fail(iid, clause, detail, field=None, ws=None):
        failures.append({'id': iid, 'clause': clause, 'detail': detail[:600], 'field': field, 'whitespace_normalised': ws})

    parsed = 0
    tmp = tempfile.mkdtemp(prefix='fdtchk', dir=os.path.dirname(os.path.abspath(sys.argv[2])))
    paths = []
    try:
        for n, item in enumerate(batch['items']):
            if check_item(item, fail):
                parsed += 1
                if item.get('xsd', True):
                    p = os.path.join(tmp, '%06d.xml' % n)
                    with open(p, 'w', encoding='utf-8') as fh:
                        fh.write(item['xml'])
                    paths.append((p, item['id']))
        validated = 0
        xsd = batch.get('xsd')
        xmllint = shutil.which('xmllint')
        xsd_status = 'ok'
        if not xsd or not os.path.exists(xsd) or not xmllint:
            xsd_status = 'unavailable'
        else:
            for i in range(0, len(paths), 200):
                chunk = paths[i:i + 200]
                r = subprocess.run([xmllint, '--noout', '--schema', xsd] + [p for p, _ in chunk], capture_output=True, text=True)
                byfile = {}
                for line in r.stderr.splitlines():
                    for p, iid in chunk:
                        if line.startswith(p):
                            byfile.setdefault(p, []).append(line[len(p):].strip(': '))
                for p, iid in chunk:
                    lines = byfile.get(p, [])
                    if any(l.endswith('validates') for l in lines) and not any('fails to validate' in l for l in lines):
                        validated += 1
                    else:
                        fail(iid, 'xsd', ' | '.join(l for l in lines if 'validates' not in l)[:500] or 'no verdict from xmllint')
    finally:
        shutil.rmtree(tmp, ignore_errors=True)
    json.dump({'failures': failures, 'parsed': parsed, 'xsd_validated': validated, 'xsd_status': xsd_status}, open(sys.argv[2], 'w'))


if __name__ == '__main__':
    main()
